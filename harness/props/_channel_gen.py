"""Translator shared by C07 / C08 (each writes its own Gen file): the integer arithmetic of the channel send loop
(`SSHChannel._flush_send_buf`), of delivery (`_deliver_data`), of the receive-side window check (`_process_data`,
`_process_extended_data`), of `_process_window_adjust`, and the handling of the peer's maximum packet size in
`SSHConnection._process_channel_open` / `_process_channel_open_confirmation` — all read from the AST of the current
tree.  Anything that does not have the expected shape raises `Untranslatable`."""
from __future__ import annotations

import ast
from typing import Any, Callable, Dict, List, Optional, Tuple

import translate as T
import vlib


def _attr(n: ast.AST) -> Optional[str]:
    return T._name_of(n)


def _augassign(func: ast.AST, target: str, op: type) -> ast.AugAssign:
    found = [n for n in ast.walk(func) if isinstance(n, ast.AugAssign) and _attr(n.target) == target
             and isinstance(n.op, op)]
    if len(found) != 1:
        raise T.Untranslatable(f'{target}: expected exactly one augmented assignment, found {len(found)}')
    return found[0]


def _first_while(func: ast.AST) -> ast.While:
    for n in ast.walk(func):
        if isinstance(n, ast.While):
            return n
    raise T.Untranslatable('no while loop')


def _truthy_and(test: ast.AST, names: List[str]) -> None:
    if not (isinstance(test, ast.BoolOp) and isinstance(test.op, ast.And) and
            [_attr(v) for v in test.values] == names):
        raise T.Untranslatable(f'loop condition is not `{" and ".join(names)}`: {ast.unparse(test)}')


def _div_compare(test: ast.AST, env: Dict[str, str]) -> str:
    """`a < b / c` with a positive integer literal c (true division) ->  a * c < b  (exact over the integers)."""
    if isinstance(test, ast.Compare) and len(test.ops) == 1 and isinstance(test.ops[0], ast.Lt):
        rhs = test.comparators[0]
        if isinstance(rhs, ast.BinOp) and isinstance(rhs.op, ast.Div) and isinstance(rhs.right, ast.Constant) \
                and isinstance(rhs.right.value, int) and rhs.right.value > 0:
            return (f'({T.expr_to_lean(test.left, env)} * ({rhs.right.value} : Int) < '
                    f'{T.expr_to_lean(rhs.left, env)})')
    return T.expr_to_lean(test, env)


def _raises_protocol_error(body: List[ast.stmt]) -> bool:
    return len(body) == 1 and isinstance(body[0], ast.Raise) and isinstance(body[0].exc, ast.Call) and \
        getattr(body[0].exc.func, 'id', '') == 'ProtocolError'


def flush_defs(func: ast.AST) -> Tuple[str, Dict[str, Any]]:
    loop = _first_while(func)
    _truthy_and(loop.test, ['self._send_buf', 'self._send_window'])
    # the local that holds the packet size: the first assignment in the loop whose value is a min()/max() call
    pkt = next((n for n in loop.body if isinstance(n, ast.Assign) and len(n.targets) == 1 and
                isinstance(n.targets[0], ast.Name) and isinstance(n.value, ast.Call) and
                getattr(n.value.func, 'id', '') in ('min', 'max')), None)
    if pkt is None:
        raise T.Untranslatable('send loop: packet size assignment not found')
    pname = pkt.targets[0].id
    env = {'self._send_window': 'sendWindow', 'self._send_pktsize': 'sendPktsize'}
    pkt_e = T.expr_to_lean(pkt.value, env)
    # `if pktsize <= 0: break` (fix de5c08f): an `if` whose whole body is `break`
    brk = next((n for n in loop.body if isinstance(n, ast.If) and not n.orelse and len(n.body) == 1 and
                isinstance(n.body[0], ast.Break)), None)
    if brk is not None and brk.lineno < pkt.lineno:
        raise T.Untranslatable('send loop: the zero-size break precedes the packet size computation')
    brk_e = T.expr_to_lean(brk.test, {pname: 'pktsize'}) if brk is not None else 'False'
    split = next((n for n in loop.body if isinstance(n, ast.If) and n is not brk), None)
    if split is None:
        raise T.Untranslatable('no split test in the send loop')
    if brk is not None and brk.lineno > split.lineno:
        raise T.Untranslatable('send loop: the zero-size break comes after the split')
    # names of the buffer entry and of the data about to be sent, from `buf, datatype = self._send_buf[0]`
    head = next((n for n in loop.body if isinstance(n, ast.Assign) and ast.unparse(n.value) == 'self._send_buf[0]'
                 and isinstance(n.targets[0], ast.Tuple)), None)
    if head is None:
        raise T.Untranslatable('send loop: head of the buffer is not taken as `x, y = self._send_buf[0]`')
    bname = ast.unparse(head.targets[0].elts[0])
    split_e = T.expr_to_lean(split.test, {f'len({bname})': 'buflen', pname: 'pktsize'})
    # the two branches: data = buf[:pktsize]; del buf[:pktsize]   |   data = buf; del self._send_buf[0]
    src_then = sorted(ast.unparse(s) for s in split.body)
    src_else = sorted(ast.unparse(s) for s in split.orelse)
    dname = next((ast.unparse(s.targets[0]) for s in split.body if isinstance(s, ast.Assign)), 'data')
    if src_then != sorted([f'{dname} = {bname}[:{pname}]', f'del {bname}[:{pname}]']) or \
            src_else != sorted([f'{dname} = {bname}', 'del self._send_buf[0]']):
        raise T.Untranslatable(f'send loop split branches changed: {src_then} / {src_else}')
    dec = _augassign(loop, 'self._send_window', ast.Sub)
    dec_e = '(sendWindow - ' + T.expr_to_lean(dec.value, {f'len({dname})': 'datalen'}) + ')'
    out = ''
    out += '/-- `while self._send_buf and self._send_window` (truthiness of a list and of an int) -/\n'
    out += 'def flushLoopCond (bufEntries sendWindow : Int) : Prop := bufEntries ≠ 0 ∧ sendWindow ≠ 0\n\n'
    out += '/-- `pktsize = ...` in `_flush_send_buf` -/\n'
    out += f'def pktsizeExpr (sendWindow sendPktsize : Int) : Int :=\n  {pkt_e}\n\n'
    out += '/-- `if pktsize <= 0: break`: the loop is left when nothing can be sent (`False` if the code has no such test) -/\n'
    out += f'def breakCond (pktsize : Int) : Prop :=\n  {brk_e}\n'
    out += 'instance (a : Int) : Decidable (breakCond a) := by unfold breakCond; exact inferInstance\n'
    out += f'def loopBreaksOnZero : Bool := {T.lean_bool(brk is not None)}\n\n'
    out += '/-- the test that decides between `buf[:pktsize]` and the whole buffer entry -/\n'
    out += f'def splitCond (buflen pktsize : Int) : Prop :=\n  {split_e}\n'
    out += 'instance (a b : Int) : Decidable (splitCond a b) := by unfold splitCond; exact inferInstance\n\n'
    out += '/-- `self._send_window -= len(data)` -/\n'
    out += f'def sendWindowNext (sendWindow datalen : Int) : Int :=\n  {dec_e}\n\n'
    py = {
        'pktsizeExpr': compile(ast.Expression(pkt.value), '<pktsize>', 'eval'),
        'splitCond': (compile(ast.Expression(split.test), '<split>', 'eval'), bname, pname),
    }
    return out, py


def deliver_defs(func: ast.AST) -> Tuple[str, Dict[str, Any]]:
    dec = _augassign(func, 'self._recv_window', ast.Sub)
    dec_e = '(recvWindow - ' + T.expr_to_lean(dec.value, {'len(data)': 'datalen'}) + ')'
    iff = next((n for n in func.body if isinstance(n, ast.If) and 'self._recv_window' in ast.unparse(n.test)), None)
    if iff is None:
        raise T.Untranslatable('_deliver_data: replenish test not found')
    env = {'self._recv_window': 'recvWindow', 'self._init_recv_window': 'initWindow'}
    cond_e = _div_compare(iff.test, env)
    adj = T.find_assign(iff, 'adjust', 0)
    adj_e = T.expr_to_lean(adj.value, env)
    reset = T.find_assign(iff, 'self._recv_window', 0)
    reset_e = T.expr_to_lean(reset.value, env)
    sends = [n for n in ast.walk(iff) if isinstance(n, ast.Call) and ast.unparse(n.func) == 'self.send_packet']
    if len(sends) != 1 or ast.unparse(sends[0].args[0]) != 'MSG_CHANNEL_WINDOW_ADJUST' or \
            ast.unparse(sends[0].args[1]) != 'UInt32(adjust)':
        raise T.Untranslatable('_deliver_data: WINDOW_ADJUST emission changed')
    if dec.lineno > iff.lineno:
        raise T.Untranslatable('_deliver_data: window decrement no longer precedes the replenish test')
    out = ''
    out += '/-- `self._recv_window -= len(data)` in `_deliver_data` -/\n'
    out += f'def recvWindowAfter (recvWindow datalen : Int) : Int :=\n  {dec_e}\n\n'
    out += '/-- `if self._recv_window < self._init_recv_window / 2` (true division, made exact over the integers) -/\n'
    out += f'def replenishCond (recvWindow initWindow : Int) : Prop :=\n  {cond_e}\n'
    out += 'instance (a b : Int) : Decidable (replenishCond a b) := by unfold replenishCond; exact inferInstance\n\n'
    out += '/-- `adjust = ...`, the value sent in WINDOW_ADJUST -/\n'
    out += f'def adjustExpr (initWindow recvWindow : Int) : Int :=\n  {adj_e}\n\n'
    out += '/-- `self._recv_window = ...` after the adjust was sent -/\n'
    out += f'def recvWindowReset (initWindow recvWindow : Int) : Int :=\n  {reset_e}\n\n'
    py = {'replenishCond': compile(ast.Expression(iff.test), '<replenish>', 'eval'),
          'adjustExpr': compile(ast.Expression(adj.value), '<adjust>', 'eval')}
    return out, py


def window_check(func: ast.AST, name: str) -> Tuple[str, ast.AST]:
    for n in ast.walk(func):
        if isinstance(n, ast.If) and _raises_protocol_error(n.body) and 'Window exceeded' in ast.unparse(n.body[0]):
            return T.expr_to_lean(n.test, {'datalen': 'datalen', 'self._recv_window': 'recvWindow',
                                           'self._recv_buf_len': 'recvBufLen'}), n.test
    raise T.Untranslatable(f'{name}: window check not found')


def attr_sites(cls: ast.AST, attr: str) -> List[str]:
    """every statement of SSHChannel that writes `self.<attr>`, as 'method: statement'"""
    res = []
    for f in cls.body:       # type: ignore
        if isinstance(f, (ast.FunctionDef, ast.AsyncFunctionDef)):
            for n in ast.walk(f):
                tgt = None
                if isinstance(n, ast.Assign) and len(n.targets) == 1:
                    tgt = n.targets[0]
                elif isinstance(n, (ast.AugAssign, ast.AnnAssign)):
                    tgt = n.target
                if tgt is not None and _attr(tgt) == 'self.' + attr:
                    res.append(f'{f.name}: {ast.unparse(n)}')
    return sorted(res)


def close_sends_eof(flush: ast.AST) -> bool:
    """in `_flush_send_buf`: `elif self._send_state == 'close_pending':` first tests `self._send_eof_pending`, and under
    it sends MSG_CHANNEL_EOF, then calls `self._close_send()`"""
    for n in ast.walk(flush):
        if isinstance(n, ast.If) and ast.unparse(n.test) == "self._send_state == 'close_pending'":
            body = n.body
            if len(body) == 2 and isinstance(body[0], ast.If) and ast.unparse(body[0].test) == 'self._send_eof_pending' \
                    and any(ast.unparse(x) == 'self.send_packet(MSG_CHANNEL_EOF)' for x in body[0].body) \
                    and ast.unparse(body[1]) == 'self._close_send()':
                return True
    return False


def decrement_site(cls: ast.AST) -> List[str]:
    """names of the methods of SSHChannel that decrement `_recv_window`"""
    res = []
    for f in cls.body:       # type: ignore
        if isinstance(f, (ast.FunctionDef, ast.AsyncFunctionDef)):
            for n in ast.walk(f):
                if isinstance(n, ast.AugAssign) and _attr(n.target) == 'self._recv_window' and isinstance(n.op, ast.Sub):
                    res.append(f.name)
    return sorted(set(res))


def pktsize_handling(func: ast.AST, name: str) -> Dict[str, bool]:
    """is there an active `if send_pktsize == 0: raise ProtocolError`, and does it come after the dropbear `-= 1`?"""
    check_line = None
    for n in ast.walk(func):
        if isinstance(n, ast.If) and _raises_protocol_error(n.body) and isinstance(n.test, ast.Compare) and \
                'send_pktsize' in ast.unparse(n.test):
            src = ast.unparse(n.test).replace(' ', '')
            if src in ('send_pktsize==0', 'send_pktsize<=0', 'notsend_pktsize', 'send_pktsize<1'):
                check_line = n.lineno
    if check_line is None:
        for n in ast.walk(func):
            if isinstance(n, ast.If) and _raises_protocol_error(n.body) and ast.unparse(n.test) == 'not send_pktsize':
                check_line = n.lineno
    dec_line = None
    for n in ast.walk(func):
        if isinstance(n, ast.AugAssign) and getattr(n.target, 'id', '') == 'send_pktsize' and isinstance(n.op, ast.Sub):
            dec_line = n.lineno
    passes = [n for n in ast.walk(func) if isinstance(n, ast.Call) and
              ast.unparse(n.func) in ('chan.process_open', 'chan.process_open_confirmation')]
    if len(passes) != 1 or 'send_pktsize' not in [ast.unparse(a) for a in passes[0].args]:
        raise T.Untranslatable(f'{name}: send_pktsize is no longer handed to the channel unchanged')
    return {'check': check_line is not None,
            'after_adjust': check_line is not None and (dec_line is None or check_line > dec_line),
            'adjust': dec_line is not None}


def _strip_cast(e: ast.AST) -> ast.AST:
    """`cast(T, x)` is the identity at run time"""
    while isinstance(e, ast.Call) and ast.unparse(e.func) == 'cast' and len(e.args) == 2:
        e = e.args[1]
    return e


def _per_datatype_codec(func: ast.AST, local: str, table: str, factory: str) -> bool:
    """inside `if self._encoding:` of `func`: `<local> = self.<table>.get(datatype)`, then `if not <local>:` with
    exactly `<local> = self.<factory>(self._errors)` and `self.<table>[datatype] = <local>` (repair 98283c0: one
    incremental codec object per data type, created on first use)"""
    for n in ast.walk(func):
        if isinstance(n, ast.If) and ast.unparse(n.test) == 'self._encoding':
            src = [ast.unparse(b) for b in n.body]
            if not src or src[0] != f'{local} = self.{table}.get(datatype)':
                continue
            if len(n.body) < 2 or not isinstance(n.body[1], ast.If) or ast.unparse(n.body[1].test) != f'not {local}' \
                    or n.body[1].orelse:
                continue
            made = sorted(ast.unparse(b) for b in n.body[1].body)
            return made == sorted([f'{local} = self.{factory}(self._errors)', f'self.{table}[datatype] = {local}'])
    return False


def _loop_over_decoders(func: ast.AST, call: str) -> bool:
    """`for decoder in self._decoders.values(): <call>` somewhere in func (the loop body is that one statement)"""
    for n in ast.walk(func):
        if isinstance(n, ast.For) and ast.unparse(n.target) == 'decoder' and \
                ast.unparse(n.iter) == 'self._decoders.values()' and not n.orelse and \
                [ast.unparse(b) for b in n.body] == [call]:
            return True
    return False


def credit_items(cls: ast.AST) -> Dict[str, bool]:
    """fix ae15f0e: `_accept_data` gives back the window of data it drops after the local close()
    (`if self._send_state in {'close_pending', 'closed'}:` → `self.send_packet(MSG_CHANNEL_WINDOW_ADJUST,
    UInt32(len(data)))`, `return`), `_discard_recv` that of the buffer it discards (`if self._recv_buf_len:` →
    `self.send_packet(MSG_CHANNEL_WINDOW_ADJUST, UInt32(self._recv_buf_len))`, before the buffer is emptied); neither
    touches `_recv_window`"""
    def body_of(name: str) -> List[ast.stmt]:
        f = next(f for f in cls.body if isinstance(f, ast.FunctionDef) and f.name == name)      # type: ignore
        return [b for b in f.body if not (isinstance(b, ast.Expr) and isinstance(b.value, ast.Constant))]
    drop = False
    for n in body_of('_accept_data'):
        if isinstance(n, ast.If) and ast.unparse(n.test).replace('"', "'") in (
                "self._send_state in {'close_pending', 'closed'}", "self._send_state in {'closed', 'close_pending'}"):
            src = [ast.unparse(b) for b in n.body]
            if src == ['self.send_packet(MSG_CHANNEL_WINDOW_ADJUST, UInt32(len(data)))', 'return']:
                drop = True
            elif src != ['return']:
                raise T.Untranslatable('_accept_data: the branch for data after close is not what the model knows: '
                                       + '; '.join(src))
    body = body_of('_discard_recv')
    src = [ast.unparse(b) for b in body]
    discard = False
    if 'self._recv_buf = []' not in src:
        raise T.Untranslatable('_discard_recv: the buffer is no longer emptied by `self._recv_buf = []`')
    k = src.index('self._recv_buf = []')
    for j, n in enumerate(body):
        if isinstance(n, ast.If) and ast.unparse(n.test) == 'self._recv_buf_len':
            inner = [ast.unparse(b) for b in n.body]
            if j < k and not n.orelse and \
                    inner == ['self.send_packet(MSG_CHANNEL_WINDOW_ADJUST, UInt32(self._recv_buf_len))']:
                discard = True
            else:
                raise T.Untranslatable('_discard_recv: the credit for discarded data is not what the model knows: '
                                       + ast.unparse(n))
    return {'drop': drop, 'discard': discard}


def session_request_items(tree: ast.AST) -> Dict[str, Any]:
    """`SSHServerChannel._start_session`: is a shell / exec / subsystem request refused once one has succeeded
    (repair e7dbee0)?  First statement `if self._session_started:` whose body ends in `return False`; the flag is set
    from the result right before `return result`; `__init__` clears it; nothing else writes it.  And the shape of
    `SSHChannel._report_response` that makes the question matter: a successful request of these kinds calls
    `session_started()` and `resume_reading()`."""
    srv = T.find_def(tree, 'SSHServerChannel')
    start = T.find_def(tree, 'SSHServerChannel._start_session')
    body = [b for b in start.body if not (isinstance(b, ast.Expr) and isinstance(b.value, ast.Constant))]
    guard = bool(body) and isinstance(body[0], ast.If) and ast.unparse(body[0].test) == 'self._session_started' and \
        not body[0].orelse and isinstance(body[0].body[-1], ast.Return) and \
        ast.unparse(body[0].body[-1].value) == 'False'
    tail = [ast.unparse(b) for b in body[-2:]]
    sets = tail in (['self._session_started = bool(result)', 'return result'],
                    ['self._session_started = result', 'return result'])
    sites = attr_sites(srv, '_session_started')
    clean = sites in (['__init__: self._session_started = False', '_start_session: self._session_started = bool(result)'],
                      ['__init__: self._session_started = False', '_start_session: self._session_started = result'])
    users = sorted(f.name for f in srv.body if isinstance(f, ast.FunctionDef)       # type: ignore
                   for n in ast.walk(f) if isinstance(n, ast.Call) and ast.unparse(n.func) == 'self._start_session')
    rep = T.find_def(tree, 'SSHChannel._report_response')
    resumes = False
    for n in ast.walk(rep):
        if isinstance(n, ast.If) and ast.unparse(n.test) == "result and request in {'shell', 'exec', 'subsystem'}":
            calls = [ast.unparse(b) for b in n.body if isinstance(b, ast.Expr)]
            resumes = calls == ['self._session.session_started()', 'self.resume_reading()']
    return {'refused': guard and sets and clean, 'guard': guard, 'sets': sets, 'sites': sites,
            'start_session_callers': users, 'success_resumes_reading': resumes}


def tun_items(tree: ast.AST) -> Dict[str, Any]:
    """`SSHTunTapChannel._accept_data`: under `if self._mode == SSH_TUN_MODE_POINTTOPOINT:` the stripped address
    family is subtracted from `_recv_window` (`self._recv_window -= len(data[:4])`, repair 9f86e20) before
    `data = data[4:]`; then `super()._accept_data(data, datatype)`"""
    acc = T.find_def(tree, 'SSHTunTapChannel._accept_data')
    body = [b for b in acc.body if not (isinstance(b, ast.Expr) and isinstance(b.value, ast.Constant))]
    strips = counted = False
    if len(body) == 2 and isinstance(body[0], ast.If) and \
            ast.unparse(body[0].test) == 'self._mode == SSH_TUN_MODE_POINTTOPOINT' and not body[0].orelse and \
            ast.unparse(body[1]) == 'super()._accept_data(data, datatype)':
        src = [ast.unparse(b) for b in body[0].body]
        strips = bool(src) and src[-1] == 'data = data[4:]'
        counted = src == ['self._recv_window -= len(data[:4])', 'data = data[4:]']
    return {'strips': strips, 'counted': counted}


def text_codec_items(cls: ast.AST, write: ast.AST, setenc: ast.AST, deliver: ast.AST) -> Dict[str, Any]:
    """which codec objects the text layer goes through: read from `write`, `set_encoding`, `_deliver_data`,
    `_discard_recv`, `_flush_recv_buf` — one incremental encoder / decoder per channel (before repair 98283c0) or
    one per data type (since)"""
    def assigned(func: ast.AST, name: str, under: str) -> List[ast.AST]:
        """values assigned to `name` in the body of `if <under>:` (not its else) inside func"""
        res: List[ast.AST] = []
        for n in ast.walk(func):
            if isinstance(n, ast.If) and ast.unparse(n.test) == under:
                for b in n.body:
                    for m in ast.walk(b):
                        tgt = None
                        if isinstance(m, ast.Assign) and len(m.targets) == 1:
                            tgt = m.targets[0]
                        elif isinstance(m, ast.AnnAssign) and m.value is not None:
                            tgt = m.target
                        if tgt is not None and ast.unparse(tgt) == name:
                            res.append(m.value)          # type: ignore
        return res
    enc_vals = assigned(write, 'encoded_data', 'self._encoding')
    enc_call = ast.unparse(enc_vals[0]) if len(enc_vals) == 1 else '<none>'
    uses_encoder = False
    if len(enc_vals) == 1 and isinstance(enc_vals[0], ast.Call):
        c = enc_vals[0]
        uses_encoder = ast.unparse(c.func) in ('self._encoder.encode', 'encoder.encode') and len(c.args) == 1 and \
            not c.keywords and ast.unparse(_strip_cast(c.args[0])) == 'data'
    dec_vals = assigned(deliver, 'decoded_data', 'self._encoding')
    dec_call = ast.unparse(dec_vals[0]) if len(dec_vals) == 1 else '<none>'
    uses_decoder = False
    if len(dec_vals) == 1:
        c = _strip_cast(dec_vals[0])
        uses_decoder = isinstance(c, ast.Call) and ast.unparse(c.func) in ('self._decoder.decode', 'decoder.decode') \
            and len(c.args) == 1 and not c.keywords and ast.unparse(c.args[0]) == 'data'
    enc_per = uses_encoder and ast.unparse(enc_vals[0].func) == 'encoder.encode' and \
        _per_datatype_codec(write, 'encoder', '_encoders', '_new_encoder')
    dec_per = uses_decoder and ast.unparse(_strip_cast(dec_vals[0]).func) == 'decoder.decode' and \
        _per_datatype_codec(deliver, 'decoder', '_decoders', '_new_decoder')
    if uses_encoder and ast.unparse(enc_vals[0].func) == 'encoder.encode' and not enc_per:
        uses_encoder = False        # a local called `encoder` that is not the per-data-type object of the channel
    if uses_decoder and ast.unparse(_strip_cast(dec_vals[0]).func) == 'decoder.decode' and not dec_per:
        uses_decoder = False
    e_new = [ast.unparse(v) for v in assigned(setenc, 'self._new_encoder' if enc_per else 'self._encoder', 'encoding')]
    d_new = [ast.unparse(v) for v in assigned(setenc, 'self._new_decoder' if dec_per else 'self._decoder', 'encoding')]
    # the tables start empty whenever the encoding is (re)set
    tables = sorted(ast.unparse(n.target) + ' = ' + ast.unparse(n.value) for n in ast.walk(setenc)
                    if isinstance(n, ast.AnnAssign) and n.value is not None and
                    ast.unparse(n.target) in ('self._encoders', 'self._decoders'))
    tables_ok = tables == ['self._decoders = {}', 'self._encoders = {}']
    discard = next(f for f in cls.body if isinstance(f, ast.FunctionDef) and f.name == '_discard_recv')     # type: ignore
    frecv = next(f for f in cls.body if isinstance(f, ast.FunctionDef) and f.name == '_flush_recv_buf')     # type: ignore
    if dec_per:
        discard_resets = _loop_over_decoders(discard, 'decoder.reset()')
        final_all = _loop_over_decoders(frecv, "decoder.decode(b'', True)")
    else:
        discard_resets = any(isinstance(n, ast.Call) and ast.unparse(n) == 'self._decoder.reset()'
                             for n in ast.walk(discard))
        final_all = any(isinstance(n, ast.Call) and ast.unparse(n) == "self._decoder.decode(b'', True)"
                        for n in ast.walk(frecv))
    # `if not data: return` comes before the encoder is reached
    empty_line = None
    for n in ast.walk(write):
        if isinstance(n, ast.If) and ast.unparse(n.test) == 'not data' and len(n.body) == 1 and \
                isinstance(n.body[0], ast.Return) and n.body[0].value is None:
            empty_line = n.lineno
    enc_line = enc_vals[0].lineno if len(enc_vals) == 1 else None
    # no other place encodes / decodes channel text
    other_sites = sorted(f'{f.name}: {ast.unparse(n)}' for f in cls.body                # type: ignore
                         if isinstance(f, (ast.FunctionDef, ast.AsyncFunctionDef))
                         for n in ast.walk(f)
                         if isinstance(n, ast.Call) and isinstance(n.func, ast.Attribute) and
                         n.func.attr in ('encode', 'decode', 'reset') and
                         ast.unparse(n.func.value) in ('self._encoder', 'self._decoder', 'encoder', 'decoder'))
    return {'enc_call': enc_call, 'dec_call': dec_call, 'uses_encoder': uses_encoder, 'uses_decoder': uses_decoder,
            'encoder_per_datatype': enc_per and tables_ok, 'decoder_per_datatype': dec_per and tables_ok,
            'discard_resets_decoders': discard_resets, 'final_decode_all_decoders': final_all,
            'encoder_incremental': e_new == (['codecs.getincrementalencoder(encoding)'] if enc_per else
                                             ['codecs.getincrementalencoder(encoding)(errors)']),
            'decoder_incremental': d_new == (['codecs.getincrementaldecoder(encoding)'] if dec_per else
                                             ['codecs.getincrementaldecoder(encoding)(errors)']),
            'empty_write_skips': empty_line is not None and enc_line is not None and empty_line < enc_line,
            'codec_calls': other_sites}


# what each item looked like when the model was written (used only when an item can no longer be translated)
BASELINE = {
    'flush': (
        '/-- `while self._send_buf and self._send_window` (truthiness of a list and of an int) -/\n'
        'def flushLoopCond (bufEntries sendWindow : Int) : Prop := bufEntries ≠ 0 ∧ sendWindow ≠ 0\n\n'
        '/-- `pktsize = ...` in `_flush_send_buf` -/\n'
        'def pktsizeExpr (sendWindow sendPktsize : Int) : Int :=\n  (min sendWindow sendPktsize)\n\n'
        '/-- `if pktsize <= 0: break` -/\n'
        'def breakCond (pktsize : Int) : Prop :=\n  (pktsize ≤ (0 : Int))\n'
        'instance (a : Int) : Decidable (breakCond a) := by unfold breakCond; exact inferInstance\n'
        'def loopBreaksOnZero : Bool := true\n\n'
        '/-- the test that decides between `buf[:pktsize]` and the whole buffer entry -/\n'
        'def splitCond (buflen pktsize : Int) : Prop :=\n  (buflen > pktsize)\n'
        'instance (a b : Int) : Decidable (splitCond a b) := by unfold splitCond; exact inferInstance\n\n'
        '/-- `self._send_window -= len(data)` -/\n'
        'def sendWindowNext (sendWindow datalen : Int) : Int :=\n  (sendWindow - datalen)\n\n'),
    'deliver': (
        '/-- `self._recv_window -= len(data)` in `_deliver_data` -/\n'
        'def recvWindowAfter (recvWindow datalen : Int) : Int :=\n  (recvWindow - datalen)\n\n'
        '/-- `if self._recv_window < self._init_recv_window / 2` (true division, made exact over the integers) -/\n'
        'def replenishCond (recvWindow initWindow : Int) : Prop :=\n  (recvWindow * (2 : Int) < initWindow)\n'
        'instance (a b : Int) : Decidable (replenishCond a b) := by unfold replenishCond; exact inferInstance\n\n'
        '/-- `adjust = ...`, the value sent in WINDOW_ADJUST -/\n'
        'def adjustExpr (initWindow recvWindow : Int) : Int :=\n  (initWindow - recvWindow)\n\n'
        '/-- `self._recv_window = ...` after the adjust was sent -/\n'
        'def recvWindowReset (initWindow recvWindow : Int) : Int :=\n  initWindow\n\n'),
    'wcheck': (
        '/-- the receive-side check -/\n'
        'def windowExceededCond (datalen recvWindow recvBufLen : Int) : Prop :=\n  (datalen > (recvWindow - recvBufLen))\n'
        'instance (a b c : Int) : Decidable (windowExceededCond a b c) := by '
        'unfold windowExceededCond; exact inferInstance\n\n'),
    'wadj': (
        '/-- `self._send_window += adjust` in `_process_window_adjust` -/\n'
        'def sendWindowAdjusted (sendWindow adjust : Int) : Int :=\n  (sendWindow + adjust)\n\n'),
}


def generate(prop: str) -> Dict[str, Any]:
    src = T.read_source('asyncssh/channel.py')
    tree = ast.parse(src)
    cls = T.find_def(tree, 'SSHChannel')
    flush = T.find_def(tree, 'SSHChannel._flush_send_buf')
    deliver = T.find_def(tree, 'SSHChannel._deliver_data')
    pdata = T.find_def(tree, 'SSHChannel._process_data')
    pext = T.find_def(tree, 'SSHChannel._process_extended_data')
    padj = T.find_def(tree, 'SSHChannel._process_window_adjust')
    csrc = T.read_source('asyncssh/connection.py')
    ctree = ast.parse(csrc)
    popen = T.find_def(ctree, 'SSHConnection._process_channel_open')
    pconf = T.find_def(ctree, 'SSHConnection._process_channel_open_confirmation')

    out = T.header(prop, ['asyncssh/channel.py (_flush_send_buf, _deliver_data, _process_data, '
                          '_process_extended_data, _process_window_adjust)',
                          'asyncssh/connection.py (_process_channel_open, _process_channel_open_confirmation)'])
    out += f'namespace AsyncsshModel.Gen.{prop}\n\n'
    fallbacks: List[str] = []
    py: Dict[str, Any] = {}

    def item(name: str, fn: Callable[[], Tuple[str, Dict[str, Any]]]) -> str:
        """translate one item; if the code no longer has the shape the translator reads, emit the baseline text
        (the expressions the model was written from) and record the fallback: that item is then tied to the code
        by the correspondence run only"""
        try:
            text, codes = fn()
            py.update(codes)
            return text
        except T.Untranslatable as e:
            fallbacks.append(f'{name}: {e}')
            return BASELINE[name]

    out += item('flush', lambda: flush_defs(flush))
    out += item('deliver', lambda: deliver_defs(deliver))

    def wcheck() -> Tuple[str, Dict[str, Any]]:
        (w1, t1), (w2, _t2) = window_check(pdata, '_process_data'), window_check(pext, '_process_extended_data')
        if w1 != w2:
            raise T.Untranslatable('window checks of DATA and EXTENDED_DATA differ')
        t = ('/-- the receive-side check `if datalen > self._recv_window - self._recv_buf_len: '
             'raise ProtocolError(\'Window exceeded\')` -/\n')
        t += f'def windowExceededCond (datalen recvWindow recvBufLen : Int) : Prop :=\n  {w1}\n'
        t += ('instance (a b c : Int) : Decidable (windowExceededCond a b c) := by '
              'unfold windowExceededCond; exact inferInstance\n\n')
        return t, {'windowExceededCond': compile(ast.Expression(t1), '<wcheck>', 'eval')}
    out += item('wcheck', wcheck)

    def wadj() -> Tuple[str, Dict[str, Any]]:
        inc = _augassign(padj, 'self._send_window', ast.Add)
        t = '/-- `self._send_window += adjust` in `_process_window_adjust` -/\n'
        t += 'def sendWindowAdjusted (sendWindow adjust : Int) : Int :=\n  (sendWindow + ' + \
            T.expr_to_lean(inc.value, {'adjust': 'adjust'}) + ')\n\n'
        return t, {}
    out += item('wadj', wadj)
    out += '/-- where `_recv_buf_len` (bytes buffered while reading is paused) is maintained: method and operation -/\n'
    out += 'def recvBufLenSites : List String := ' + T.lean_list([T.lean_str(x) for x in attr_sites(cls, '_recv_buf_len')]) + '\n\n'
    out += '/-- where `_send_eof_pending` (write_eof() called before close(), EOF still owed) is written -/\n'
    out += 'def sendEofPendingSites : List String := ' + T.lean_list([T.lean_str(x) for x in attr_sites(cls, '_send_eof_pending')]) + '\n\n'
    out += '/-- does the close_pending branch of `_flush_send_buf` send the pending EOF before `_close_send()`? -/\n'
    out += f'def closeSendsPendingEof : Bool := {T.lean_bool(close_sends_eof(flush))}\n\n'
    out += '/-- where `_recv_eof_pending` (EOF still pending when CLOSE arrived) is written -/\n'
    out += 'def recvEofPendingSites : List String := ' + T.lean_list([T.lean_str(x) for x in attr_sites(cls, '_recv_eof_pending')]) + '\n\n'
    sites = decrement_site(cls)
    out += '/-- the methods of `SSHChannel` in which `_recv_window` is decremented -/\n'
    out += 'def recvWindowDecrementedIn : List String := ' + T.lean_list([T.lean_str(s) for s in sites]) + '\n\n'
    tc = text_codec_items(cls, T.find_def(tree, 'SSHChannel.write'), T.find_def(tree, 'SSHChannel.set_encoding'), deliver)
    out += '/-- the text layer: what `write` assigns to `encoded_data` and `_deliver_data` to `decoded_data` on a channel\n'
    out += '    with an encoding; whether these are `self._encoder.encode(data)` / `self._decoder.decode(data)` (the ONE\n'
    out += '    codec object of the channel, `cast` stripped); whether `set_encoding` creates them with\n'
    out += '    `codecs.getincrementalencoder(encoding)(errors)` / `codecs.getincrementaldecoder(encoding)(errors)`;\n'
    out += '    whether `if not data: return` precedes the encoder; every call of the two codec objects in the class -/\n'
    out += f'def textEncodeCall : String := {T.lean_str(tc["enc_call"])}\n'
    out += f'def textDecodeCall : String := {T.lean_str(tc["dec_call"])}\n'
    out += f'def writeUsesChannelEncoder : Bool := {T.lean_bool(tc["uses_encoder"])}\n'
    out += f'def deliverUsesChannelDecoder : Bool := {T.lean_bool(tc["uses_decoder"])}\n'
    out += f'def encoderIsIncremental : Bool := {T.lean_bool(tc["encoder_incremental"])}\n'
    out += f'def decoderIsIncremental : Bool := {T.lean_bool(tc["decoder_incremental"])}\n'
    out += f'def emptyWriteSkipsEncoder : Bool := {T.lean_bool(tc["empty_write_skips"])}\n'
    out += 'def codecCallSites : List String := ' + T.lean_list([T.lean_str(x) for x in tc['codec_calls']]) + '\n'
    out += '/-- one incremental encoder / decoder PER DATA TYPE: `write` / `_deliver_data` take it from\n'
    out += '    `self._encoders` / `self._decoders` by `datatype`, create it with `self._new_encoder(self._errors)` /\n'
    out += '    `self._new_decoder(self._errors)` on first use and store it; `set_encoding` empties both tables -/\n'
    out += f'def encoderPerDatatype : Bool := {T.lean_bool(tc["encoder_per_datatype"])}\n'
    out += f'def decoderPerDatatype : Bool := {T.lean_bool(tc["decoder_per_datatype"])}\n'
    out += '/-- `_discard_recv` resets the decoder(s); `_flush_recv_buf` runs the final `decode(b\'\', True)` on every one -/\n'
    out += f'def discardResetsDecoders : Bool := {T.lean_bool(tc["discard_resets_decoders"])}\n'
    out += f'def finalDecodeAllDecoders : Bool := {T.lean_bool(tc["final_decode_all_decoders"])}\n\n'
    try:
        cr = credit_items(cls)
    except (T.Untranslatable, StopIteration, AttributeError, IndexError) as e:
        fallbacks.append(f'window credit: {e}')
        cr = {'drop': True, 'discard': True}
    out += '/-- `_accept_data`: data dropped after the local close() is credited with WINDOW_ADJUST(len(data));\n'
    out += '    `_discard_recv`: the buffer thrown away is credited with WINDOW_ADJUST(_recv_buf_len) (fix ae15f0e) -/\n'
    out += f'def dropCreditsWindow : Bool := {T.lean_bool(cr["drop"])}\n'
    out += f'def discardCreditsWindow : Bool := {T.lean_bool(cr["discard"])}\n\n'
    try:
        sr = session_request_items(tree)
    except (T.Untranslatable, StopIteration, AttributeError, IndexError) as e:
        fallbacks.append(f'session request: {e}')
        sr = {'refused': False, 'success_resumes_reading': True}
    out += '/-- `SSHServerChannel._start_session` refuses a shell / exec / subsystem request once one has succeeded\n'
    out += '    (`_session_started`); `_report_response` answers a successful one with `session_started()` and\n'
    out += '    `resume_reading()` -/\n'
    out += f'def secondSessionRequestRefused : Bool := {T.lean_bool(sr["refused"])}\n'
    out += f'def sessionRequestResumesReading : Bool := {T.lean_bool(sr["success_resumes_reading"])}\n\n'
    try:
        tun = tun_items(tree)
    except (T.Untranslatable, StopIteration, AttributeError, IndexError) as e:
        fallbacks.append(f'tunnel channel: {e}')
        tun = {'strips': True, 'counted': False}
    out += '/-- `SSHTunTapChannel._accept_data` strips the 4-byte address family (point-to-point mode) and subtracts the\n'
    out += '    stripped bytes from `_recv_window` first -/\n'
    out += f'def tunStripsHeader : Bool := {T.lean_bool(tun["strips"])}\n'
    out += f'def tunHeaderCounted : Bool := {T.lean_bool(tun["counted"])}\n\n'
    try:
        ho = pktsize_handling(popen, '_process_channel_open')
        hc = pktsize_handling(pconf, '_process_channel_open_confirmation')
    except T.Untranslatable as e:
        fallbacks.append(f'pktsize: {e}')
        ho = hc = {'check': False, 'after_adjust': False, 'adjust': True}
    out += '/-- is a zero maximum packet size rejected when a channel is opened / confirmed (an ACTIVE\n'
    out += '    `if send_pktsize == 0: raise ProtocolError`), and does the check see the value after the dropbear `-= 1`? -/\n'
    out += f'def zeroPktsizeRejectedOpen : Bool := {T.lean_bool(ho["check"] and ho["after_adjust"])}\n'
    out += f'def zeroPktsizeRejectedConfirm : Bool := {T.lean_bool(hc["check"] and hc["after_adjust"])}\n\n'
    out += '/-- the maximum packet sizes the connection layer hands to a channel -/\n'
    out += 'def admitsPktsize (p : Nat) : Bool := !(zeroPktsizeRejectedOpen && zeroPktsizeRejectedConfirm) || decide (0 < p)\n\n'
    out += f'end AsyncsshModel.Gen.{prop}\n'
    changed = vlib.write_if_changed(vlib.module_path(f'AsyncsshModel.Gen.{prop}'), out)
    return {'gen_file': f'Gen/{prop}.lean', 'changed': changed, 'decrement_sites': sites,
            'zero_pktsize_check': {'open': ho, 'confirm': hc}, 'text_codec': tc, 'session_request': sr,
            'tunnel': tun, 'window_credit': cr, 'fallbacks': fallbacks, '_py': py}


def self_test(prop: str, info: Dict[str, Any], rng: Any) -> List[str]:
    """the translated expressions against the Python originals, evaluated from the source text"""
    py = info.pop('_py')
    if not all(k in py for k in ('pktsizeExpr', 'splitCond', 'replenishCond', 'adjustExpr')):
        info['selftest_cases'] = 0
        return []       # an item fell back to its baseline text: nothing of the current source to compare with

    class S:
        pass

    def ev(code: Any, **kw: Any) -> Any:
        s = S()
        for k, v in kw.items():
            if k.startswith('_'):
                setattr(s, k, v)
        ns = {'self': s, 'min': min, 'max': max, 'len': len}
        ns.update({k: v for k, v in kw.items() if not k.startswith('_')})
        return eval(code, ns)
    vals = [0, 1, 2, 3, 5, 7, 16, 33, 100, 2 ** 21, 2 ** 32 - 1]
    pairs = [(rng.choice(vals), rng.choice(vals)) for _ in range(30)] + [(a, b) for a in vals[:6] for b in vals[:6]]
    cases = [
        ('pktsizeExpr', lambda w, p: ev(py['pktsizeExpr'], _send_window=w, _send_pktsize=p), pairs),
        ('adjustExpr', lambda i, r: ev(py['adjustExpr'], _init_recv_window=i, _recv_window=r),
         pairs + [(a, -b) for a, b in pairs[:10]]),
    ]
    ns = f'AsyncsshModel.Gen.{prop}'
    bad = T.self_test_exprs(cases, ns, ns)
    # the two conditions are Props: compare through `decide`
    lines = [f'import {ns}', f'open {ns}']
    expected = []
    for w, i in pairs + [(-a, b) for a, b in pairs[:10]]:
        lines.append(f'#eval decide (replenishCond ({w} : Int) ({i} : Int))')
        expected.append('true' if ev(py['replenishCond'], _recv_window=w, _init_recv_window=i) else 'false')
        lines.append(f'#eval decide (splitCond ({abs(w)} : Int) ({i} : Int))')
        code, bname, pname = py['splitCond']
        n = min(abs(w), 4096)
        lines[-1] = f'#eval decide (splitCond ({n} : Int) ({i} : Int))'
        expected.append('true' if ev(code, **{bname: b'x' * n, pname: i}) else 'false')
    if 'windowExceededCond' in py:
        for d, w in pairs[:25]:
            for q in (0, 1, 7, 100):
                lines.append(f'#eval decide (windowExceededCond ({d} : Int) ({w} : Int) ({q} : Int))')
                expected.append('true' if ev(py['windowExceededCond'], datalen=d, _recv_window=w, _recv_buf_len=q)
                                else 'false')
    import os
    import subprocess
    path = os.path.join(vlib.LEAN_DIR, 'Audit', f'_selftest_{prop}_cond.lean')
    vlib.write_if_changed(path, '\n'.join(lines) + '\n')
    p = subprocess.run(['lake', 'env', 'lean', path], cwd=vlib.LEAN_DIR, text=True,
                       stdout=subprocess.PIPE, stderr=subprocess.STDOUT, timeout=600)
    got = [l.strip() for l in p.stdout.split('\n') if l.strip()]
    if p.returncode != 0 or len(got) != len(expected):
        bad.append(f'condition self-test did not run: rc={p.returncode} {p.stdout[-300:]}')
    else:
        bad += [f'cond case {k}: lean {g} python {e}' for k, (g, e) in enumerate(zip(got, expected)) if g != e]
    info['selftest_cases'] = sum(len(c[2]) for c in cases) + len(expected)
    return bad
