"""C20 generators and object-level drivers: SOCKS byte strings and chunkings, relay event sequences, and the
fake transports / fake connection used to drive real `SSHSOCKSForwarder` / `SSHLocalForwarder` objects without
sockets (protocol callbacks in, transport calls out)."""

from __future__ import annotations

import ipaddress
from typing import Any, Dict, List, Optional, Tuple

from asyncssh import forward as fwdmod
from asyncssh import socks as socksmod
from asyncssh.misc import ChannelOpenError

from vlib import hx


# ---------------------------------------------------------------------------
# fakes


class FakeTransport:
    def __init__(self, tag: str, log: List[str]):
        self.tag = tag
        self.log = log
        self.closed = False

    def write(self, d: bytes) -> None:
        self.log.append('w' + self.tag + hx(bytes(d)))

    def write_eof(self) -> None:
        self.log.append('e' + self.tag)

    def close(self) -> None:
        self.closed = True
        self.log.append('x' + self.tag)

    def abort(self) -> None:
        self.closed = True
        self.log.append('x' + self.tag)

    def pause_reading(self) -> None:
        self.log.append('p' + self.tag)

    def resume_reading(self) -> None:
        self.log.append('r' + self.tag)

    def is_closing(self) -> bool:
        return self.closed

    def can_write_eof(self) -> bool:
        return True

    def get_extra_info(self, name: str, default: Any = None) -> Any:
        if name == 'peername':
            return ('127.0.0.9', 4242)
        return default


class _Hold:
    """awaitable that suspends until the driver sends a value (or throws)"""

    def __await__(self) -> Any:
        return (yield self)


class FakeConn:
    """stands in for the SSHConnection of a local forwarder: `create_task` keeps the coroutine; the driver steps it"""

    def __init__(self) -> None:
        self.tasks: List[Any] = []

    def create_task(self, coro: Any, *_a: Any) -> Any:
        self.tasks.append(coro)
        return None


class ForwardCall:
    """records the arguments of the tunnel coroutine and lets the driver confirm or fail the open"""

    def __init__(self, log: List[str]) -> None:
        self.args: Optional[Tuple[Any, ...]] = None
        self.log = log
        self.session: Any = None
        self.chan: Optional[FakeTransport] = None

    async def coro(self, session_factory: Any, *args: Any) -> Any:
        self.args = args
        await _Hold()
        self.session = session_factory()
        self.chan = FakeTransport('c', self.log)
        self.session.connection_made(self.chan)
        self.session.session_started()
        return self.chan, self.session


def start_task(coro: Any) -> None:
    coro.send(None)


def confirm_task(coro: Any) -> None:
    try:
        coro.send(None)
    except StopIteration:
        pass


def fail_task(coro: Any) -> None:
    try:
        coro.throw(ChannelOpenError(2, 'Connection refused'))
    except StopIteration:
        pass


class OpenCrashed(Exception):
    """stands for whatever else the open can raise (PacketDecodeError, an exception of the accept handler)"""


def crash_task(coro: Any) -> None:
    """the open raises something that is not ChannelOpenError; the exception ends the task (the connection's
    `_reap_task` would see it), which is not an output of the relay"""
    try:
        coro.throw(OpenCrashed('open failed in some other way'))
    except (StopIteration, OpenCrashed):
        pass


# ---------------------------------------------------------------------------
# SOCKS: real object fed chunk by chunk


def host_token_to_str(tok: str) -> str:
    """model host token (n / i<hex> / s<hex>) -> the Python string the implementation must pass on"""
    if tok == 'n':
        return ''
    body = b'' if tok[1:] == '-' else bytes.fromhex(tok[1:])
    if tok[0] == 'i':
        return str(ipaddress.ip_address(body))
    return body.decode('utf-8')


def run_socks_impl(chunks: List[bytes]) -> Tuple[str, Optional[str], Optional[str]]:
    """returns (canonical line in the driver's format, first exception class escaping data_received,
    host string passed to the tunnel coroutine or None)"""
    log: List[str] = []
    conn = FakeConn()
    call = ForwardCall(log)
    fw = socksmod.SSHSOCKSForwarder(conn, call.coro)      # type: ignore
    tr = FakeTransport('', log)
    fw.connection_made(tr)       # type: ignore
    groups: List[str] = []
    first_exc: Optional[str] = None
    connected: Optional[Tuple[str, int]] = None
    started = 0
    for ch in chunks:
        mark = len(log)
        exc = None
        try:
            fw.data_received(ch)
        except Exception as e:      # noqa: BLE001 - the escaping exception is the observation
            exc = type(e).__name__
            first_exc = first_exc or exc
        toks = list(log[mark:])
        # tasks created during this call: start them now (the event loop would, before the next read)
        while started < len(conn.tasks):
            start_task(conn.tasks[started])
            started += 1
            if call.args is not None and connected is None:
                connected = (call.args[0], call.args[1])
                toks.append('c%s:%d' % ('\x00HOST', call.args[1]))
        if exc:
            toks.append('R' + exc)
        groups.append(' '.join(toks))
    status = 'closed' if tr.closed else 'needmore'
    early = b''
    if connected is not None:
        mark = len(log)
        confirm_task(conn.tasks[0])
        for t in log[mark:]:
            if t.startswith('wc'):
                early += b'' if t[2:] == '-' else bytes.fromhex(t[2:])
        status = 'connect \x00HOST %d %s' % (connected[1], hx(early))
    line = ' | '.join(groups) + ' ; ' + status
    return line, first_exc, (connected[0] if connected else None)     # type: ignore


def canon_socks_model(line: str) -> Tuple[str, Optional[str]]:
    """replace host tokens of a model line by a placeholder; return (line, host string or None)"""
    host: Optional[str] = None
    out = []
    for tok in line.split(' '):
        if tok.startswith('c') and ':' in tok and tok[1:2] in ('n', 'i', 's'):
            h, _, p = tok[1:].rpartition(':')
            try:
                host = host_token_to_str(h)
            except (ValueError, UnicodeDecodeError):
                host = '<undecodable:%s>' % h
            out.append('c\x00HOST:' + p)
        else:
            out.append(tok)
    res = ' '.join(out)
    if ' ; connect ' in res:
        head, _, tail = res.partition(' ; connect ')
        parts = tail.split(' ')
        res = head + ' ; connect \x00HOST ' + ' '.join(parts[1:])
    return res, host


# --- SOCKS generators ------------------------------------------------------

NAMES = [b'example.com', b'a', b'', b'localhost', b'h\xc3\xa9llo.example', b'x' * 63, b'\xe2\x82\xac.test',
         b'host with space', b'127.0.0.1', b'y' * 255]
BAD_UTF8 = [b'\xff', b'ab\xc3', b'\xed\xa0\x80', b'\xc0\xaf', b'\xf5\x80\x80\x80', b'a\x80b']


def gen_socks_request(rng: Any) -> bytes:
    k = rng.random()
    port = rng.choice([0, 1, 22, 80, 443, 8080, 65535, rng.randrange(65536)])
    pb = bytes([port >> 8, port & 255])
    if k < 0.55:                                  # SOCKS5
        nm = rng.choice([1, 1, 2, 3, 0, 255]) if rng.random() < 0.9 else rng.randrange(256)
        methods = bytes(rng.choice([0, 0, 1, 2, 0x80, 0xff]) for _ in range(nm))
        if nm and rng.random() < 0.8 and 0 not in methods:
            methods = bytes([0]) + methods[1:]
        head = bytes([5, nm]) + methods
        t = rng.random()
        if t < 0.4:
            name = rng.choice(NAMES) if rng.random() < 0.85 else rng.choice(BAD_UTF8)
            name = name[:255]
            addr = bytes([3, len(name)]) + name
        elif t < 0.7:
            addr = bytes([1]) + bytes(rng.randrange(256) for _ in range(4))
        elif t < 0.95:
            addr = bytes([4]) + bytes(rng.choice([0, 0, 1, 0xff, rng.randrange(256)]) for _ in range(16))
        else:
            addr = bytes([rng.choice([0, 2, 5, 9])]) + bytes(rng.randrange(256) for _ in range(4))
        cmd = bytes([5, 1, 0]) if rng.random() < 0.9 else bytes([rng.choice([4, 5]), rng.choice([1, 2, 3]),
                                                                 rng.choice([0, 1])])
        return head + cmd + addr + pb
    user = rng.choice([b'', b'u', b'root', b'u' * 40]) + b'\0'
    if k < 0.8:                                   # SOCKS4
        ip = bytes(rng.choice([0, 1, 10, 127, 255]) for _ in range(4))
        return bytes([4, 1]) + pb + ip + user
    # SOCKS4a
    ip = bytes([0, 0, 0, rng.choice([1, 1, 7, 255])])
    name = rng.choice(NAMES) if rng.random() < 0.85 else rng.choice(BAD_UTF8)
    name = name.replace(b'\0', b'')
    return bytes([4, 1]) + pb + ip + user + name + b'\0'


def mutate(rng: Any, b: bytes) -> bytes:
    b = bytearray(b)
    for _ in range(rng.choice([1, 1, 2, 3])):
        k = rng.random()
        if k < 0.35 and b:
            b[rng.randrange(len(b))] = rng.choice([0, 1, 3, 4, 5, 0xff, rng.randrange(256)])
        elif k < 0.55 and b:
            del b[rng.randrange(len(b)):]
        elif k < 0.75:
            i = rng.randrange(len(b) + 1)
            b[i:i] = bytes(rng.randrange(256) for _ in range(rng.choice([1, 2, 8])))
        elif k < 0.85:
            b += b'u' * 300                         # over-long NUL-terminated field
        elif k < 0.95 and b:
            i = rng.randrange(len(b))
            del b[i:i + 1]
        else:
            b = bytearray(bytes(rng.randrange(256) for _ in range(rng.randrange(0, 12))))
    return bytes(b)


def chunkings(rng: Any, data: bytes, how: int) -> List[bytes]:
    if how == 0 or len(data) <= 1:
        return [data]
    if how == 1:
        return [data[i:i + 1] for i in range(len(data))]
    if how == 2:
        i = rng.randrange(1, len(data))
        return [data[:i], data[i:]]
    out, i = [], 0
    while i < len(data):
        n = rng.choice([1, 1, 2, 3, 5, 8, 300])
        out.append(data[i:i + n])
        i += n
    if rng.random() < 0.15:
        out.insert(rng.randrange(len(out) + 1), b'')
    return out


SOCKS_CORPUS = [
    [bytes([5, 0])],                                        # F11
    [bytes([5]), bytes([0])],
    [bytes([5, 1, 1, 9])],
    [bytes([0, 0, 4, 1, 0, 80, 1, 2, 3, 4, 0])],            # garbage, then a well-formed SOCKS4 request
    [bytes([9, 9, 5, 1, 0])],
    [bytes([5, 1, 0, 5, 1, 0, 3, 0, 0, 80])],               # empty host name
    [bytes([5, 1, 0, 5, 1, 0, 3, 2, 0xff, 0xfe, 0, 80, 5, 0])],   # bad UTF-8, then more
    [bytes([4, 1, 0, 80, 0, 0, 0, 1]) + b'u' * 256],        # over-long user, one chunk, no NUL
    [bytes([4, 1, 0, 80, 0, 0, 0, 1]) + b'u' * 300 + b'\0h\0'],   # NUL arrives with the over-long field
    [bytes([4, 1, 0, 80, 0, 0, 0, 1]), b'u' * 256, b'\0h\0'],
    [bytes([4, 2, 0, 80, 1, 2, 3, 4, 0])],
    [bytes([5, 2, 1, 2, 5, 1, 0, 1, 1, 2, 3, 4, 0, 80])],   # no acceptable method, then a request
]


# ---------------------------------------------------------------------------
# relay: real SSHLocalForwarder + SSHForwarder driven by event tokens


class RelayImpl:
    """the real forwarder pair with fake transports; `apply(tok)` returns the calls it made, in the driver's format"""

    def __init__(self, path_variant: bool = False) -> None:
        self.log: List[str] = []
        self.conn = FakeConn()
        self.call = ForwardCall(self.log)
        cls = fwdmod.SSHLocalPathForwarder if path_variant else fwdmod.SSHLocalPortForwarder
        self.s = cls(self.conn, self.call.coro)       # type: ignore
        self.ts = FakeTransport('s', self.log)
        self.s.connection_made(self.ts)       # type: ignore
        start_task(self.conn.tasks[0])
        self.phase = 'opening'
        # legality tracker (what the transports' contracts allow next), from observable facts only
        self.eof = {'s': False, 'c': False}
        self.gone = {'s': False, 'c': False}

    def tr_up(self, x: str) -> bool:
        if x == 's':
            return not self.ts.closed
        return self.phase == 'linked' and self.call.chan is not None and not self.call.chan.closed

    def legal(self, tok: str) -> bool:
        if tok in ('ok', 'fail', 'crash'):
            return self.phase == 'opening'
        x = tok[1]
        if x == 'c' and self.phase != 'linked':
            return False
        if tok[0] in 'de':
            return self.tr_up(x) and not self.eof[x]
        if tok[0] == 'l':
            return not self.gone[x]
        return self.tr_up(x)

    def exists(self, tok: str) -> bool:
        return tok in ('ok', 'fail', 'crash') or tok[1] == 's' or self.phase == 'linked'

    def apply(self, tok: str) -> str:
        mark = len(self.log)
        extra: List[str] = []
        try:
            if tok == 'ok':
                if self.phase == 'opening':
                    self.phase = 'linked'
                    confirm_task(self.conn.tasks[0])
            elif tok == 'fail':
                if self.phase == 'opening':
                    self.phase = 'failed'
                    fail_task(self.conn.tasks[0])
            elif tok == 'crash':
                if self.phase == 'opening':
                    self.phase = 'failed'
                    crash_task(self.conn.tasks[0])
            else:
                x = tok[1]
                obj = self.s if x == 's' else self.call.session
                if obj is None:
                    return ''
                k = tok[0]
                if k == 'd':
                    data = b'' if tok[2:] == '-' else bytes.fromhex(tok[2:])
                    if x == 's':
                        obj.data_received(data)
                    else:
                        obj.data_received(data, None)
                elif k == 'e':
                    self.eof[x] = True
                    ret = obj.eof_received()
                    extra.append('k%s%d' % (x, 1 if ret else 0))
                elif k == 'l':
                    self.gone[x] = True
                    obj.connection_lost(None)
                elif k == 'p':
                    obj.pause_writing()
                elif k == 'r':
                    obj.resume_writing()
        except AssertionError:
            extra.append('A')
        except Exception as e:      # noqa: BLE001
            extra.append('EXC:' + type(e).__name__)
        return ' '.join(self.log[mark:] + extra)


def gen_relay_seq(rng: Any, impl: RelayImpl, n: int, legal_only: bool) -> Tuple[List[str], List[str]]:
    """generate and apply events one by one; returns (tokens, per-event impl outputs)"""
    toks: List[str] = []
    outs: List[str] = []
    for _ in range(n):
        cands = []
        for _try in range(12):
            k = rng.random()
            x = rng.choice('sc')
            if k < 0.40:
                t = 'd' + x + hx(bytes(rng.randrange(256) for _ in range(rng.choice([1, 1, 2, 5, 0]))))
            elif k < 0.52:
                t = 'e' + x
            elif k < 0.60:
                t = 'l' + x
            elif k < 0.70:
                t = 'p' + x
            elif k < 0.78:
                t = 'r' + x
            elif k < 0.91:
                t = 'ok'
            elif k < 0.96:
                t = 'fail'
            else:
                t = 'crash'
            if not impl.exists(t):
                continue
            if legal_only and not impl.legal(t):
                continue
            cands.append(t)
            break
        if not cands:
            break
        t = cands[0]
        toks.append(t)
        outs.append(impl.apply(t))
    return toks, outs


RELAY_CORPUS = [
    ['dsaa', 'es', 'ok', 'dcbb', 'ec', 'lc'],
    ['dsaa', 'ls', 'ok', 'dcbb', 'pc'],                 # socket lost before the channel is confirmed
    ['ok', 'es', 'ec'],                                 # EOF both ways, socket first
    ['ok', 'ec', 'es', 'ls'],                           # EOF both ways, channel first
    ['dsaa', 'fail', 'ls'],
    ['ok', 'ps', 'rs', 'pc', 'rc', 'lc'],
    ['es', 'ls', 'ok', 'ec'],
    ['ok', 'dsaa', 'ls', 'lc'],
    ['dsaa', 'crash', 'ls'],                            # the open raises something other than ChannelOpenError
    ['crash'],
    ['es', 'crash', 'dsbb'],
    ['ls', 'crash'],
]


def run_relay_tokens(toks: List[str], path_variant: bool = False) -> List[str]:
    impl = RelayImpl(path_variant)
    out = []
    for t in toks:
        out.append(impl.apply(t) if impl.exists(t) else '')
    return out


# ---------------------------------------------------------------------------
# destination side: the real `SSHConnection.forward_connection` / `forward_unix_connection` on a stand-in connection


class _Quiet:
    def info(self, *_a: Any, **_k: Any) -> None:
        pass

    debug1 = debug2 = info


class _FakeLoop:
    """`create_connection` / `create_unix_connection` that succeed at once with a recording transport"""

    def __init__(self, log: List[str]) -> None:
        self.log = log
        self.transport: Optional[FakeTransport] = None
        self.proto: Any = None

    async def create_connection(self, factory: Any, *_a: Any, **_k: Any) -> Any:
        self.proto = factory()
        self.transport = FakeTransport('s', self.log)
        self.proto.connection_made(self.transport)
        return self.transport, self.proto

    create_unix_connection = create_connection


class _FakeSSHConn:
    """what `forward_connection` touches of its connection: the loop, the logger, `is_closed()`"""

    def __init__(self, log: List[str], alive: bool) -> None:
        self._loop = _FakeLoop(log)
        self.logger = _Quiet()
        self._alive = alive

    def is_closed(self) -> bool:
        return not self._alive


class DestImpl(RelayImpl):
    """the destination-side pair: the real `forward_connection` run to completion on a stand-in connection whose
    destination connects at once, followed by what `SSHChannel._finish_open_request` does with the result (hand
    the channel to the new session if the SSH connection is still there, drop the session otherwise)"""

    def __init__(self, alive: bool, unix: bool = False) -> None:        # pylint: disable=super-init-not-called
        from asyncssh.connection import SSHConnection
        self.log = []
        self.conn = FakeConn()
        self.call = ForwardCall(self.log)
        fake = _FakeSSHConn(self.log, alive)
        coro = SSHConnection.forward_unix_connection(fake, '/dest') if unix else \
            SSHConnection.forward_connection(fake, 'dest', 7)      # type: ignore
        session: Any = None
        try:
            coro.send(None)
            raise RuntimeError('forward_connection suspended on the stand-in loop')
        except StopIteration as e:
            session = e.value
        except ChannelOpenError:
            session = None
        self.s = fake._loop.proto
        self.ts = fake._loop.transport
        self.phase = 'failed'
        if session is not None and alive:
            self.call.session = session
            self.call.chan = FakeTransport('c', self.log)
            session.connection_made(self.call.chan)
            self.phase = 'linked'
        self.eof = {'s': False, 'c': False}
        self.gone = {'s': False, 'c': False}
        self.opened = ' '.join(self.log)


def gen_dest_case(rng: Any, alive: bool, unix: bool, n: int) -> Tuple[List[str], List[str]]:
    """legal event sequence after the open; returns (tokens, impl outputs with the open's calls first)"""
    impl = DestImpl(alive, unix)
    toks, outs = gen_relay_seq(rng, impl, n, True)
    return toks, [impl.opened] + outs
