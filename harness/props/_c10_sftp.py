"""C10 leg (iii), SFTP part: hostile SFTP byte streams against a real SFTP server (over a real SSH session
channel of the in-memory pair) and hostile replies against a real SFTP client."""

from __future__ import annotations

import asyncio
import random
import struct
from typing import Any, Dict, List, Optional, Tuple

import asyncssh
from asyncssh import sftp as sftpmod

import pair
from props import _c10_conn as C

U32 = 0xffffffff
U64 = 2 ** 64 - 1


FILE_SIZE = 300 * 1024          # more than one copy-data block (256 KiB)
GROW_CAP = 8 * 1024 * 1024      # one request stream of a few hundred bytes must not make the file grow past this


class StubSFTPServer(sftpmod.SFTPServer):
    """no filesystem access: every operation answers from memory.  There is ONE file (every open returns a handle
    on it), held as a bytearray that reads and writes really act on, so that requests which copy a file onto itself
    behave as on a real filesystem; a file that grows past GROW_CAP while a few hundred request bytes are processed
    is unbounded work (reported as a spin)."""

    def __init__(self, chan: Any):
        super().__init__(chan)
        self._mem = bytearray(b'abc' * (FILE_SIZE // 3))

    def _attrs(self) -> Any:
        return sftpmod.SFTPAttrs(size=len(self._mem), uid=0, gid=0, permissions=0o100644, atime=1, mtime=1)

    def open(self, path: bytes, pflags: int, attrs: Any) -> Any:
        return object()

    def open56(self, path: bytes, desired_access: int, flags: int, attrs: Any) -> Any:
        return object()

    def close(self, file_obj: Any) -> None:
        return None

    def read(self, file_obj: Any, offset: int, size: int) -> bytes:
        return bytes(self._mem[offset:offset + size])

    def write(self, file_obj: Any, offset: int, data: bytes) -> int:
        if offset > GROW_CAP or offset + len(data) > GROW_CAP:
            if offset <= len(self._mem):
                raise C.Spin('one SFTP request stream made the file grow past %d bytes' % GROW_CAP)
            return len(data)        # a sparse write far away: nothing to store
        if offset > len(self._mem):
            self._mem.extend(bytes(offset - len(self._mem)))
        self._mem[offset:offset + len(data)] = data
        return len(data)

    def lstat(self, path: bytes) -> Any:
        return self._attrs()

    def stat(self, path: bytes) -> Any:
        return self._attrs()

    def fstat(self, file_obj: Any) -> Any:
        return self._attrs()

    def setstat(self, path: bytes, attrs: Any) -> None:
        return None

    def lsetstat(self, path: bytes, attrs: Any) -> None:
        return None

    def fsetstat(self, file_obj: Any, attrs: Any) -> None:
        return None

    async def scandir(self, path: bytes) -> Any:
        for n in (b'.', b'..', b'f'):
            yield sftpmod.SFTPName(n, attrs=self._attrs())

    def remove(self, path: bytes) -> None:
        return None

    def mkdir(self, path: bytes, attrs: Any) -> None:
        return None

    def rmdir(self, path: bytes) -> None:
        return None

    def realpath(self, path: bytes) -> bytes:
        return b'/' + path.strip(b'/')[:100]

    def rename(self, oldpath: bytes, newpath: bytes) -> None:
        return None

    def posix_rename(self, oldpath: bytes, newpath: bytes) -> None:
        return None

    def readlink(self, path: bytes) -> bytes:
        return b'target'

    def symlink(self, oldpath: bytes, newpath: bytes) -> None:
        return None

    def link(self, oldpath: bytes, newpath: bytes) -> None:
        return None

    def lock(self, file_obj: Any, offset: int, length: int, flags: int) -> None:
        return None

    def unlock(self, file_obj: Any, offset: int, length: int) -> None:
        return None

    def statvfs(self, path: bytes) -> Any:
        return sftpmod.SFTPVFSAttrs(bsize=512, frsize=512, blocks=1, bfree=1, bavail=1, files=1, ffree=1, favail=1,
                                    fsid=0, flags=0, namemax=255)

    def fstatvfs(self, file_obj: Any) -> Any:
        return self.statvfs(b'/')

    def fsync(self, file_obj: Any) -> None:
        return None

    def exit(self) -> None:
        return None


def S(b: bytes) -> bytes:
    return struct.pack('>I', len(b)) + b


def u32(n: int) -> bytes:
    return struct.pack('>I', n & U32)


def u64(n: int) -> bytes:
    return struct.pack('>Q', n & U64)


def gen_attrs(rng: random.Random, v: int) -> List[Tuple[str, Any]]:
    flags = rng.choice([0, 1, 2, 4, 8, 0xf, 0x8000000f, 0x80000000, U32, 0x10, 0x40, 0x1fd, 0xfffd, rng.getrandbits(32)])
    f: List[Tuple[str, Any]] = [('u32', flags)]
    if v >= 4:
        f.append(('byte', rng.choice([1, 2, 5, 0, 255])))
    if flags & 1:
        f.append(('u64', rng.choice([0, 1, U64, 3])))
    if v == 3:
        if flags & 2:
            f += [('u32', rng.choice([0, U32])), ('u32', rng.choice([0, U32]))]
        if flags & 4:
            f.append(('u32', rng.choice([0o100644, 0, U32])))
        if flags & 8:
            f += [('u32', rng.choice([0, 1, U32])), ('u32', rng.choice([0, U32]))]
    else:
        if flags & 0x400:
            f.append(('u64', rng.choice([0, U64])))
        if flags & 0x80:
            f += [('str', rng.choice([b'root', b'\xff', b''])), ('str', b'wheel')]
        if flags & 4:
            f.append(('u32', rng.choice([0o644, U32])))
        for bit in (8, 0x10, 0x20, 0x8000):
            if flags & bit:
                f.append(('u64', rng.choice([0, 1, U64, 2 ** 63])))
                if flags & 0x100:
                    f.append(('u32', rng.choice([0, 999999999, U32])))
        if flags & 0x40:
            f.append(('str', rng.choice([b'', u32(0) + u32(0), b'\xff' * 9])))
        if flags & 0x200:
            f += [('u32', rng.getrandbits(32))] + ([('u32', rng.getrandbits(32))] if v >= 6 else [])
        if flags & 0x800:
            f.append(('byte', rng.choice([0, 3, 200])))
        if flags & 0x1000:
            f.append(('str', b'text/plain'))
        if flags & 0x2000:
            f.append(('u32', rng.choice([1, U32])))
        if flags & 0x4000:
            f.append(('str', b'n'))
    if flags & 0x80000000:
        n = rng.choice([0, 1, 2, U32, 1000])
        f.append(('u32', n))
        for _ in range(min(n, 3)):
            f += [('str', b'k'), ('str', b'v')]
    return f


EXT_NAMES = [b'posix-rename@openssh.com', b'statvfs@openssh.com', b'fstatvfs@openssh.com', b'hardlink@openssh.com',
             b'fsync@openssh.com', b'lsetstat@openssh.com', b'limits@openssh.com', b'copy-data', b'ranges@asyncssh.com',
             b'unknown@x', b'', b'\xff']


def gen_request(rng: random.Random, v: int, handles: List[bytes]) -> Tuple[int, List[Tuple[str, Any]]]:
    t = rng.choice([3, 4, 5, 6, 7, 8, 9, 10, 11, 12, 13, 14, 15, 16, 17, 18, 19, 20, 21, 22, 23, 200, 200,
                    rng.randrange(256)])
    h = rng.choice(handles + [b'', b'\x00\x00\x00\x63', b'x' * 300])
    path = rng.choice([b'/f', b'', b'/', b'a/../..', b'\xff\xfe', b'p' * 5000, b'/f\x00g'])
    n32 = lambda: rng.choice([0, 1, U32, 32768, 0x7fffffff])      # noqa: E731
    n64 = lambda: rng.choice([0, 1, U64, 2 ** 63, 2 ** 32])        # noqa: E731
    f: List[Tuple[str, Any]] = [('u32', rng.choice([0, 1, U32, rng.getrandbits(32)]))]      # request id
    if t == 3:
        f += [('str', path)] + ([('u32', n32()), ('u32', n32())] if v >= 5 else [('u32', n32())]) + gen_attrs(rng, v)
    elif t in (4, 8, 12):
        f += [('str', h)] + ([('u32', n32())] if t == 8 and v >= 4 else [])
    elif t == 5:
        f += [('str', h), ('u64', n64()), ('u32', n32())]
    elif t == 6:
        f += [('str', h), ('u64', n64()), ('str', rng.choice([b'', b'data', b'd' * 40000]))]
    elif t in (7, 17):
        f += [('str', path)] + ([('u32', n32())] if v >= 4 else [])
    elif t in (9, 14):
        f += [('str', path)] + gen_attrs(rng, v)
    elif t == 10:
        f += [('str', h)] + gen_attrs(rng, v)
    elif t in (11, 13, 15, 19):
        f += [('str', path)]
    elif t == 16:
        f += [('str', path)] + ([('byte', rng.choice([1, 2, 3, 0, 9])), ('str', b'x')] if v >= 6 and rng.random() < 0.5 else [])
    elif t == 18:
        f += [('str', path), ('str', path)] + ([('u32', n32())] if v >= 5 else [])
    elif t == 20:
        f += [('str', path), ('str', path)]
    elif t == 21:
        f += [('str', path), ('str', path), ('bool', rng.random() < 0.5)]
    elif t == 22:
        f += [('str', h), ('u64', n64()), ('u64', n64()), ('u32', n32())]
    elif t == 23:
        f += [('str', h), ('u64', n64()), ('u64', n64())]
    elif t == 200:
        name = rng.choice(EXT_NAMES)
        f += [('str', name)]
        if name.startswith(b'posix-rename') or name.startswith(b'hardlink'):
            f += [('str', path), ('str', path)]
        elif name.startswith(b'statvfs'):
            f += [('str', path)]
        elif name.startswith(b'fstatvfs') or name.startswith(b'fsync'):
            f += [('str', h)]
        elif name.startswith(b'lsetstat'):
            f += [('str', path)] + gen_attrs(rng, v)
        elif name == b'copy-data':
            # also: a file copied onto itself ahead of the read position (offsets around the 256 KiB block size)
            h2 = rng.choice(handles + [h]) if rng.random() < 0.5 else h
            f += [('str', h), ('u64', rng.choice([0, 0, n64()])), ('u64', rng.choice([0, 0, n64()])), ('str', h2),
                  ('u64', rng.choice([262144, 262144, 1 << 20, 100, n64()]))]
        elif name.startswith(b'ranges'):
            f += [('str', h), ('u64', n64()), ('u64', n64())]
    else:
        f += [('raw', bytes(rng.getrandbits(8) for _ in range(rng.choice([0, 3, 40]))))]
    return t, f


def mutate_fields(rng: random.Random, fields: List[Tuple[str, Any]]) -> bytes:
    r = rng.random()
    parts = [C.enc_field(k, v) for k, v in fields]
    if r < 0.45 or not fields:
        return b''.join(parts)
    if r < 0.65:
        i = rng.randrange(len(fields))
        k, _v = fields[i]
        if k in ('u32', 'u64'):
            parts[i] = C.enc_field(k, rng.choice([0, 1, U32, U64]))
        elif k == 'str':
            body = parts[i][4:]
            parts[i] = u32(rng.choice([0, len(body) + 1, U32, 0x7fffffff])) + body
        return b''.join(parts)
    whole = b''.join(parts)
    if r < 0.80:
        return whole[:rng.randrange(len(whole) + 1)]
    if r < 0.90:
        return whole + bytes(rng.getrandbits(8) for _ in range(rng.choice([1, 8])))
    w = bytearray(whole)
    if w:
        w[rng.randrange(len(w))] = rng.getrandbits(8)
    return bytes(w)


def sftp_frame(rng: random.Random, pkt: bytes) -> bytes:
    r = rng.random()
    if r < 0.88:
        return u32(len(pkt)) + pkt
    return u32(rng.choice([0, 1, len(pkt) + 5, max(0, len(pkt) - 1), U32, 0x7fffffff, 262145])) + pkt


def gen_server_script(rng: random.Random) -> Tuple[int, bytes]:
    """bytes a hostile SFTP client sends: INIT (possibly malformed) + requests"""
    v = rng.choice([3, 3, 4, 5, 6])
    r = rng.random()
    if r < 0.75:
        init = b'\x01' + u32(v)
        if v == 3 and rng.random() < 0.3:
            init += S(rng.choice([b'supported', b'supported2', b'acl-supported', b'vendor-id', b'x@y'])) + \
                S(rng.choice([b'', b'\x00', u32(1) * 5, b'\xff' * 20, S(b'a') + S(b'b') + S(b'c') + u64(1)]))
    elif r < 0.85:
        init = b'\x01' + u32(rng.choice([0, 1, 2, 7, U32]))
    elif r < 0.92:
        init = bytes([rng.choice([0, 2, 3, 200])]) + u32(v)
    else:
        init = b'\x01' + u32(v)[:rng.randrange(4)]
    out = sftp_frame(rng, init)
    handles = [u32(0), u32(1)]
    for _ in range(rng.choice([1, 2, 4, 8])):
        t, fields = gen_request(rng, v, handles)
        out += sftp_frame(rng, bytes([t]) + mutate_fields(rng, fields))
    if rng.random() < 0.1:
        out += bytes(rng.getrandbits(8) for _ in range(rng.choice([1, 50])))
    return v, out


class _RawSess(asyncssh.SSHClientSession):
    def __init__(self) -> None:
        self.data = bytearray()
        self.closed = asyncio.get_event_loop().create_future()

    def data_received(self, data: Any, datatype: Any) -> None:
        self.data += data

    def connection_lost(self, exc: Optional[Exception]) -> None:
        if not self.closed.done():
            self.closed.set_result(exc)


async def sftp_server_case(seed: str, explicit: Optional[bytes] = None) -> Dict[str, Any]:
    rng = random.Random(seed)
    case = await C.setup_enc('server', 'post-auth-open', server_opts=dict(sftp_factory=StubSFTPServer))
    try:
        case.phase = 'sftp-server'
        c = case.box['connected']
        if explicit is None:
            _v, script = gen_server_script(rng)
        else:
            script = explicit
        chan, sess = await asyncio.wait_for(c.create_session(_RawSess, subsystem='sftp', encoding=None), 10)
        await pair.settle(4)
        case.arm_output_budget(len(script))

        def send() -> int:
            chan.write(script)
            return len(script)
        with C.Watch():
            o = await C.measure(case, send, f'sftp request stream {len(script)} bytes')
        o['kind'] = 'sftp-server'
        o['data'] = script[:4096].hex()
        o['data_len'] = len(script)
        o['channel_closed'] = sess.closed.done()
        return o
    finally:
        C.teardown(case)
        await pair.settle(6)


# ---- hostile SFTP server against the real client --------------------------------------------------------

def gen_reply(rng: random.Random, v: int, reqtype: int, reqid: int) -> bytes:
    rid = reqid if rng.random() < 0.85 else rng.choice([0, U32, reqid + 1])
    kind = rng.choice(['status', 'handle', 'data', 'name', 'attrs', 'extended', 'junk', 'version'])
    n32 = lambda: rng.choice([0, 1, U32, 3])       # noqa: E731
    if kind == 'status':
        f: List[Tuple[str, Any]] = [('u32', rid), ('u32', rng.choice([0, 1, 2, 4, 5, 8, 31, U32])), ('str', rng.choice([b'ok', b'\xff', b''])),
                                   ('str', b'')]
        t = 101
    elif kind == 'handle':
        f, t = [('u32', rid), ('str', rng.choice([u32(0), b'', b'h' * 300]))], 102
    elif kind == 'data':
        f, t = [('u32', rid), ('str', rng.choice([b'', b'abc', b'x' * 70000]))] + ([('bool', True)] if rng.random() < 0.3 else []), 103
    elif kind == 'name':
        n = rng.choice([0, 1, 2, U32, 1000000])
        f = [('u32', rid), ('u32', n)]
        for _ in range(min(n, 3)):
            f += [('str', rng.choice([b'f', b'..', b'a/b', b'\xff', b''])), ('str', b'-rw-r--r-- 1 f')] if v == 3 else \
                [('str', rng.choice([b'f', b'..', b'\xff']))]
            f += gen_attrs(rng, v)
        t = 104
    elif kind == 'attrs':
        f, t = [('u32', rid)] + gen_attrs(rng, v), 105
    elif kind == 'extended':
        f, t = [('u32', rid)] + [('u64', rng.choice([0, U64])) for _ in range(rng.choice([0, 4, 11]))], 201
    elif kind == 'version':
        f, t = [('u32', n32())], 2
    else:
        f, t = [('raw', bytes(rng.getrandbits(8) for _ in range(rng.choice([0, 1, 5, 30]))))], rng.randrange(256)
    return sftp_frame(rng, bytes([t]) + mutate_fields(rng, f))


def hostile_sftp_session(seed: str, script: Optional[List[Tuple[int, bytes]]] = None) -> Any:
    """session_factory of a server whose 'sftp' subsystem answers every request with a hostile reply.
    With `script`, the n-th request is answered by (type, body): the VERSION reply is type+body, every other
    reply is type + the request's id + body."""

    class Hostile(asyncssh.SSHServerSession):
        def __init__(self) -> None:
            self.rng = random.Random(seed + ':srv')
            self.buf = bytearray()
            self.chan: Any = None
            self.v = 3
            self.started = False
            self.replies = 0

        def connection_made(self, chan: Any) -> None:
            self.chan = chan

        def subsystem_requested(self, subsystem: str) -> bool:
            return True

        def shell_requested(self) -> bool:
            return True

        def exec_requested(self, command: str) -> bool:
            return True

        def data_received(self, data: Any, datatype: Any) -> None:
            self.buf += data
            rng = self.rng
            while len(self.buf) >= 4 and self.replies < 16:
                ln = int.from_bytes(self.buf[:4], 'big')
                if len(self.buf) < 4 + ln:
                    return
                req = bytes(self.buf[4:4 + ln])
                del self.buf[:4 + ln]
                self.replies += 1
                try:
                    if script is not None:
                        if self.replies - 1 < len(script):
                            t, body = script[self.replies - 1]
                            pkt = bytes([t]) + (b'' if self.replies == 1 else req[1:5]) + body
                            self.chan.write(u32(len(pkt)) + pkt)
                        continue
                    if not self.started:
                        self.started = True
                        want_v = int.from_bytes(req[1:5], 'big') if len(req) >= 5 else 3
                        r = rng.random()
                        if r < 0.7:
                            self.v = min(want_v, rng.choice([3, 3, 4, 5, 6]))
                            ver = b'\x02' + u32(self.v)
                            if rng.random() < 0.5:
                                ver += S(rng.choice([b'supported', b'supported2', b'acl-supported', b'vendor-id',
                                                     b'limits@openssh.com', b'newline', b'x'])) + \
                                    S(rng.choice([b'', b'1', u32(1) * 5, b'\xff' * 20, S(b'a') + S(b'b') + S(b'c') + u64(1),
                                                  u32(U32) * 8]))
                        elif r < 0.85:
                            ver = b'\x02' + u32(rng.choice([0, 2, 7, U32]))
                        else:
                            ver = bytes([rng.choice([0, 1, 101, 255])]) + u32(3)
                        self.chan.write(sftp_frame(rng, mutate_fields(rng, [('raw', ver)])))
                    else:
                        reqid = int.from_bytes(req[1:5], 'big') if len(req) >= 5 else 0
                        self.chan.write(gen_reply(rng, self.v, req[0] if req else 0, reqid))
                except BaseException:       # noqa: B902 - the channel may be gone
                    return
    return Hostile


SFTP_OK = (sftpmod.SFTPError, asyncssh.Error, asyncio.TimeoutError, OSError, EOFError)


async def sftp_client_case(seed: str, script: Optional[List[Tuple[int, bytes]]] = None,
                           ops_fixed: Optional[List[str]] = None) -> Dict[str, Any]:
    rng = random.Random(seed)
    case = await C.setup_enc('client', 'post-auth-open', raw_session=hostile_sftp_session(seed, script),
                             server_opts=dict(encoding=None))
    o: Dict[str, Any] = {'label': 'sftp client vs hostile server', 'phase': 'sftp-client', 'role': 'client',
                         'kind': 'sftp-client', 'case_seed': seed}
    try:
        case.phase = 'sftp-client'
        c = case.box['connected']
        ops: List[str] = []
        undocumented: List[Tuple[str, str]] = []
        errs_before = len(pair.LOOP_ERRORS)
        case.arm_output_budget(4096)
        with C.Watch(8.0) as w:
            try:
                sftp = await asyncio.wait_for(c.start_sftp_client(sftp_version=3 if script is not None else rng.choice([3, 4, 5, 6])), 0.4)
            except SFTP_OK as e:
                ops.append('start:' + type(e).__name__)
                sftp = None
            except C.Spin:
                raise
            except Exception as e:
                ops.append('start:' + type(e).__name__)
                undocumented.append(('start_sftp_client', type(e).__name__ + ':' + C.exc_where(e)))
                sftp = None
            if sftp is not None:
                for opname in (ops_fixed if ops_fixed is not None else rng.sample(['stat', 'listdir', 'read', 'realpath', 'readlink', 'statvfs', 'mkdir', 'rename'], 4)):
                    w.rearm()
                    try:
                        if opname == 'stat':
                            await asyncio.wait_for(sftp.stat('/f'), 0.25)
                        elif opname == 'listdir':
                            await asyncio.wait_for(sftp.listdir('/'), 0.25)
                        elif opname == 'read':
                            f = await asyncio.wait_for(sftp.open('/f', 'rb'), 0.25)
                            await asyncio.wait_for(f.read(100), 0.25)
                        elif opname == 'realpath':
                            await asyncio.wait_for(sftp.realpath('.'), 0.25)
                        elif opname == 'readlink':
                            await asyncio.wait_for(sftp.readlink('/l'), 0.25)
                        elif opname == 'statvfs':
                            await asyncio.wait_for(sftp.statvfs('/'), 0.25)
                        elif opname == 'mkdir':
                            await asyncio.wait_for(sftp.mkdir('/d'), 0.25)
                        else:
                            await asyncio.wait_for(sftp.rename('/a', '/b'), 0.25)
                        ops.append(opname + ':ok')
                    except SFTP_OK as e:
                        ops.append(opname + ':' + type(e).__name__)
                    except C.Spin:
                        raise
                    except Exception as e:
                        ops.append(opname + ':' + type(e).__name__)
                        undocumented.append((opname, type(e).__name__ + ':' + C.exc_where(e)))
                try:
                    sftp.exit()
                except BaseException:       # noqa: B902
                    pass
            await pair.settle(5)
        o['ops'] = ops
        o['undocumented'] = undocumented
        o['loop_errors'] = [C.loop_error_sig(e) for e in pair.LOOP_ERRORS[errs_before:]]
        o['spin'] = case.spin or any(n == 'Spin' for n, _ in o['loop_errors'])
        o['closed'] = case.closed()
        reports = case.lost_reports()
        o['reports'] = [type(r).__name__ if r is not None else 'clean' for r in reports]
        o['report_documented'] = [C.documented_close(r) for r in reports]
        o['report_where'] = [C.exc_where(r) for r in reports]
        o['reason'] = str(reports[0])[:80] if reports and reports[0] is not None else ''
        o['rounds'] = 0
        return o
    except C.Spin as e:
        o['spin'] = True
        o['spin_in_loop'] = str(e)
        return o
    finally:
        C.teardown(case)
        await pair.settle(6)
