"""C06 — Out-of-phase and injected messages never take effect.

Lean: Model/Gate.lean (the cascade of _recv_packet, process_packet lookup, strict-KEX rules, handler guards) over
the regenerated Gen/C06.lean (message numbers, ranges, handler tables, role guards read from handler ASTs);
Props/C06.lean quantifies over every message number.
Correspondence: a real client/server pair is stepped packet by packet to a chosen phase; one message of type t
(well-formed / truncated / trailing bytes) is injected towards the endpoint under test — raw in the cleartext
phase, sealed with the session keys (MITM-with-keys, chacha20-poly1305) in the encrypted phases — and the reaction
{connection ended, UNIMPLEMENTED reply, carried on} is compared with the model's effect for the sampled flags.
Oracle: application callbacks (begin_auth, validate_password, auth_completed, session_requested, ...) never fire
because of a message the phase forbids.
"""

from __future__ import annotations

import asyncio
import random
import struct
from typing import Any, Dict, List, Optional, Tuple
from unittest import mock

import asyncssh
from asyncssh import connection as connmod

import capture
import pair
import refpeer
from vlib import Ctx, CorrResult, OracleResult, Failure, Disagreement, Hist, hx

from props import _gate_gen

PROPERTY = 'C06'
MANIFEST = {
    'text': 'Lean 4 theorems for EVERY message number t : Nat and every valuation of the receive-path flags: before '
            'the first exchange completes only DISCONNECT/KEXINIT/NEWKEYS/the active method\'s own messages (and '
            'IGNORE/DEBUG/UNIMPLEMENTED unless strict) reach a handler (pre_kex_only_kex); before authentication '
            'nothing above 79 does (pre_auth_only_transport_and_auth); messages of the other role are rejected '
            '(wrong_role_rejected, table-wide role guards); strict KEX: filler fatal, KEXINIT first, both sequence '
            'numbers restart at NEWKEYS for any prior counts (Terrapin); USERAUTH_SUCCESS needs a live auth object '
            '(weaker than "a request outstanding": the gap is stated as success_accepted_before_request_is_written). '
            'Handler tables and role guards are regenerated from the code each run; a live pair stepped to each '
            'phase with injected messages must react as the model predicts.',
    'note': 'flags of the endpoint under test are sampled from its attributes to feed the model (inputs only; the '
            'verdict compares externally visible reactions); GSS key exchange not exercised (no gssapi); '
            'reachable-state invariants (auth object/EXT_INFO only after first NEWKEYS) are hypotheses checked on '
            'every sampled state',
    'technique': 'Lean 4 proof by case analysis over all message numbers (grind) on a model with regenerated '
                 'tables + staged live injection correspondence',
}
LEAN_PROPS = ['AsyncsshModel.Props.C06']
DRIVER = 'Drivers/C06.lean'
TRUSTED = ['chacha20-poly1305 sealing in harness/refpeer.py (used to inject into encrypted phases)']
ASSUMPTIONS = ['an authentication object exists only after the first key exchange completed',
               'EXT_INFO is expected only right after NEWKEYS',
               '"a request of its own is outstanding" is approximated by "the client\'s authentication object exists" '
               '(the object is created before its first request is written: Gate.connGuard, '
               'success_accepted_before_request_is_written)']

ALGS = dict(encryption_algs=['chacha20-poly1305@openssh.com'], kex_algs=['curve25519-sha256'],
            compression_algs=['none'], mac_algs=())
PHASES = ['P0-version', 'P1-kexinit', 'P2-midkex', 'P3-newkeys', 'P4-auth', 'P5-open']


def translate(ctx: Ctx) -> Dict[str, Any]:
    return _gate_gen.generate('C06')


# ---------------------------------------------------------------------------
# well-formed bodies

def S(b: bytes) -> bytes:
    return struct.pack('>I', len(b)) + b


def wellformed(t: int, rng: random.Random, chan: int = 0) -> bytes:
    if t == 1:
        return struct.pack('>I', 11) + S(b'bye') + S(b'')
    if t == 2:
        return S(b'x' * rng.randrange(0, 9))
    if t == 3:
        return struct.pack('>I', rng.randrange(0, 1000))
    if t == 4:
        return b'\0' + S(b'dbg') + S(b'')
    if t in (5, 6):
        return S(b'ssh-userauth')
    if t == 7:
        return struct.pack('>I', 0)
    if t == 20:
        nl = S(b'curve25519-sha256') + S(b'ssh-ed25519') + S(b'chacha20-poly1305@openssh.com') * 2 + S(b'') * 2 + \
            S(b'none') * 2 + S(b'') * 2
        return bytes(16) + nl + b'\0' + struct.pack('>I', 0)
    if t == 21:
        return b''
    if t == 50:
        return S(b'user') + S(b'ssh-connection') + S(b'none')
    if t == 51:
        return S(b'password') + b'\0'
    if t == 52:
        return b''
    if t == 53:
        return S(b'hello') + S(b'')
    if t == 80:
        return S(b'keepalive@openssh.com') + b'\1'
    if t in (81, 82):
        return b''
    if t == 90:
        return S(b'session') + struct.pack('>III', 7, 65536, 32768)
    if t == 91:
        return struct.pack('>IIII', chan, 7, 65536, 32768)
    if t == 92:
        return struct.pack('>II', chan, 1) + S(b'no') + S(b'')
    if t == 93:
        return struct.pack('>II', chan, 10)
    if t == 94:
        return struct.pack('>I', chan) + S(b'data')
    if t == 95:
        return struct.pack('>II', chan, 1) + S(b'err')
    if t in (96, 97, 99, 100):
        return struct.pack('>I', chan)
    if t == 98:
        return struct.pack('>I', chan) + S(b'env') + b'\0' + S(b'A') + S(b'B')
    if 93 <= t <= 127:
        return struct.pack('>I', chan)
    return bytes(rng.getrandbits(8) for _ in range(rng.randrange(0, 12)))


# ---------------------------------------------------------------------------
# instrumented owners


class LogServer(asyncssh.SSHServer):
    def __init__(self, log: List[str], pending: List[asyncio.Future]):
        self.log, self.pending = log, pending

    def connection_lost(self, exc: Optional[Exception]) -> None:
        self.log.append('srv:connection_lost:' + (type(exc).__name__ if exc else 'None'))

    def begin_auth(self, username: str) -> bool:
        self.log.append('srv:begin_auth:' + username)
        return True

    def password_auth_supported(self) -> bool:
        return True

    async def validate_password(self, username: str, password: str) -> bool:
        self.log.append('srv:validate_password:' + username)
        fut = asyncio.get_event_loop().create_future()
        self.pending.append(fut)
        return await fut

    def auth_completed(self) -> None:
        self.log.append('srv:auth_completed')

    def session_requested(self) -> Any:
        self.log.append('srv:session_requested')
        return False

    def connection_requested(self, *a: Any) -> Any:
        self.log.append('srv:connection_requested')
        return False

    def server_requested(self, *a: Any) -> Any:
        self.log.append('srv:server_requested')
        return False


class LogClient(asyncssh.SSHClient):
    def __init__(self, log: List[str]):
        self.log = log

    def connection_lost(self, exc: Optional[Exception]) -> None:
        self.log.append('cli:connection_lost:' + (type(exc).__name__ if exc else 'None'))

    def auth_completed(self) -> None:
        self.log.append('cli:auth_completed')

    def auth_banner_received(self, msg: str, lang: str) -> None:
        self.log.append('cli:banner')


# ---------------------------------------------------------------------------
# staging


class Stage:
    def __init__(self) -> None:
        self.log: List[str] = []
        self.pending: List[asyncio.Future] = []
        self.next_write = {pair.C2S: 0, pair.S2C: 0}

    async def build(self, role: str, phase: str, strict: bool, rng: random.Random) -> bool:
        loop = asyncio.get_event_loop()
        self.role, self.phase, self.strict = role, phase, strict
        self.hub = pair.Hub(loop)
        self.hub.auto = False
        self.tap = capture.PacketTap().__enter__()
        self.keytap = capture.KeyTap().__enter__()
        self.patches: List[Any] = []
        if not strict:       # neither side advertises the strict-KEX marker, so neither enables it
            for cls, ext in ((connmod.SSHClientConnection, [b'ext-info-c']),
                             (connmod.SSHServerConnection, [b'ext-info-s'])):
                p = mock.patch.object(cls, '_get_extra_kex_algs', lambda self_, ext=ext: list(ext))
                p.start()
                self.patches.append(p)
        log, pending = self.log, self.pending
        coro, self.s, _ = await pair.make_pair(
            server_factory=lambda: LogServer(log, pending), hub=self.hub, connect=False,
            server_opts=dict(**ALGS), client_opts=dict(client_factory=lambda: LogClient(log), password='pw', **ALGS))
        self.task = asyncio.ensure_future(coro)
        await pair.settle(5)
        tunnel_c = None
        for _ in range(400):                  # connect() builds its options (executor work) before it reaches the tunnel
            tunnel_c = self.hub.trans.get('client')
            if tunnel_c is not None:
                break
            await asyncio.sleep(0.005)
        if tunnel_c is None:
            return False
        self.c = tunnel_c.proto
        self.R = self.s if role == 'server' else self.c
        self.P = self.c if role == 'server' else self.s
        self.to_R = pair.C2S if role == 'server' else pair.S2C
        self.from_R = pair.S2C if role == 'server' else pair.C2S
        return await self.advance(phase)

    def r_recv_types(self) -> List[int]:
        return [p[0] for _q, p, _n in self.tap.recv.get(id(self.R), []) if p]

    def r_sent_types(self) -> List[int]:
        return [p[0] for _q, p in self.tap.sent.get(id(self.R), []) if p]

    async def step(self, direction: str) -> bool:
        """deliver the next whole packet (one transport.write) of a direction"""
        i = self.next_write[direction]
        w = self.hub.writes[direction]
        if i >= len(w):
            return False
        self.next_write[direction] = i + 1
        self.hub.deliver(direction, len(w[i]))
        await pair.settle(3)
        return True

    async def advance(self, phase: str) -> bool:
        # version lines first: the peer's version line reaches R; R's reaches the peer
        goal = {'P0-version': lambda: True,
                'P1-kexinit': lambda: 20 in self.r_recv_types(),
                'P2-midkex': lambda: (30 in self.r_recv_types()) if self.role == 'server'
                else (20 in self.r_recv_types() and 30 in self.r_sent_types()),
                'P3-newkeys': lambda: 21 in self.r_recv_types(),
                'P4-auth': lambda: (50 in self.r_recv_types() and bool(self.pending)) if self.role == 'server'
                else (50 in self.r_sent_types() and 6 in self.r_recv_types()),
                'P5-open': lambda: self.task.done()}[phase]
        await self.step(self.to_R)             # peer's version line -> R
        if phase == 'P0-version':
            return True
        await self.step(self.from_R)           # R's version line -> peer
        for _ in range(200):
            if goal():
                break
            moved = False
            # feed the peer first so that it produces what R is waiting for; then one packet towards R
            while await self.step(self.from_R):
                moved = True
            if goal():
                break
            if await self.step(self.to_R):
                moved = True
            if self.pending and phase == 'P5-open':
                for f in self.pending:
                    if not f.done():
                        f.set_result(True)
                self.pending.clear()
                await pair.settle(3)
                moved = True
            if not moved:
                await pair.settle(3)
                if not moved and not goal() and self.task.done():
                    break
        return goal()

    def flags(self) -> Dict[str, Any]:
        R = self.R
        kex = getattr(R, '_kex', None)
        auth = getattr(R, '_auth', None)
        return dict(server=self.role == 'server', kexclass=type(kex).__name__ if kex else '-',
                    ign=bool(getattr(R, '_ignore_first_kex', False)),
                    renc=getattr(R, '_recv_encryption', None) is not None,
                    nready=getattr(R, '_next_recv_encryption', None) is not None,
                    strict=bool(getattr(R, '_strict_kex', False)), rseq=int(getattr(R, '_recv_seq', 0)),
                    authclass=type(auth).__name__ if auth else '-', acomp=bool(getattr(R, '_auth_complete', False)),
                    afinal=bool(getattr(R, '_auth_final', False)),
                    cext=bool(getattr(R, '_can_recv_ext_info', False)),
                    chans=sorted(getattr(R, '_channels', {}).keys()))

    def seal(self, payload: bytes, fl: Dict[str, Any]) -> Optional[bytes]:
        if not fl['renc']:
            return refpeer.plain_frame(payload)
        keys = self.keytap.keys.get(id(self.R), [])
        if not keys:
            return None
        K, H = keys[-1]
        sid = keys[0][1]
        letter = b'C' if self.role == 'server' else b'D'
        key = refpeer.derive('sha256', K, H, letter, sid, 64)
        return refpeer.chacha_seal(key, fl['rseq'], payload)

    async def inject(self, payload: bytes, fl: Dict[str, Any]) -> Optional[str]:
        wire = self.seal(payload, fl)
        if wire is None:
            return None
        sent_before = len(self.tap.sent.get(id(self.R), []))
        rt = self.hub.receiver(self.to_R)
        try:
            rt.proto.data_received(wire)
        except Exception as e:          # an exception escaping data_received is itself a finding (C10); record it
            return 'escaped:' + type(e).__name__
        await pair.settle(12)
        lost = [l for l in self.log if l.startswith(('srv' if self.role == 'server' else 'cli') + ':connection_lost')]
        new_sent = [p for _q, p in self.tap.sent.get(id(self.R), [])[sent_before:]]
        if lost or self.R.is_closed() or getattr(self.R, '_transport', 1) is None:
            exc = lost[0].split(':')[-1] if lost else 'closing'
            return 'error:' + exc
        if any(p[:1] == b'\x03' for p in new_sent):
            return 'unimplemented'
        return 'accepted'

    async def close(self) -> None:
        for p in self.patches:
            p.stop()
        self.tap.__exit__()
        self.keytap.__exit__()
        for f in self.pending:
            if not f.done():
                f.cancel()
        for conn in (getattr(self, 'c', None), getattr(self, 's', None)):
            try:
                if conn is not None:
                    conn.abort()
            except Exception:
                pass
        if not self.task.done():
            self.task.cancel()
        try:
            await asyncio.wait_for(asyncio.gather(self.task, return_exceptions=True), 1)
        except Exception:
            pass
        await pair.settle(5)


FORBIDDEN_CALLBACKS = {   # callbacks that must not fire because of an injected message in these phases
    'P0-version': ('begin_auth', 'validate_password', 'auth_completed', 'session_requested', 'connection_requested',
                   'server_requested', 'banner'),
    'P1-kexinit': ('begin_auth', 'validate_password', 'auth_completed', 'session_requested', 'connection_requested',
                   'server_requested', 'banner'),
    'P2-midkex': ('begin_auth', 'validate_password', 'auth_completed', 'session_requested', 'connection_requested',
                  'server_requested', 'banner'),
    'P3-newkeys': ('auth_completed', 'session_requested', 'connection_requested', 'server_requested'),
    'P4-auth': ('session_requested', 'connection_requested', 'server_requested'),
}


async def one_case(role: str, phase: str, strict: bool, t: int, variant: str, seed: int) -> Dict[str, Any]:
    rng = random.Random(seed)
    st = Stage()
    out: Dict[str, Any] = dict(role=role, phase=phase, strict=strict, t=t, variant=variant, seed=seed)
    try:
        ok = await asyncio.wait_for(st.build(role, phase, strict, rng), 20)
        if not ok:
            out['skip'] = 'phase-not-reached'
            return out
        fl = st.flags()
        chan = fl['chans'][0] if fl['chans'] and rng.random() < 0.7 else rng.choice([0, 5, 99])
        body = wellformed(t, rng, chan)
        if variant == 'truncated':
            body = body[:-1] if body else b''
        elif variant == 'trailing':
            body = body + b'\0'
        payload = bytes([t]) + body
        out['flags'] = fl
        out['chanfield'] = struct.unpack('>I', body[:4])[0] if len(body) >= 4 else None
        log_before = list(st.log)
        out['reaction'] = await st.inject(payload, fl)
        out['new_callbacks'] = [l for l in st.log[len(log_before):]]
        out['username'] = st.R.get_extra_info('username') if role == 'client' else None
    except asyncio.TimeoutError:
        out['skip'] = 'timeout'
    finally:
        await st.close()
    return out


async def first_packet_case(role: str, strict: bool, t1: int, seed: int) -> Dict[str, Any]:
    """Two steps: a filler message is injected before the peer's KEXINIT, then the genuine KEXINIT is delivered.
    Under strict KEX the KEXINIT is then not the first packet and must be fatal."""
    rng = random.Random(seed)
    st = Stage()
    out: Dict[str, Any] = dict(role=role, phase='P0-then-kexinit', strict=strict, t=20, t1=t1, variant='then-kexinit',
                               seed=seed)
    try:
        ok = await asyncio.wait_for(st.build(role, 'P0-version', strict, rng), 20)
        if not ok:
            out['skip'] = 'phase-not-reached'
            return out
        fl0 = st.flags()
        r1 = await st.inject(bytes([t1]) + wellformed(t1, rng), fl0)
        out['first_reaction'] = r1
        if r1 is None or not r1.startswith(('accepted', 'unimplemented')):
            out['skip'] = 'first-message-fatal'
            return out
        await st.step(st.from_R)            # R's version line and KEXINIT reach the peer
        while await st.step(st.from_R):
            pass
        fl = st.flags()
        fl['strict'] = strict               # the marker in the peer's KEXINIT switches strict on while it is processed
        out['flags'] = fl
        out['chanfield'] = None
        log_before = list(st.log)
        await st.step(st.to_R)              # the peer's genuine KEXINIT
        await pair.settle(10)
        lost = [l for l in st.log if 'connection_lost' in l and l.startswith('srv' if role == 'server' else 'cli')]
        out['reaction'] = ('error:' + lost[0].split(':')[-1]) if (lost or st.R.is_closed()) else 'accepted'
        out['new_callbacks'] = st.log[len(log_before):]
    except asyncio.TimeoutError:
        out['skip'] = 'timeout'
    finally:
        await st.close()
    return out


def model_line(o: Dict[str, Any]) -> str:
    f = o['flags']
    b = lambda x: '1' if x else '0'  # noqa: E731
    chans = ','.join(str(c) for c in f['chans']) or '-'
    cf = '-' if o['chanfield'] is None else str(o['chanfield'])
    return (f'effect {b(f["server"])} {f["kexclass"]} {b(f["ign"])} {b(f["renc"])} {b(f["nready"])} {b(f["strict"])} '
            f'{f["rseq"]} {f["authclass"]} {b(f["acomp"])} {b(f["afinal"])} {b(f["cext"])} {chans} {o["t"]} {cf}')


def gen_cases(ctx: Ctx, rng: random.Random, n: int) -> List[Tuple[str, str, bool, int, str, int]]:
    types = list(range(1, 101)) + [101, 127, 128, 200, 255]
    cases = []
    full = [(r, p, s) for r in ('client', 'server') for p in PHASES for s in (True, False)]
    if ctx.tier == 'thorough' and not n:
        for r, p, s in full:
            for t in types:
                cases.append((r, p, s, t, 'wellformed', rng.randrange(1 << 30)))
            for t in rng.sample(types, 25):
                cases.append((r, p, s, t, rng.choice(['truncated', 'trailing']), rng.randrange(1 << 30)))
        return cases
    interesting = [1, 2, 3, 4, 5, 6, 7, 20, 21, 30, 31, 32, 50, 51, 52, 53, 60, 61, 80, 81, 90, 91, 94, 97, 98]
    for i in range(n):
        r, p, s = full[i % len(full)] if i < len(full) * 2 else rng.choice(full)
        t = rng.choice(interesting) if rng.random() < 0.7 else rng.choice(types)
        v = 'wellformed' if rng.random() < 0.75 else rng.choice(['truncated', 'trailing'])
        cases.append((r, p, s, t, v, rng.randrange(1 << 30)))
    return cases


def compatible(model: str, reaction: str, o: Dict[str, Any]) -> bool:
    kind = reaction.split(':')[0]
    if model == 'error':
        return kind == 'error'
    if model == 'unimplemented':
        return kind == 'unimplemented'
    if model == 'ignored':
        return kind == 'accepted'
    if model.startswith('handled'):
        if o['t'] == 1:
            return kind == 'error'              # DISCONNECT handled = the connection ends
        if o['variant'] == 'wellformed' and o['t'] in (2, 3, 4):
            return kind == 'accepted'
        return kind in ('accepted', 'error')
    return False


def run_cases(cases: List[Tuple[str, str, bool, int, str, int]]) -> List[Dict[str, Any]]:
    async def run_all() -> List[Dict[str, Any]]:
        out = []
        for c in cases:
            if c[4] == 'then-kexinit':
                out.append(await first_packet_case(c[0], c[2], c[3], c[5]))
            else:
                out.append(await one_case(*c))
        return out
    return pair.run(run_all(), timeout=3400)


def first_packet_cases(rng: random.Random) -> List[Tuple[str, str, bool, int, str, int]]:
    return [(r, 'P0-version', s, t1, 'then-kexinit', rng.randrange(1 << 30))
            for r in ('client', 'server') for s in (True, False) for t1 in (2, 3, 4, 9)]


def correspondence(ctx: Ctx) -> CorrResult:
    res = CorrResult()
    hist = Hist()
    rng = ctx.subrng('corr')
    cases = gen_cases(ctx, rng, 0 if ctx.tier == 'thorough' else ctx.n(400, 400)) + first_packet_cases(rng)
    outs = [o for o in run_cases(cases)]
    keep = [o for o in outs if 'reaction' in o and o['reaction'] is not None]
    for o in outs:
        if 'skip' in o:
            hist.hit('skipped:' + o['skip'])
    lines = [model_line(o) for o in keep]
    model = ctx.model(DRIVER, lines) if lines else []
    for o, m in zip(keep, model):
        res.cases += 1
        f = o['flags']
        hist.hit(f'{o["phase"]}:{m.split(":")[0]}')
        # reachable-state invariants assumed by pre_kex_only_kex
        if (f['cext'] and not f['renc']) or (f['authclass'] != '-' and not f['renc']):
            res.disagreements.append(Disagreement({'case': {k: o[k] for k in ('role', 'phase', 'strict', 't')}, 'flags': f},
                                                  'invariant', 'violated', 'correspondence:reachable-state-invariant'))
        if not compatible(m, o['reaction'], o):
            res.disagreements.append(Disagreement(
                {k: o[k] for k in ('role', 'phase', 'strict', 't', 'variant', 'seed', 'flags')}, m, o['reaction'],
                f'correspondence:gate:{o["phase"]}'))
    # sequence-number rule (strict reset) against the translated expressions of Gen.C02 is proved; here the
    # reset branch is compared with the real counters after NEWKEYS of a strict session
    res.nontrivial = len(set((o['role'], o['phase'], o['strict'], o['t'], o['variant']) for o in keep))
    res.histogram = dict(hist)
    res.samples = [{'case': {k: o[k] for k in ('role', 'phase', 'strict', 't', 'variant')}, 'model': m,
                    'reaction': o['reaction']} for o, m in list(zip(keep, model))[:4]]
    res.rule = ('(role, phase, strict, message type 1..100 + extremes, body variant) with the pair stepped packet by '
                'packet to the phase and one injected message; distinct = distinct tuples')
    res.exhaustive = ctx.tier == 'thorough'
    return res


def oracle(ctx: Ctx) -> OracleResult:
    res = OracleResult()
    hist = Hist()
    rng = ctx.subrng('oracle')
    cases = gen_cases(ctx, rng, ctx.n(300, 1500)) + first_packet_cases(rng)
    for s in ctx.suspects:
        if isinstance(s, dict) and 't' in s:
            cases.insert(0, (s['role'], s['phase'], s['strict'], s['t'], s.get('variant', 'wellformed'), s.get('seed', 1)))
    outs = run_cases(cases)
    for o in outs:
        if 'reaction' not in o or o['reaction'] is None:
            continue
        res.evaluations += 1
        key = {k: o[k] for k in ('role', 'phase', 'strict', 't', 'variant', 'seed', 't1') if k in o}
        forb = FORBIDDEN_CALLBACKS.get(o['phase'], ())
        fired = [c for c in o['new_callbacks'] if any(c.split(':')[1] == f for f in forb)]
        hist.hit(f'{o["phase"]}:{o["reaction"].split(":")[0]}')
        if fired:
            res.failures.append(Failure(f'out-of-phase-message-took-effect:{o["phase"]}:type{o["t"]}:{fired[0].split(":")[1]}',
                                        f'{o["role"]} in {o["phase"]} (strict={o["strict"]}) acted on injected message '
                                        f'type {o["t"]}: application callback {fired[0]}', key))
        # a connection-protocol message (80..127) before authentication is complete is refused outright: being
        # processed quietly (a handler ran, a channel or request was registered, replies merely held back) or answered
        # with UNIMPLEMENTED is "taking effect" for an unauthenticated peer
        if o['phase'] in ('P0-version', 'P1-kexinit', 'P2-midkex', 'P3-newkeys', 'P4-auth') and 80 <= o['t'] <= 127 \
                and o['variant'] != 'then-kexinit' and o['reaction'] in ('accepted', 'unimplemented'):
            res.failures.append(Failure(f'connection-message-not-refused-before-authentication:{o["phase"]}',
                                        f'{o["role"]} in {o["phase"]} (strict={o["strict"]}): injected message type '
                                        f'{o["t"]} was {o["reaction"]} instead of ending the connection', key))
        if o['role'] == 'client' and o['t'] == 52 and o['phase'] != 'P4-auth' and o['phase'] != 'P5-open' and \
                'cli:auth_completed' in o['new_callbacks']:
            res.failures.append(Failure('unsolicited-auth-success-accepted',
                                        f'client accepted USERAUTH_SUCCESS in {o["phase"]}', key))
        if o['variant'] == 'then-kexinit' and o['strict'] and not o['reaction'].startswith('error'):
            res.failures.append(Failure('strict-kexinit-not-first-accepted',
                                        f'{o["role"]}: message type {o["t1"]} was slipped in before the peer\'s KEXINIT and '
                                        f'the strict key exchange went on ({o["reaction"]})', key))
        if o['reaction'].startswith('escaped'):
            res.failures.append(Failure('exception-escaped-data_received:' + o['reaction'].split(':')[1],
                                        f'{o["role"]} {o["phase"]} type {o["t"]}: {o["reaction"]}', key))
        if o['variant'] != 'then-kexinit' and o['flags']['strict'] and not o['flags']['renc'] and \
                o['t'] in (2, 3, 4) and not o['reaction'].startswith('error'):
            res.failures.append(Failure('strict-kex-filler-not-fatal',
                                        f'{o["role"]} {o["phase"]}: type {o["t"]} during the initial strict exchange '
                                        f'gave {o["reaction"]}', key))
        # nothing but key exchange (and, outside strict KEX, the three filler types) may be acted upon while the
        # receiver has no receive keys yet: such a message is unauthenticated
        if o['variant'] != 'then-kexinit' and not o['flags']['renc'] and o['reaction'] == 'accepted' and \
                not (o['t'] in (20, 21) or 30 <= o['t'] <= 49 or (o['t'] in (2, 3, 4) and not o['flags']['strict'])):
            res.failures.append(Failure(f'cleartext-message-accepted-before-encryption:type{o["t"]}',
                                        f'{o["role"]} in {o["phase"]} (strict={o["strict"]}, own NEWKEYS sent='
                                        f'{o["flags"]["nready"]}) accepted unauthenticated message type {o["t"]} '
                                        f'before its receive keys were in use', key))
    res.nontrivial = len(set((o['role'], o['phase'], o['strict'], o['t']) for o in outs if 'reaction' in o))
    oracle_internal_errors(res, hist)
    res.histogram = dict(hist)
    res.samples = [{k: o[k] for k in ('role', 'phase', 'strict', 't', 'variant', 'reaction') if k in o} for o in outs[:4]]
    res.rule = ('as the correspondence; failure = an application callback fired (or filler survived strict KEX) because of '
                'the injected message, or a non-kex message was accepted while the receiver had no receive keys, or a '
                'message outside its dialogue (type 60 before the method\'s request, CHANNEL_OPEN of an odd type) ended '
                'the connection through a bare Python exception')
    return res


# ---------------------------------------------------------------------------
# messages that reach a handler at a moment its own dialogue does not call for them: the property lets the
# connection end or the message be refused - through a protocol error / an open failure, not through a Python
# exception out of the handler (audit C06 #5(i), #6)


class HoldClient(asyncssh.SSHClient):
    """a client whose application is still deciding what to offer when the server's message arrives"""

    def __init__(self, started: asyncio.Event, release: asyncio.Future):
        self.started, self.release = started, release

    async def _hold(self) -> None:
        self.started.set()
        await self.release

    async def public_key_auth_requested(self) -> Any:
        await self._hold()
        return None

    async def password_auth_requested(self) -> Any:
        await self._hold()
        return None

    async def kbdint_auth_requested(self) -> Any:
        await self._hold()
        return None

    def kbdint_challenge_received(self, *a: Any) -> Any:
        return []


class OfferAllServer(asyncssh.SSHServer):
    def begin_auth(self, username: str) -> bool:
        return True

    def public_key_auth_supported(self) -> bool:
        return True

    def password_auth_supported(self) -> bool:
        return True

    def kbdint_auth_supported(self) -> bool:
        return True


TYPE60_BODIES = {
    'publickey': [S(b'ssh-ed25519') + S(b'x'), b''],
    'password': [S(b'change it') + S(b''), b'\0'],
    'keyboard-interactive': [S(b'') + S(b'') + S(b'') + struct.pack('>I', 1) + S(b'Password:') + b'\0', b'\0\0'],
}


async def early_method_message(method: str, body: bytes) -> Dict[str, Any]:
    """the client's auth object for `method` exists but has not written its request; the server sends type 60"""
    started = asyncio.Event()
    release = asyncio.get_event_loop().create_future()
    out: Dict[str, Any] = {'kind': 'early-method-message', 'method': method, 'body': hx(body)}
    coro, s, _hub = await pair.make_pair(
        server_factory=OfferAllServer, connect=False, server_opts=dict(**ALGS),
        client_opts=dict(client_factory=lambda: HoldClient(started, release), preferred_auth=method, **ALGS))
    task = asyncio.ensure_future(coro)
    try:
        await asyncio.wait_for(started.wait(), 10)
        await pair.settle(5)
        s.send_packet(60, body)
        await pair.settle(15)
        if task.done():
            exc = task.exception()
            out['connect'] = type(exc).__name__ if exc else 'returned'
            out['documented'] = exc is None or isinstance(exc, (asyncssh.Error, OSError))
        else:
            out['connect'], out['documented'] = 'pending', True
    except asyncio.TimeoutError:
        out['skip'] = 'client-never-asked'
    finally:
        if not release.done():
            release.cancel()
        for conn in (s,):
            try:
                conn.abort()
            except Exception:
                pass
        task.cancel()
        await asyncio.gather(task, return_exceptions=True)
        await pair.settle(5)
    return out


CHANNEL_TYPES = ['channel', 'nonsense', 'session', 'x11', 'direct-tcpip', 'forwarded-tcpip', 'auth-agent@openssh.com',
                 'channel-open', 'global-request', 'kexinit', 'service', 'userauth', '']


async def odd_channel_open(sender: str, chantype: str) -> Dict[str, Any]:
    """after authentication one side sends CHANNEL_OPEN for a channel type named like a piece of the receiver"""
    log: List[str] = []
    out: Dict[str, Any] = {'kind': 'channel-open', 'sender': sender, 'chantype': chantype}
    c, s, _hub = await pair.make_pair(server_factory=lambda: _NoAuthLogServer(log),
                                      server_opts=dict(**ALGS),
                                      client_opts=dict(client_factory=lambda: LogClient(log), **ALGS))
    with capture.PacketTap() as tap:
        snd, rcv = (c, s) if sender == 'client' else (s, c)
        try:
            snd.send_packet(90, S(chantype.encode()) + struct.pack('>III', 0, 65536, 32768))
            await pair.settle(15)
            out['reply'] = [p[0] for _q, p, _n in tap.recv.get(id(snd), []) if p and p[0] in (91, 92)]
            lost = [l for l in log if l.startswith(('srv' if sender == 'client' else 'cli') + ':connection_lost')]
            out['receiver_lost'] = lost[0].split(':')[-1] if lost else None
        finally:
            for conn in (c, s):
                try:
                    conn.abort()
                except Exception:
                    pass
            await pair.settle(5)
    return out


class _NoAuthLogServer(LogServer):
    def __init__(self, log: List[str]):
        super().__init__(log, [])

    def begin_auth(self, username: str) -> bool:
        return False


def oracle_internal_errors(res: OracleResult, hist: Hist, only: Optional[Dict[str, Any]] = None) -> None:
    async def go() -> List[Dict[str, Any]]:
        outs = []
        for method, bodies in TYPE60_BODIES.items():
            for body in bodies:
                if only is None or (only.get('kind') == 'early-method-message' and only.get('method') == method
                                    and only.get('body') == hx(body)):
                    outs.append(await early_method_message(method, body))
        for sender in ('client', 'server'):
            for ct in CHANNEL_TYPES:
                if only is None or (only.get('kind') == 'channel-open' and only.get('sender') == sender
                                    and only.get('chantype') == ct):
                    outs.append(await odd_channel_open(sender, ct))
        return outs
    for o in pair.run(go(), timeout=600):
        if 'skip' in o:
            hist.hit('skipped:' + o['skip'])
            continue
        res.evaluations += 1
        if o['kind'] == 'early-method-message':
            hist.hit(f'early-type60:{o["method"]}:{o["connect"]}')
            if not o['documented']:
                res.failures.append(Failure(
                    f'internal-error-from-out-of-phase-message:{o["method"]}-type60-before-request:{o["connect"]}',
                    f'client doing {o["method"]} authentication, its request not yet written, received message type '
                    f'60 ({o["body"]}): connect() raised a bare {o["connect"]}', o))
        else:
            bad = o['receiver_lost'] not in (None, 'None') and not hasattr(asyncssh, str(o['receiver_lost']))
            hist.hit(f'channel-open:{"refused" if 92 in o["reply"] else ("accepted" if 91 in o["reply"] else "no-reply")}')
            if bad:
                res.failures.append(Failure(
                    f'internal-error-from-peer-message:channel-open-type-{o["chantype"] or "empty"}:{o["receiver_lost"]}',
                    f'{o["sender"]} sent CHANNEL_OPEN for channel type {o["chantype"]!r}: the receiver\'s connection '
                    f'ended with a bare {o["receiver_lost"]} instead of an open failure', o))


def replay(ctx: Ctx, rep: Dict[str, Any]) -> List[Failure]:
    r = rep.get('replay', rep)
    if r.get('kind') in ('early-method-message', 'channel-open'):
        res = OracleResult()
        oracle_internal_errors(res, Hist(), r)
        return res.failures
    o = run_cases([(r['role'], r['phase'] if r['variant'] != 'then-kexinit' else 'P0-version', r['strict'],
                    r.get('t1', r['t']) if r['variant'] == 'then-kexinit' else r['t'], r['variant'], r['seed'])])[0]
    forb = FORBIDDEN_CALLBACKS.get(o['phase'], ())
    fired = [c for c in o.get('new_callbacks', []) if any(c.split(':')[1] == f for f in forb)]
    return [Failure('out-of-phase-message-took-effect', str(fired), r)] if fired else []
