"""C15 translator (T1): regenerate lean/AsyncsshModel/Gen/C15.lean from the current asyncssh tree.

Items
  * tables dumped from the live modules: `_OPENSSH_KEY_V1`, `_PEM_WRAP_LEN`, `_DEFAULT_WRAP_LEN`,
    public-key / certificate algorithm names, PEM key-type names;
  * integer expressions translated from the AST (local names are resolved by data flow / by role, so
    renaming a local or reordering independent statements does not matter):
      - `MPInt`'s length rule (packet.py),
      - `der_encode`'s length-octet rule (asn1.py),
      - the OpenSSH private-key padding written by `export_private_key` and the padding check of
        `_decode_openssh_private` (public_key.py).
An item the translator cannot recognise falls back to the pinned expression and is reported in
`fallbacks` (the runner escalates the search volume; the behavioural correspondence then carries that tie).
"""

from __future__ import annotations

import ast
import os
from typing import Any, Dict, List, Optional, Tuple

import vlib


class CannotTranslate(Exception):
    pass


# ---------------------------------------------------------------------------
# restricted Python expression -> Lean Int term


def lean_expr(node: ast.AST, env: Dict[str, str], as_bool: bool = False) -> str:
    """Translate an integer (or, with as_bool, boolean) expression.  `env` maps Python names and a few
    call shapes to Lean terms."""

    def b(n: ast.AST) -> str:
        return lean_expr(n, env, True)

    def i(n: ast.AST) -> str:
        return lean_expr(n, env, False)

    if as_bool:
        if isinstance(node, ast.BoolOp):
            op = ' ∧ ' if isinstance(node.op, ast.And) else ' ∨ '
            return '(' + op.join(b(v) for v in node.values) + ')'
        if isinstance(node, ast.UnaryOp) and isinstance(node.op, ast.Not):
            return '(¬ ' + b(node.operand) + ')'
        if isinstance(node, ast.Compare) and len(node.ops) == 1:
            ops = {ast.Eq: '=', ast.NotEq: '≠', ast.Lt: '<', ast.LtE: '≤', ast.Gt: '>', ast.GtE: '≥'}
            t = type(node.ops[0])
            if t in ops:
                return '(' + i(node.left) + ' ' + ops[t] + ' ' + i(node.comparators[0]) + ')'
        # an integer used as a truth value
        return '(' + i(node) + ' ≠ 0)'
    if isinstance(node, ast.Constant) and isinstance(node.value, int) and not isinstance(node.value, bool):
        return '(%d : Int)' % node.value
    if isinstance(node, ast.Name):
        if node.id in env:
            return env[node.id]
        raise CannotTranslate('unknown name ' + node.id)
    if isinstance(node, ast.UnaryOp) and isinstance(node.op, ast.USub):
        return '(-' + i(node.operand) + ')'
    if isinstance(node, ast.BinOp):
        if isinstance(node.op, ast.LShift):
            return '(' + i(node.left) + ' * (2 : Int) ^ (' + i(node.right) + ').toNat)'
        ops = {ast.Add: '+', ast.Sub: '-', ast.Mult: '*', ast.FloorDiv: '/', ast.Mod: '%'}
        t = type(node.op)
        if t in ops:
            if t in (ast.FloorDiv, ast.Mod):
                d = node.right
                if not (isinstance(d, ast.Constant) and isinstance(d.value, int) and d.value > 0):
                    raise CannotTranslate('divisor not a positive literal')
            return '(' + i(node.left) + ' ' + ops[t] + ' ' + i(node.right) + ')'
    if isinstance(node, ast.Call):
        key = ast.dump(node)
        if key in env:
            return env[key]
        # x.bit_length()
        if isinstance(node.func, ast.Attribute) and node.func.attr == 'bit_length' and not node.args:
            k = 'bit_length:' + ast.dump(node.func.value)
            if k in env:
                return env[k]
        if isinstance(node.func, ast.Name) and node.func.id == 'len' and len(node.args) == 1:
            k = 'len:' + ast.dump(node.args[0])
            if k in env:
                return env[k]
        raise CannotTranslate('call ' + ast.unparse(node))
    if isinstance(node, (ast.BoolOp, ast.Compare)) or (isinstance(node, ast.UnaryOp) and isinstance(node.op, ast.Not)):
        # boolean used as an integer (True == 1)
        return '(if ' + b(node) + ' then (1 : Int) else 0)'
    raise CannotTranslate('expression ' + ast.unparse(node))


def find_func(tree: ast.AST, qual: str) -> ast.FunctionDef:
    parts = qual.split('.')
    body = tree.body  # type: ignore
    node: Any = None
    for p in parts:
        node = next((n for n in body if isinstance(n, (ast.FunctionDef, ast.ClassDef)) and n.name == p), None)
        if node is None:
            raise CannotTranslate('function %s not found' % qual)
        body = node.body
    return node


def parse(path: str) -> ast.AST:
    with open(os.path.join(vlib.REPO, path)) as f:
        return ast.parse(f.read())


# ---------------------------------------------------------------------------
# items


def tr_mpint() -> str:
    """length (in bytes) handed to value.to_bytes(..., signed=True) in packet.MPInt, as a function of
    bl = value.bit_length() and value"""
    fn = find_func(parse('asyncssh/packet.py'), 'MPInt')
    if len(fn.args.args) != 1:
        raise CannotTranslate('MPInt signature')
    value = fn.args.args[0].arg
    env: Dict[str, str] = {value: 'value', 'bit_length:' + ast.dump(ast.Name(id=value, ctx=ast.Load())): 'bl'}
    result: Optional[str] = None
    for st in fn.body:
        if isinstance(st, ast.Expr) and isinstance(st.value, ast.Constant):
            continue
        # the signed to_bytes call may sit in any statement; its length argument is read in the current environment
        for n in ast.walk(st):
            if isinstance(n, ast.Call) and isinstance(n.func, ast.Attribute) and n.func.attr == 'to_bytes' \
                    and isinstance(n.func.value, ast.Name) and n.func.value.id == value and n.args:
                if not any(k.arg == 'signed' and isinstance(k.value, ast.Constant) and k.value.value is True
                           for k in n.keywords):
                    raise CannotTranslate('MPInt: to_bytes not signed')
                result = lean_expr(n.args[0], env)
        if isinstance(st, ast.Assign) and len(st.targets) == 1 and isinstance(st.targets[0], ast.Name):
            try:
                env[st.targets[0].id] = lean_expr(st.value, env)
            except CannotTranslate:
                env.pop(st.targets[0].id, None)       # not an integer expression (e.g. the encoded bytes)
        elif isinstance(st, ast.AugAssign) and isinstance(st.target, ast.Name) and isinstance(st.op, ast.Add):
            if st.target.id in env:
                env[st.target.id] = '(' + env[st.target.id] + ' + ' + lean_expr(st.value, env) + ')'
        elif isinstance(st, ast.Return):
            pass
        else:
            raise CannotTranslate('MPInt: statement ' + ast.unparse(st))
    if result is None:
        raise CannotTranslate('MPInt: no value.to_bytes(l, ..., signed=True)')
    return result


def tr_der_len() -> Tuple[int, str, int]:
    """(short-form limit, number of length bytes as a function of bl = length.bit_length(), long-form flag)"""
    fn = find_func(parse('asyncssh/asn1.py'), 'der_encode')
    for st in fn.body:
        if isinstance(st, ast.If) and isinstance(st.test, ast.Compare) and len(st.test.ops) == 1 and \
                isinstance(st.test.ops[0], (ast.Lt, ast.LtE)) and isinstance(st.test.left, ast.Name) and \
                isinstance(st.test.comparators[0], ast.Constant):
            length = st.test.left.id
            limit = st.test.comparators[0].value + (1 if isinstance(st.test.ops[0], ast.LtE) else 0)
            size_expr = None
            flag = None
            for n in ast.walk(ast.Module(body=st.orelse, type_ignores=[])):
                if isinstance(n, ast.Call) and isinstance(n.func, ast.Attribute) and n.func.attr == 'to_bytes' \
                        and isinstance(n.func.value, ast.Name) and n.func.value.id == length:
                    env = {'bit_length:' + ast.dump(ast.Name(id=length, ctx=ast.Load())): 'bl'}
                    size_expr = lean_expr(n.args[0], env)
                if isinstance(n, ast.BinOp) and isinstance(n.op, ast.BitOr) and isinstance(n.left, ast.Constant):
                    flag = n.left.value
            if size_expr is not None and flag is not None:
                return int(limit), size_expr, int(flag)
    raise CannotTranslate('der_encode: length rule not recognised')


def _range_call(node: ast.AST) -> Optional[ast.Call]:
    """bytes(range(a, b)) -> the range call"""
    if isinstance(node, ast.Call) and isinstance(node.func, ast.Name) and node.func.id == 'bytes' and \
            len(node.args) == 1 and isinstance(node.args[0], ast.Call) and \
            isinstance(node.args[0].func, ast.Name) and node.args[0].func.id == 'range' and \
            len(node.args[0].args) == 2:
        return node.args[0]
    return None


def tr_openssh_pad_export() -> Tuple[int, str, int]:
    """(first pad byte, stop expression in blockSize/pad, block size used without a cipher)"""
    fn = find_func(parse('asyncssh/public_key.py'), 'SSHKey.export_private_key')
    for n in ast.walk(fn):
        if isinstance(n, ast.Assign) and len(n.targets) == 1 and isinstance(n.targets[0], ast.Name) and \
                isinstance(n.value, ast.BinOp) and isinstance(n.value.op, ast.Mod) and \
                isinstance(n.value.left, ast.Call) and isinstance(n.value.left.func, ast.Name) and \
                n.value.left.func.id == 'len' and isinstance(n.value.right, ast.Name):
            pad_name = n.targets[0].id
            bs_name = n.value.right.id
            data_name = ast.dump(n.value.left.args[0])
            break
    else:
        raise CannotTranslate('export_private_key: pad = len(data) % block_size not found')
    rng = None
    for n in ast.walk(fn):
        if isinstance(n, ast.If) and isinstance(n.test, ast.Name) and n.test.id == pad_name:
            for m in ast.walk(n):
                r = _range_call(m)
                if r is not None:
                    rng = r
    if rng is None:
        raise CannotTranslate('export_private_key: bytes(range(...)) padding not found')
    if not (isinstance(rng.args[0], ast.Constant) and isinstance(rng.args[0].value, int)):
        raise CannotTranslate('export_private_key: padding start is not a literal')
    stop = lean_expr(rng.args[1], {pad_name: 'pad', bs_name: 'blockSize'})
    none_bs = None
    for n in ast.walk(fn):
        if isinstance(n, ast.Assign) and len(n.targets) == 1 and isinstance(n.targets[0], ast.Name) and \
                n.targets[0].id == bs_name and isinstance(n.value, ast.Constant) and isinstance(n.value.value, int):
            none_bs = n.value.value
    if none_bs is None:
        raise CannotTranslate('export_private_key: block size without cipher not found')
    del data_name
    return int(rng.args[0].value), stop, int(none_bs)


def tr_openssh_pad_check() -> Tuple[int, int, str]:
    """(length at which padding is rejected, first expected byte, stop expression in n = len(pad))"""
    fn = find_func(parse('asyncssh/public_key.py'), '_decode_openssh_private')
    for n in ast.walk(fn):
        if isinstance(n, ast.If) and isinstance(n.test, ast.BoolOp) and isinstance(n.test.op, ast.Or) and \
                len(n.test.values) == 2:
            a, b = n.test.values
            if isinstance(a, ast.Compare) and isinstance(a.ops[0], ast.GtE) and \
                    isinstance(a.left, ast.Call) and isinstance(a.left.func, ast.Name) and a.left.func.id == 'len' \
                    and isinstance(a.comparators[0], ast.Constant) and \
                    isinstance(b, ast.Compare) and isinstance(b.ops[0], ast.NotEq):
                r = _range_call(b.comparators[0])
                if r is None or ast.dump(b.left) != ast.dump(a.left.args[0]):
                    continue
                if not (isinstance(r.args[0], ast.Constant) and isinstance(r.args[0].value, int)):
                    continue
                env = {'len:' + ast.dump(a.left.args[0]): 'n'}
                return int(a.comparators[0].value), int(r.args[0].value), lean_expr(r.args[1], env)
    raise CannotTranslate('_decode_openssh_private: padding check not recognised')


PINNED = {
    'mpint': '(((bl + (if ((bl % (8 : Int)) = (0 : Int) ∧ value ≠ (0 : Int) ∧ value ≠ ((-(1 : Int)) * (2 : Int) ^ '
             '((bl - (1 : Int))).toNat)) then (1 : Int) else 0)) + (7 : Int)) / (8 : Int))',
    'der_len': (128, '((bl + (7 : Int)) / (8 : Int))', 128),
    'pad_export': (1, '((blockSize + (1 : Int)) - pad)', 8),
    'pad_check': (256, 1, '(n + (1 : Int))'),
}


def lean_bytes(b: bytes) -> str:
    return '[' + ', '.join(str(x) for x in b) + ']'


def generate() -> Tuple[str, Dict[str, Any], List[str]]:
    """returns (Lean source, info for the evidence, fallbacks)"""
    import asyncssh.misc as misc
    import asyncssh.public_key as pk

    fallbacks: List[str] = []
    items: Dict[str, Any] = {}
    for name, fn in [('mpint', tr_mpint), ('der_len', tr_der_len), ('pad_export', tr_openssh_pad_export),
                     ('pad_check', tr_openssh_pad_check)]:
        try:
            items[name] = fn()
        except (CannotTranslate, SyntaxError, OSError, KeyError, IndexError, AttributeError) as e:
            items[name] = PINNED[name]
            fallbacks.append('%s: %s (pinned expression used)' % (name, e))

    # behavioural fact probed on the live code (robust against refactoring): does the exporter refuse a comment
    # containing a newline in the two line-oriented public formats (keys and certificates)?
    def refuses_newline() -> bool:
        import asyncssh
        k = asyncssh.generate_private_key('ssh-ed25519')
        cert = k.generate_user_certificate(k, 'probe')
        outcomes = []
        for obj, exp in ((k, k.export_public_key), (cert, cert.export_certificate)):
            obj.set_comment(b'a\nb')
            for fmt in ('openssh', 'rfc4716'):
                try:
                    exp(fmt)
                    outcomes.append(False)
                except pk.KeyExportError:
                    outcomes.append(True)
        return all(outcomes)
    try:
        refuses = refuses_newline()
    except Exception as e:
        refuses = False
        fallbacks.append('newline probe: %s: %s' % (type(e).__name__, e))

    # behavioural fact probed on the live code: does export_private_key('openssh') refuse a comment that contains
    # a NUL (OpenSSH reads the comment as a C string and cannot load such a file)?
    def refuses_nul() -> bool:
        import asyncssh
        k = asyncssh.generate_private_key('ssh-ed25519')
        outcomes = []
        for c in (b'a\0b', b'\0', b'tail\0'):
            k.set_comment(c)
            try:
                k.export_private_key('openssh')
                outcomes.append(False)
            except pk.KeyExportError:
                outcomes.append(True)
        k.set_comment(b'plain')
        k.export_private_key('openssh')
        return all(outcomes)
    try:
        refuses_nul_comment = refuses_nul()
    except Exception as e:
        refuses_nul_comment = False
        fallbacks.append('NUL comment probe: %s: %s' % (type(e).__name__, e))

    magic = bytes(pk._OPENSSH_KEY_V1)
    pub_algs = sorted(bytes(a) for a in pk._public_key_alg_map)
    cert_algs = sorted(bytes(a) for a in pk._certificate_alg_map)
    pem_names = sorted(bytes(a) for a in pk._pem_map)
    der_limit, der_size, der_flag = items['der_len']
    pad_first, pad_stop, none_bs = items['pad_export']
    chk_max, chk_first, chk_stop = items['pad_check']

    def table(xs: List[bytes]) -> str:
        return '[\n' + ',\n'.join('    ' + lean_bytes(x) + '   -- ' + x.decode('ascii', 'replace') for x in xs) + '\n  ]' \
            if xs else '[]'

    # the comma placement above would put a comma after the comment; build the tables line by line instead
    def table2(xs: List[bytes]) -> str:
        if not xs:
            return '[]'
        rows = []
        for k, x in enumerate(xs):
            sep = ',' if k < len(xs) - 1 else ''
            rows.append('    %s%s   -- %s' % (lean_bytes(x), sep, x.decode('ascii', 'replace')))
        return '[\n' + '\n'.join(rows) + '\n  ]'
    del table

    src = f'''/-
  GENERATED by harness/props/_c15_translate.py from the asyncssh tree under check — do not edit.
  Tables are dumped from the live modules; integer expressions are translated from the AST of
  packet.MPInt, asn1.der_encode, SSHKey.export_private_key and _decode_openssh_private.
-/
namespace AsyncsshModel.Gen.C15

/-- `_OPENSSH_KEY_V1` (public_key.py) -/
def opensshKeyV1 : List UInt8 := {lean_bytes(magic)}

/-- `_PEM_WRAP_LEN` (public_key.py) and `_DEFAULT_WRAP_LEN` (misc.py) -/
def pemWrapLen : Nat := {int(pk._PEM_WRAP_LEN)}
def defaultWrapLen : Nat := {int(misc._DEFAULT_WRAP_LEN)}

/-- keys of `_public_key_alg_map`, `_certificate_alg_map`, `_pem_map` -/
def publicKeyAlgs : List (List UInt8) := {table2(pub_algs)}
def certificateAlgs : List (List UInt8) := {table2(cert_algs)}
def pemNames : List (List UInt8) := {table2(pem_names)}

/-- packet.MPInt: the byte length handed to `value.to_bytes(l, 'big', signed=True)`,
    with `bl = value.bit_length()` -/
def mpintLenExpr (bl value : Int) : Int := {items['mpint']}

/-- asn1.der_encode: short-form limit, number of length bytes (`bl = length.bit_length()`), long-form flag -/
def derShortLimit : Nat := {der_limit}
def derLenSizeExpr (bl : Int) : Int := {der_size}
def derLongFlag : Nat := {der_flag}

/-- SSHKey.export_private_key('openssh'): `data + bytes(range(padFirst, padStop block_size pad))`
    when `pad = len(data) % block_size` is non-zero; block size when no cipher is used -/
def padFirst : Nat := {pad_first}
def padStop (blockSize pad : Int) : Int := {pad_stop}
def opensshNoneBlockSize : Nat := {none_bs}

/-- _decode_openssh_private: reject when `len(pad) >= padRejectLen or
    pad != bytes(range(padCheckFirst, padCheckStop len(pad)))` -/
def padRejectLen : Nat := {chk_max}
def padCheckFirst : Nat := {chk_first}
def padCheckStop (n : Int) : Int := {chk_stop}

/-- probed on the live code: `export_public_key` / `export_certificate` in the `openssh` and `rfc4716` formats
    raise `KeyExportError` for a comment containing a newline -/
def exportRefusesNewlineComment : Bool := {'true' if refuses else 'false'}

/-- probed on the live code: `export_private_key('openssh')` raises `KeyExportError` for a comment containing
    a NUL byte -/
def exportRefusesNulComment : Bool := {'true' if refuses_nul_comment else 'false'}

end AsyncsshModel.Gen.C15
'''
    info = {'tables': {'public_key_algs': len(pub_algs), 'certificate_algs': len(cert_algs),
                       'pem_names': [p.decode() for p in pem_names]},
            'expressions': {'mpint_len': items['mpint'], 'der_len': [der_limit, der_size, der_flag],
                            'openssh_pad_export': [pad_first, pad_stop, none_bs],
                            'openssh_pad_check': [chk_max, chk_first, chk_stop]},
            'export_refuses_newline_comment': refuses,
            'export_refuses_nul_comment': refuses_nul_comment,
            'fallbacks': fallbacks}
    return src, info, fallbacks


def run(ctx: Any) -> Dict[str, Any]:
    src, info, fallbacks = generate()
    path = os.path.join(vlib.LEAN_DIR, 'AsyncsshModel', 'Gen', 'C15.lean')
    info['changed'] = vlib.write_if_changed(path, src)
    for f in fallbacks:
        ctx.translator_fallbacks.append(f)
    if fallbacks:
        ctx.escalated = True
    return info
