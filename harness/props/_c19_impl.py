"""C19 helpers: driving the real asyncssh stream / process code on scripted inputs (no model knowledge here).

Three ways to put a script in front of a real `SSHReader`:
  direct       real SSHServerStreamSession + SSHReader over a stand-in channel object (events are calls of the
               session's own entry points: data_received / eof_received / exception_received)
  wire-client  real client+server pair; the reader is the client process's stdout; the server side is a raw peer
               that emits CHANNEL_DATA / CHANNEL_EOF packets exactly as scripted
  wire-server  the reader is the server process's stdin; the client channel is the raw peer (can also send
               break / signal / window-change requests, which the stream API reports as exceptions)
"""

from __future__ import annotations

import asyncio
import io
import re
from typing import Any, Callable, Dict, List, Optional, Sequence, Tuple

import asyncssh
from asyncssh.constants import (MSG_CHANNEL_DATA, MSG_CHANNEL_EXTENDED_DATA, MSG_CHANNEL_EOF, MSG_CHANNEL_CLOSE,
                                MSG_CHANNEL_REQUEST)
from asyncssh.packet import Boolean, String, UInt32
from asyncssh.stream import SSHReader, SSHWriter, SSHServerStreamSession
from asyncssh.misc import BreakReceived, SignalReceived, SoftEOFReceived, TerminalSizeChanged

import pair
from vlib import hx, unhx

# ---------------------------------------------------------------------------
# script tokens (shared syntax with lean/Drivers/C19.lean)
#   ('G', [arrival, ...])   arrival = ('d', bytes) | ('f', bytes) | ('e',) | ('x', code)
#   ('R', n) ('X', n) ('U', [seps]) ('V', sep) ('P', maxlen, [seps]) ('L',) ('Q',)


def tok_str(t: Tuple) -> str:
    k = t[0]
    if k == 'G':
        parts = []
        for a in t[1]:
            if a[0] in 'df':
                parts.append(a[0] + hx(a[1]))
            elif a[0] == 'e':
                parts.append('e')
            else:
                parts.append('x%d' % a[1])
        return 'G:' + ','.join(parts)
    if k in 'RX':
        return '%s%d' % (k, t[1])
    if k == 'U':
        return 'U' + ','.join(hx(s) for s in t[1])
    if k == 'V':
        return 'V' + hx(t[1])
    if k == 'P':
        return 'P%d:%s' % (t[1], ','.join(hx(s) for s in t[2]))
    return k


def script_line(limit: int, toks: Sequence[Tuple]) -> str:
    return 'S %d %s' % (limit, ' '.join(tok_str(t) for t in toks))


def parse_tok(s: str) -> Tuple:
    if s.startswith('G:'):
        arr: List[Tuple] = []
        for a in [x for x in s[2:].split(',') if x]:
            if a[0] in 'df':
                arr.append((a[0], unhx(a[1:])))
            elif a == 'e':
                arr.append(('e',))
            else:
                arr.append(('x', int(a[1:])))
        return ('G', arr)
    if s[0] in 'RX':
        return (s[0], int(s[1:]))
    if s[0] == 'U':
        return ('U', [unhx(x) for x in s[1:].split(',') if x])
    if s[0] == 'V':
        return ('V', unhx(s[1:]))
    if s[0] == 'P':
        m, l = s[1:].split(':')
        return ('P', int(m), [unhx(x) for x in l.split(',') if x])
    return (s,)


EXC_CODES = {BreakReceived: 1, SignalReceived: 2, TerminalSizeChanged: 3}


def canon_exc(e: BaseException) -> str:
    if isinstance(e, asyncio.IncompleteReadError):
        return 'inc:' + hx(_b(e.partial))
    if isinstance(e, SoftEOFReceived):
        return 'exc:0'
    for cls, code in EXC_CODES.items():
        if isinstance(e, cls):
            return 'exc:%d' % code
    if isinstance(e, TypeError):
        return 'typeerror'
    if isinstance(e, ValueError):
        return 'valueerror'
    return 'raised:' + type(e).__name__


def _b(x: Any) -> bytes:
    return x.encode('latin-1') if isinstance(x, str) else bytes(x)


class StandInChannel:
    """Minimal channel for a directly driven session: queues data while reading is paused and hands it over on
    resume, the way SSHChannel._accept_data/_flush_recv_buf do (the real channel is exercised in wire mode)."""

    def __init__(self, loop: Any, limit: int, encoding: Optional[str]):
        self.loop, self.limit, self.encoding = loop, limit, encoding
        self.paused = False
        self.queue: List[Any] = []
        self.eof_pending = False
        self.session: Any = None
        self.logger = None

    def get_connection(self) -> Any:
        return None

    def get_encoding(self) -> Tuple[Optional[str], str]:
        return self.encoding, 'strict'

    def get_loop(self) -> Any:
        return self.loop

    def get_recv_window(self) -> int:
        return self.limit

    def get_read_datatypes(self) -> Any:
        return set()

    def get_write_datatypes(self) -> Any:
        return set()

    def pause_reading(self) -> None:
        self.paused = True

    def resume_reading(self) -> None:
        if self.paused:
            self.paused = False
            self._flush()

    def _flush(self) -> None:
        while self.queue and not self.paused:
            self.session.data_received(self.queue.pop(0), None)
        if not self.queue and self.eof_pending:
            self.eof_pending = False
            self.session.eof_received()

    # wire-side entry points
    def accept_data(self, data: Any) -> None:
        if not data:
            return
        if self.paused:
            self.queue.append(data)
        else:
            self.session.data_received(data, None)

    def accept_eof(self) -> None:
        if self.queue:
            self.eof_pending = True
        else:
            self.session.eof_received()


class Feeder:
    """applies arrivals to a reader; subclasses decide how"""
    reader: Any
    text = False

    def conv(self, b: bytes) -> Any:
        return b.decode('latin-1') if self.text else b

    async def apply(self, group: List[Tuple]) -> None:
        raise NotImplementedError

    async def settle(self) -> None:
        await pair.settle(4)

    async def finish(self) -> None:
        pass


class DirectFeeder(Feeder):
    def __init__(self, limit: int, text: bool):
        loop = asyncio.get_event_loop()
        self.text = text
        self.chan = StandInChannel(loop, limit, 'latin-1' if text else None)
        self.session = SSHServerStreamSession(None)
        self.chan.session = self.session
        self.session.connection_made(self.chan)     # type: ignore
        self.reader = SSHReader(self.session, self.chan)    # type: ignore

    async def apply(self, group: List[Tuple]) -> None:
        for a in group:
            if a[0] == 'd':
                self.chan.accept_data(self.conv(a[1]))
            elif a[0] == 'f':
                self.reader.feed_data(self.conv(a[1]))
            elif a[0] == 'e':
                self.chan.accept_eof()
            elif a[1] == 0:
                self.session.soft_eof_received()
            elif a[1] == 1:
                self.session.break_received(7)
            elif a[1] == 2:
                self.session.signal_received('INT')
            else:
                self.session.terminal_size_changed(80, 24, 0, 0)


class WireFeeder(Feeder):
    """reader and raw peer are the two ends of a real channel (see `Wire.open`)"""

    def __init__(self, reader: Any, peer_chan: Any, text: bool = False, hub: Any = None):
        self.reader, self.peer, self.text, self.hub = reader, peer_chan, text, hub

    async def apply(self, group: List[Tuple]) -> None:
        for a in group:
            if a[0] == 'd':
                self.peer.send_packet(MSG_CHANNEL_DATA, String(a[1]))
            elif a[0] == 'e':
                self.peer.write_eof()
            elif a[0] == 'x' and a[1] == 1:
                self.peer.send_break(7)
            elif a[0] == 'x' and a[1] == 2:
                self.peer.send_signal('INT')
            elif a[0] == 'x' and a[1] == 3:
                self.peer.change_terminal_size(80, 24)
            else:
                raise ValueError('arrival not expressible on the wire: %r' % (a,))

    async def settle(self) -> None:
        if self.hub is not None:        # transport bytes may be re-chunked: wait until the link is idle
            for _ in range(5000):
                if not (self.hub.queues[pair.C2S] or self.hub.queues[pair.S2C]):
                    break
                await asyncio.sleep(0)
        await pair.settle(14)


def make_separator(t: Tuple, text: bool) -> Tuple[Any, Dict[str, Any]]:
    conv = (lambda b: b.decode('latin-1')) if text else (lambda b: b)
    if t[0] == 'V':
        return conv(t[1]), {}
    if t[0] == 'U':
        return [conv(s) for s in t[1]], {}
    pat = b'|'.join(re.escape(s) for s in t[2])
    return re.compile(conv(pat)), {'max_separator_len': t[1]}


async def run_script(feeder: Feeder, toks: Sequence[Tuple], arrivals_independent: bool = False) -> List[str]:
    """Run a token script against feeder.reader; returns one canonical result string per op.
    A call waits for the groups that follow it up to the next call (the Lean driver reads scripts the same way).
    With arrivals_independent=True a waiting call is also given the groups scheduled after later calls (the peer
    keeps sending whatever the application does): used by the oracle, where every call must eventually return."""
    out: List[str] = []
    r = feeder.reader
    i = 0
    toks = list(toks)
    while i < len(toks):
        t = toks[i]
        i += 1
        if t[0] == 'G':
            await feeder.apply(t[1])
            await feeder.settle()
            continue
        if t[0] == 'Q':
            out.append('eof=%d' % (1 if r.at_eof() else 0))
            continue
        if t[0] == 'R':
            coro = r.read(t[1])
        elif t[0] == 'X':
            coro = r.readexactly(t[1])
        elif t[0] == 'L':
            coro = r.readline()
        else:
            sep, kw = make_separator(t, feeder.text)
            coro = r.readuntil(sep, **kw)
        task = asyncio.ensure_future(coro)
        await feeder.settle()
        while not task.done():
            if i < len(toks) and toks[i][0] == 'G':
                j = i
            elif arrivals_independent:
                j = next((k for k in range(i, len(toks)) if toks[k][0] == 'G'), -1)
                if j < 0:
                    break
            else:
                break
            g = toks.pop(j)
            await feeder.apply(g[1])
            await feeder.settle()
        if not task.done():
            task.cancel()
            try:
                await task
            except BaseException:       # noqa: BLE001
                pass
            out.append('blocked')
            break
        try:
            out.append('ok:' + hx(_b(task.result())))
        except BaseException as e:      # noqa: BLE001
            out.append(canon_exc(e))
    return out


# ---------------------------------------------------------------------------
# real channels


class Wire:
    """one real connection; `open(kind, limit)` gives a (reader, raw peer channel) pair on a fresh channel"""

    def __init__(self) -> None:
        self.procs: List[Any] = []
        self.c: Any = None
        self.s: Any = None
        self.hub: Any = None
        self._waiters: List[asyncio.Future] = []

    async def start(self, chunker: Any = None, server_window: int = 2 ** 21) -> None:
        async def handler(process: Any) -> None:
            self.procs.append(process)
            if self._waiters:
                self._waiters.pop(0).set_result(process)
            await asyncio.sleep(3600)
        self.c, self.s, self.hub = await pair.make_pair(
            server_opts=dict(process_factory=handler, encoding=None, window=server_window, max_pktsize=32768),
            chunker=chunker)

    async def open(self, kind: str, limit: int) -> Tuple[Any, Any, Any]:
        """returns (reader, raw peer channel, client process)"""
        fut = asyncio.get_event_loop().create_future()
        self._waiters.append(fut)
        cp = await self.c.create_process('x', encoding=None, window=limit if kind == 'client' else 2 ** 21,
                                         max_pktsize=32768)
        sp = await asyncio.wait_for(fut, 10)
        await pair.settle(6)
        if kind == 'client':
            return cp.stdout, sp.channel, cp
        return sp.stdin, cp.channel, cp

    async def stop(self) -> None:
        if self.c is not None:
            self.c.abort()
        await pair.settle(10)


# ---------------------------------------------------------------------------
# process layer: raw peer against a real SSHClientProcess


class Sink(io.BytesIO):
    """BytesIO that remembers what it held when it was closed"""

    def __init__(self) -> None:
        super().__init__()
        self.final: Optional[bytes] = None

    def close(self) -> None:
        if self.final is None:
            self.final = self.getvalue()
        super().close()

    def content(self) -> bytes:
        return self.final if self.final is not None else self.getvalue()


def canon_proc(res: Dict[str, Any]) -> str:
    """same format as the Lean driver's answer to a `P` line"""
    w = res['wait']
    o = lambda x: '-' if x is None else str(x)      # noqa: E731
    if w is None:
        ws = 'wait=pending'
    elif isinstance(w, str):
        ws = 'wait=' + w
    else:
        st, sig, out, err = w
        sigc = None if sig is None else {v: k for k, v in SIGNALS.items()}.get(sig, 99)
        ws = 'wait=%s,%s,%s,%s' % (o(st), o(sigc), hx(out), hx(err))
    ws += ' target=%s,%d' % (hx(res['target']), 1 if res['target_closed'] else 0)
    if 'redirect' in res:
        ws += ' redirect=' + res['redirect']
    return ws


def proc_line(limit: int, evs: Sequence[Tuple]) -> str:
    """the model's view of the event list: SSHConnection.disconnect() (event x0) closes the peer's channels first,
    so a CHANNEL_CLOSE travels in front of the DISCONNECT unless the channel was closed already"""
    out, closed = [], False
    for e in evs:
        if e[0] == 'c':
            closed = True
        if e == ('x', 0) and not closed:
            out.append('c')
            closed = True
        out.append(pev_str(e))
    return 'P %d %s' % (limit, ' '.join(out))


def pev_str(ev: Tuple) -> str:
    k = ev[0]
    if k in 'dD':
        return k + hx(ev[1])
    if k in 'sS':
        return '%s%d' % (k, ev[1])
    if k in 'xr':
        return '%s%d' % (k, ev[1])
    return k


SIGNALS = {1: 'HUP', 2: 'INT', 9: 'KILL', 15: 'TERM'}


async def run_proc_events(limit: int, evs: Sequence[Tuple], chunker: Any = None) -> Dict[str, Any]:
    """Raw peer plays `evs` against a real client process on a fresh connection.  Returns observables."""
    got: List[Any] = []

    async def handler(process: Any) -> None:
        got.append(process)
        await asyncio.sleep(3600)
    c, sconn, hub = await pair.make_pair(server_opts=dict(process_factory=handler, encoding=None), chunker=chunker)
    res: Dict[str, Any] = {}
    try:
        p = await c.create_process('x', encoding=None, window=limit, max_pktsize=32768)
        for _ in range(40):
            if got:
                break
            await asyncio.sleep(0)
        await pair.settle(8)
        sch = got[0].channel
        closed_once = False
        wait_task: Optional[asyncio.Task] = None
        sink: Optional[Sink] = None
        sink_recv_eof = False

        def raw(pkttype: int, *args: bytes) -> None:
            sconn.send_packet(pkttype, UInt32(0), *args)

        for ev in evs:
            k = ev[0]
            if k == 'd':
                raw(MSG_CHANNEL_DATA, String(ev[1]))
            elif k == 'D':
                raw(MSG_CHANNEL_EXTENDED_DATA, UInt32(1), String(ev[1]))
            elif k == 'e':
                raw(MSG_CHANNEL_EOF)
            elif k == 's':
                raw(MSG_CHANNEL_REQUEST, String('exit-status'), Boolean(False), UInt32(ev[1]))
            elif k == 'S':
                raw(MSG_CHANNEL_REQUEST, String('exit-signal'), Boolean(False), String(SIGNALS.get(ev[1], 'USR1')),
                    Boolean(False), String(''), String(''))
            elif k == 'c':
                if not closed_once:
                    closed_once = True
                    sch.close()     # emits CHANNEL_CLOSE now (nothing is buffered on this side)
                else:
                    raw(MSG_CHANNEL_CLOSE)
            elif k == 't':
                await pair.settle(14)
            elif k == 'x':
                if ev[1]:
                    hub.cut_transport()
                else:
                    sconn.disconnect(11, 'bye')     # closes its channels (CHANNEL_CLOSE), then DISCONNECT
                    closed_once = True
                await pair.settle(14)
            elif k == 'w':
                if wait_task is None:
                    wait_task = asyncio.ensure_future(p.wait())
                await pair.settle(6)
            elif k == 'r':
                if sink is None:
                    sink = Sink()
                    sink_recv_eof = bool(ev[1])
                    try:
                        await p.redirect_stdout(sink, recv_eof=bool(ev[1]))
                    except Exception as e:      # noqa: BLE001
                        res['redirect'] = 'raised:' + type(e).__name__
                await pair.settle(6)
        await pair.settle(14)
        if wait_task is not None and wait_task.done():
            try:
                r = wait_task.result()
                sig = r.exit_signal
                st = r.exit_status
                if sig is not None and st == -1:
                    st = None       # get_exit_status() reports -1 when only a signal was received
                res['wait'] = (st, None if sig is None else sig[0], bytes(r.stdout), bytes(r.stderr))
            except BaseException as e:      # noqa: BLE001
                res['wait'] = 'raised:' + type(e).__name__
        else:
            res['wait'] = None
            if wait_task is not None:
                wait_task.cancel()
        res['target'] = sink.content() if sink is not None else b''
        res['target_closed'] = bool(sink is not None and sink.closed)
    finally:
        c.abort()
        await pair.settle(10)
    return res
