"""C19 helpers: driving the real asyncssh stream / process code on scripted inputs (no model knowledge here).

Three ways to put a script in front of a real `SSHReader`:
  direct       real SSHServerStreamSession + SSHReader over a stand-in channel object (events are calls of the
               session's own entry points: data_received / eof_received / exception_received)
  wire-client  real client+server pair; the reader is the client process's stdout; the server side is a raw peer
               that emits CHANNEL_DATA / CHANNEL_EOF packets exactly as scripted
  wire-server  the reader is the server process's stdin; the client channel is the raw peer (can also send
               break / signal / window-change requests, which the stream API reports as exceptions)

The raw peers are *window-conforming* senders (RFC 4254 5.2): they keep their own account of the window the
receiver advertised (initial window + the CHANNEL_WINDOW_ADJUST messages that have reached them, observed from
outside by `AdjustTap`) and never have more bytes in flight than that.  Data that does not fit waits in the
peer's queue (everything scripted after it waits behind it) and goes out - split at the window edge, as a real
sender does - once an adjust has arrived.  What was really put on the wire, and when, is reported back as the
*realized* script; that is what the Lean model is run on.  Only `send_hostile` / the `v` process event ignore the
window (explicit hostile-peer scenarios, expected outcome: connection closed with 'Window exceeded').
"""

from __future__ import annotations

import asyncio
import io
import re
from typing import Any, Callable, Dict, List, Optional, Sequence, Tuple

import asyncssh
from asyncssh.constants import (MSG_CHANNEL_DATA, MSG_CHANNEL_EXTENDED_DATA, MSG_CHANNEL_EOF, MSG_CHANNEL_CLOSE,
                                MSG_CHANNEL_REQUEST, MSG_CHANNEL_WINDOW_ADJUST)
from asyncssh.constants import EXTENDED_DATA_STDERR
from asyncssh import packet as packetmod
from asyncssh.packet import Boolean, String, UInt32
from asyncssh.stream import SSHReader, SSHWriter, SSHServerStreamSession
from asyncssh.misc import BreakReceived, SignalReceived, SoftEOFReceived, TerminalSizeChanged

import pair
from vlib import hx, unhx

# ---------------------------------------------------------------------------
# script tokens (shared syntax with lean/Drivers/C19.lean)
#   ('G', [arrival, ...])   arrival = ('d', bytes) | ('f', bytes) | ('e',) | ('x', code)
#   ('R', n) ('X', n) ('U', [seps]) ('V', sep) ('P', maxlen, [seps]) ('L',) ('Q',)
#   ('O', n)   n bytes arrive for the OTHER stream of the same session (stderr while stdout is the reader under test)
#   ('T', n)   the application reads n (buffered) bytes of the other stream


def tok_str(t: Tuple) -> str:
    k = t[0]
    if k == 'G':
        parts = []
        for a in t[1]:
            if a[0] in 'df':
                parts.append(a[0] + hx(a[1]))
            elif a[0] == 'e':
                parts.append('e')
            else:
                parts.append('x%d' % a[1])
        return 'G:' + ','.join(parts)
    if k in 'RXOT':
        return '%s%d' % (k, t[1])
    if k == 'U':
        return 'U' + ','.join(hx(s) for s in t[1])
    if k == 'V':
        return 'V' + hx(t[1])
    if k == 'P':
        return 'P%d:%s' % (t[1], ','.join(hx(s) for s in t[2]))
    return k


def script_line(limit: int, toks: Sequence[Tuple]) -> str:
    return 'S %d %s' % (limit, ' '.join(tok_str(t) for t in toks))


def parse_tok(s: str) -> Tuple:
    if s.startswith('G:'):
        arr: List[Tuple] = []
        for a in [x for x in s[2:].split(',') if x]:
            if a[0] in 'df':
                arr.append((a[0], unhx(a[1:])))
            elif a == 'e':
                arr.append(('e',))
            else:
                arr.append(('x', int(a[1:])))
        return ('G', arr)
    if s[0] in 'RXOT':
        return (s[0], int(s[1:]))
    if s[0] == 'U':
        return ('U', [unhx(x) for x in s[1:].split(',') if x])
    if s[0] == 'V':
        return ('V', unhx(s[1:]))
    if s[0] == 'P':
        m, l = s[1:].split(':')
        return ('P', int(m), [unhx(x) for x in l.split(',') if x])
    return (s,)


EXC_CODES = {BreakReceived: 1, SignalReceived: 2, TerminalSizeChanged: 3}


def canon_exc(e: BaseException) -> str:
    if isinstance(e, asyncio.IncompleteReadError):
        return 'inc:' + hx(_b(e.partial))
    if isinstance(e, SoftEOFReceived):
        return 'exc:0'
    for cls, code in EXC_CODES.items():
        if isinstance(e, cls):
            return 'exc:%d' % code
    if isinstance(e, TypeError):
        return 'typeerror'
    if isinstance(e, ValueError):
        return 'valueerror'
    return 'raised:' + type(e).__name__


def _b(x: Any) -> bytes:
    return x.encode('latin-1') if isinstance(x, str) else bytes(x)


class StandInChannel:
    """Minimal channel for a directly driven session: queues data while reading is paused and hands it over on
    resume, the way SSHChannel._accept_data/_flush_recv_buf do (the real channel is exercised in wire mode)."""

    def __init__(self, loop: Any, limit: int, encoding: Optional[str], two_streams: bool = False):
        self.loop, self.limit, self.encoding = loop, limit, encoding
        self.two_streams = two_streams
        self.paused = False
        self.queue: List[Any] = []
        self.eof_pending = False
        self.session: Any = None
        self.logger = None
        # write side, as far as drain() can see it
        self.session_paused = False     # the channel told the session pause_writing()
        self.send_closed = False        # closed for sending (CLOSE sent / the peer's CLOSE received)
        self.discarded = False          # unsent data was thrown away when the channel closed

    # -- write side ---------------------------------------------------------------------------------------------
    def pause_session(self) -> None:
        self.session_paused = True
        self.session.pause_writing()

    def resume_session(self) -> None:
        self.session_paused = False
        self.session.resume_writing()

    def peer_close(self, unsent: bool) -> None:
        """the writer's side of SSHChannel._process_close while connection_lost is still held back (received data
        queued behind a paused reader): _close_send() discards the send buffer - a session paused for writing has
        more than the low-water mark in it - and _pause_resume_writing() then resumes that session"""
        if unsent or self.session_paused:
            self.discarded = True
        self.send_closed = True
        if self.session_paused:
            self.resume_session()

    def is_closing(self) -> bool:
        return self.send_closed

    def was_write_discarded(self) -> bool:
        return self.discarded

    def get_connection(self) -> Any:
        return None

    def get_encoding(self) -> Tuple[Optional[str], str]:
        return self.encoding, 'strict'

    def get_loop(self) -> Any:
        return self.loop

    def get_recv_window(self) -> int:
        return self.limit

    def get_read_datatypes(self) -> Any:
        return {EXTENDED_DATA_STDERR} if self.two_streams else set()

    def get_write_datatypes(self) -> Any:
        return set()

    def pause_reading(self) -> None:
        self.paused = True

    def resume_reading(self) -> None:
        if self.paused:
            self.paused = False
            self._flush()

    def _flush(self) -> None:
        while self.queue and not self.paused:
            self.session.data_received(self.queue.pop(0), None)
        if not self.queue and self.eof_pending:
            self.eof_pending = False
            self.session.eof_received()

    # wire-side entry points
    def accept_data(self, data: Any) -> None:
        if not data:
            return
        if self.paused:
            self.queue.append(data)
        else:
            self.session.data_received(data, None)

    def accept_eof(self) -> None:
        if self.queue:
            self.eof_pending = True
        else:
            self.session.eof_received()


class AdjustTap:
    """Outside observer of flow control: sums, per channel object, the CHANNEL_WINDOW_ADJUST values that channel
    has *received* (class-level wrapping of SSHPacketLogger.log_received_packet, which the connection's receive
    loop calls for every packet before dispatching it; observation only)."""

    installed_on: Any = None
    totals: Dict[int, int] = {}

    @classmethod
    def install(cls) -> None:
        if cls.installed_on is packetmod.SSHPacketLogger:
            return
        orig = packetmod.SSHPacketLogger.log_received_packet

        def log_recv(h: Any, pkttype: int, pktid: Any, packet: Any, note: str = '') -> None:
            if pkttype == MSG_CHANNEL_WINDOW_ADJUST and not note:
                try:
                    payload = packet.get_full_payload() if isinstance(packet, packetmod.SSHPacket) else bytes(packet)
                    if len(payload) == 9:       # type, recipient channel, bytes to add
                        cls.totals[id(h)] = cls.totals.get(id(h), 0) + int.from_bytes(payload[5:9], 'big')
                except Exception:       # noqa: BLE001
                    pass
            return orig(h, pkttype, pktid, packet, note)
        packetmod.SSHPacketLogger.log_received_packet = log_recv    # type: ignore
        cls.installed_on = packetmod.SSHPacketLogger

    @classmethod
    def total(cls, chan: Any) -> int:
        return cls.totals.get(id(chan), 0)


class Credit:
    """The sender's account of the receiver's window: advertised at open + adjusts received - bytes sent."""

    def __init__(self, window: int, peer_chan: Any):
        AdjustTap.install()
        # the server process's channel is the line-editor wrapper; packets are dispatched to the channel inside it
        peer_chan = getattr(peer_chan, '_orig_chan', peer_chan)
        self.window0, self.chan, self.sent = window, peer_chan, 0
        self.base = AdjustTap.total(peer_chan)      # (ids of dead objects may be reused)

    def left(self) -> int:
        return self.window0 + AdjustTap.total(self.chan) - self.base - self.sent

    def take(self, n: int) -> None:
        self.sent += n


class Feeder:
    """applies arrivals to a reader; subclasses decide how.  `apply` queues a group behind whatever the peer
    still holds and returns the arrivals that were really handed over now (the realized group)."""
    reader: Any
    text = False

    def conv(self, b: bytes) -> Any:
        return b.decode('latin-1') if self.text else b

    async def apply(self, group: List[Tuple]) -> List[Tuple]:
        raise NotImplementedError

    def has_pending(self) -> bool:
        return False

    async def settle(self) -> None:
        await pair.settle(4)

    async def finish(self) -> None:
        pass


class DirectFeeder(Feeder):
    def __init__(self, limit: int, text: bool, two_streams: bool = False):
        loop = asyncio.get_event_loop()
        self.text = text
        self.chan = StandInChannel(loop, limit, 'latin-1' if text else None, two_streams)
        self.session = SSHServerStreamSession(None)
        self.chan.session = self.session
        self.session.connection_made(self.chan)     # type: ignore
        self.reader = SSHReader(self.session, self.chan)    # type: ignore
        # the other stream of the same session (what stderr is to a client process's stdout)
        self.other = SSHReader(self.session, self.chan, EXTENDED_DATA_STDERR) if two_streams else None   # type: ignore

    def other_arrives(self, n: int) -> None:
        assert self.other is not None
        self.other.feed_data(self.conv(b'E' * n))

    async def other_read(self, n: int) -> None:
        assert self.other is not None
        await asyncio.wait_for(self.other.readexactly(n), 5)

    async def apply(self, group: List[Tuple]) -> List[Tuple]:
        for a in group:
            if a[0] == 'd':
                self.chan.accept_data(self.conv(a[1]))
            elif a[0] == 'f':
                self.reader.feed_data(self.conv(a[1]))
            elif a[0] == 'e':
                self.chan.accept_eof()
            elif a[1] == 0:
                self.session.soft_eof_received()
            elif a[1] == 1:
                self.session.break_received(7)
            elif a[1] == 2:
                self.session.signal_received('INT')
            else:
                self.session.terminal_size_changed(80, 24, 0, 0)
        return list(group)


class WireFeeder(Feeder):
    """reader and raw peer are the two ends of a real channel (see `Wire.open`); `window` is what the reader's
    side advertised when the channel was opened.  The peer conforms to it (see the module docstring)."""

    def __init__(self, reader: Any, peer_chan: Any, window: int, text: bool = False, hub: Any = None):
        self.reader, self.peer, self.text, self.hub = reader, peer_chan, text, hub
        self.credit = Credit(window, peer_chan)
        self.pending: List[Tuple] = []

    def has_pending(self) -> bool:
        return bool(self.pending)

    def _emit(self, a: Tuple) -> None:
        if a[0] == 'd':
            self.peer.send_packet(MSG_CHANNEL_DATA, String(a[1]))
        elif a[0] == 'e':
            self.peer.write_eof()
        elif a[0] == 'x' and a[1] == 1:
            self.peer.send_break(7)
        elif a[0] == 'x' and a[1] == 2:
            self.peer.send_signal('INT')
        elif a[0] == 'x' and a[1] == 3:
            self.peer.change_terminal_size(80, 24)
        else:
            raise ValueError('arrival not expressible on the wire: %r' % (a,))

    async def apply(self, group: List[Tuple]) -> List[Tuple]:
        for a in group:
            if a[0] not in 'dex' or (a[0] == 'x' and a[1] not in (1, 2, 3)):
                raise ValueError('arrival not expressible on the wire: %r' % (a,))
        self.pending += list(group)
        sent: List[Tuple] = []
        while self.pending:
            a = self.pending[0]
            if a[0] == 'd' and a[1]:
                room = self.credit.left()
                if room <= 0:
                    break
                part = a[1][:room]
                self._emit(('d', part))
                self.credit.take(len(part))
                sent.append(('d', part))
                if len(part) < len(a[1]):
                    self.pending[0] = ('d', a[1][room:])
                    break
            else:
                self._emit(a)
                sent.append(a)
            self.pending.pop(0)
        return sent

    def send_hostile(self, over: int, fill: int = 0x5a) -> bytes:
        """a DATA packet that exceeds what is left of the advertised window by `over` bytes"""
        data = bytes([fill]) * (max(0, self.credit.left()) + over)
        self.peer.send_packet(MSG_CHANNEL_DATA, String(data))
        self.credit.take(len(data))
        return data

    async def settle(self) -> None:
        if self.hub is not None:        # transport bytes may be re-chunked: wait until the link is idle
            for _ in range(5000):
                if not (self.hub.queues[pair.C2S] or self.hub.queues[pair.S2C]):
                    break
                await asyncio.sleep(0)
        await pair.settle(14)


def make_separator(t: Tuple, text: bool) -> Tuple[Any, Dict[str, Any]]:
    conv = (lambda b: b.decode('latin-1')) if text else (lambda b: b)
    if t[0] == 'V':
        return conv(t[1]), {}
    if t[0] == 'U':
        return [conv(s) for s in t[1]], {}
    pat = b'|'.join(re.escape(s) for s in t[2])
    return re.compile(conv(pat)), {'max_separator_len': t[1]}


async def run_script(feeder: Feeder, toks: Sequence[Tuple],
                     arrivals_independent: bool = False) -> Tuple[List[str], List[Tuple]]:
    """Run a token script against feeder.reader; returns (one canonical result string per op, realized script).
    A call waits for the groups that follow it up to the next call (the Lean driver reads scripts the same way).
    With arrivals_independent=True a waiting call is also given the groups scheduled after later calls (the peer
    keeps sending whatever the application does): used by the oracle, where every call must eventually return.
    The realized script has the calls where they were made and, as `G` tokens, what the peer really handed over at
    each step: a window-conforming peer holds back what does not fit and sends it (as a group of its own, followed
    by a loop settle like any other group) once the receiver has re-opened the window."""
    out: List[str] = []
    real: List[Tuple] = []
    r = feeder.reader
    i = 0
    toks = list(toks)

    async def feed(group: Optional[List[Tuple]]) -> bool:
        """group None: only what the peer still holds"""
        sent = await feeder.apply(group if group is not None else [])
        if sent or (group is not None and not group):
            real.append(('G', sent))
            await feeder.settle()
        elif group is not None:
            await feeder.settle()
        return bool(sent)

    while i < len(toks):
        t = toks[i]
        i += 1
        if t[0] == 'G':
            await feed(t[1])
            while feeder.has_pending() and await feed(None):
                pass
            continue
        real.append(t)
        if t[0] == 'Q':
            out.append('eof=%d' % (1 if r.at_eof() else 0))
            continue
        if t[0] == 'O':
            feeder.other_arrives(t[1])      # type: ignore
            await feeder.settle()
            continue
        if t[0] == 'T':
            await feeder.other_read(t[1])   # type: ignore
            await feeder.settle()
            continue
        if t[0] == 'R':
            coro = r.read(t[1])
        elif t[0] == 'X':
            coro = r.readexactly(t[1])
        elif t[0] == 'L':
            coro = r.readline()
        else:
            sep, kw = make_separator(t, feeder.text)
            coro = r.readuntil(sep, **kw)
        task = asyncio.ensure_future(coro)
        await feeder.settle()
        while not task.done():
            if feeder.has_pending() and await feed(None):
                continue
            if i < len(toks) and toks[i][0] == 'G':
                j = i
            elif arrivals_independent:
                j = next((k for k in range(i, len(toks)) if toks[k][0] == 'G'), -1)
                if j < 0:
                    break
            else:
                break
            g = toks.pop(j)
            await feed(g[1])
        if not task.done():
            task.cancel()
            try:
                await task
            except BaseException:       # noqa: BLE001
                pass
            out.append('blocked')
            break
        try:
            out.append('ok:' + hx(_b(task.result())))
        except BaseException as e:      # noqa: BLE001
            out.append(canon_exc(e))
    return out, real


# ---------------------------------------------------------------------------
# real channels


class Wire:
    """one real connection; `open(kind, limit)` gives a (reader, raw peer channel) pair on a fresh channel"""

    def __init__(self) -> None:
        self.procs: List[Any] = []
        self.c: Any = None
        self.s: Any = None
        self.hub: Any = None
        self._waiters: List[asyncio.Future] = []

    async def start(self, chunker: Any = None, server_window: int = 2 ** 21) -> None:
        self.server_window = server_window

        async def handler(process: Any) -> None:
            self.procs.append(process)
            if self._waiters:
                self._waiters.pop(0).set_result(process)
            await asyncio.sleep(3600)
        self.c, self.s, self.hub = await pair.make_pair(
            server_opts=dict(process_factory=handler, encoding=None, window=server_window, max_pktsize=32768),
            chunker=chunker)

    async def open(self, kind: str, limit: int) -> Tuple[Any, Any, Any]:
        """returns (reader, raw peer channel, client process)"""
        fut = asyncio.get_event_loop().create_future()
        self._waiters.append(fut)
        cp = await self.c.create_process('x', encoding=None, window=limit if kind == 'client' else 2 ** 21,
                                         max_pktsize=32768)
        sp = await asyncio.wait_for(fut, 10)
        await pair.settle(6)
        if kind == 'client':
            return cp.stdout, sp.channel, cp
        return sp.stdin, cp.channel, cp

    async def open_feeder(self, kind: str, limit: int) -> Tuple['WireFeeder', Any]:
        """(feeder with a window-conforming raw peer, client process); in server mode the reader's window is the
        one this connection's server was started with"""
        reader, peer, cp = await self.open(kind, limit)
        return WireFeeder(reader, peer, limit if kind == 'client' else self.server_window, hub=self.hub), cp

    def alive(self) -> bool:
        try:
            return self.c is not None and not self.c.is_closed() and not self.s.is_closed()
        except Exception:       # noqa: BLE001
            return False

    async def stop(self) -> None:
        if self.c is not None:
            self.c.abort()
        await pair.settle(10)


class RigError(Exception):
    """no channel could be opened even on a fresh connection"""


class Rig:
    """Keeps a `Wire` usable across many scenarios: a fresh connection after `per_conn` channels, when the server's
    window has to change, and whenever the current one has died (a scenario in which the code under test - or a
    hostile peer scenario - closed the connection must not take the following scenarios down with it)."""

    def __init__(self, chunker_factory: Optional[Callable[[int], Any]] = None, per_conn: int = 40):
        self.chunker_factory, self.per_conn = chunker_factory, per_conn
        self.w: Optional[Wire] = None
        self.n = 0
        self.conns = 0
        self.reopened_dead = 0

    async def _restart(self, server_window: int) -> None:
        await self.close()
        self.w = Wire()
        chunker = self.chunker_factory(self.conns) if self.chunker_factory else None
        self.conns += 1
        self.n = 0
        await asyncio.wait_for(self.w.start(chunker=chunker, server_window=server_window), 20)

    async def feeder(self, kind: str, limit: int) -> Tuple['WireFeeder', Any]:
        last: Optional[BaseException] = None
        for _attempt in range(2):
            try:
                swin = limit if kind == 'server' else 2 ** 21
                if self.w is not None and not self.w.alive():
                    self.reopened_dead += 1
                if self.w is None or not self.w.alive() or self.n >= self.per_conn or \
                        (kind == 'server' and self.w.server_window != swin):
                    await self._restart(swin)
                assert self.w is not None
                self.n += 1
                return await self.w.open_feeder(kind, limit)
            except (asyncssh.Error, asyncio.TimeoutError, OSError, AssertionError) as e:
                last = e
                await self.close()
        raise RigError('%s: %s' % (type(last).__name__, last))

    @property
    def hub(self) -> Any:
        return self.w.hub if self.w is not None else None

    def alive(self) -> bool:
        return self.w is not None and self.w.alive()

    async def close(self) -> None:
        if self.w is not None:
            try:
                await self.w.stop()
            except Exception:       # noqa: BLE001
                pass
            self.w = None


# ---------------------------------------------------------------------------
# process layer: raw peer against a real SSHClientProcess


class Sink(io.BytesIO):
    """BytesIO that remembers what it held when it was closed"""

    def __init__(self) -> None:
        super().__init__()
        self.final: Optional[bytes] = None

    def close(self) -> None:
        if self.final is None:
            self.final = self.getvalue()
        super().close()

    def content(self) -> bytes:
        return self.final if self.final is not None else self.getvalue()


def canon_proc(res: Dict[str, Any]) -> str:
    """same format as the Lean driver's answer to a `P` line"""
    w = res['wait']
    o = lambda x: '-' if x is None else str(x)      # noqa: E731
    if w is None:
        ws = 'wait=pending'
    elif isinstance(w, str):
        ws = 'wait=' + w
    else:
        st, sig, out, err = w
        sigc = None if sig is None else {v: k for k, v in SIGNALS.items()}.get(sig, 99)
        ws = 'wait=%s,%s,%s,%s' % (o(st), o(sigc), hx(out), hx(err))
    ws += ' target=%s,%d' % (hx(res['target']), 1 if res['target_closed'] else 0)
    if 'redirect' in res:
        ws += ' redirect=' + res['redirect']
    return ws


def proc_line(limit: int, evs: Sequence[Tuple]) -> str:
    """the model's view of the event list: SSHConnection.disconnect() (event x0) closes the peer's channels first,
    so a CHANNEL_CLOSE travels in front of the DISCONNECT unless the channel was closed already"""
    out, closed = [], False
    for e in evs:
        if e[0] == 'c':
            closed = True
        if e == ('x', 0) and not closed:
            out.append('c')
            closed = True
        out.append(pev_str(e))
    return 'P %d %s' % (limit, ' '.join(out))


def pev_str(ev: Tuple) -> str:
    k = ev[0]
    if k in 'dD':
        return k + hx(ev[1])
    if k in 'vV':
        return '%s%d' % (k, ev[1])
    if k in 'sS':
        return '%s%d' % (k, ev[1])
    if k in 'xrq':
        return '%s%d' % (k, ev[1])
    return k


def parse_pev(x: str) -> Tuple:
    if x[0] in 'dD':
        return (x[0], unhx(x[1:]))
    if x[0] in 'sSxrqvV':
        return (x[0], int(x[1:]))
    return (x,)


SIGNALS = {1: 'HUP', 2: 'INT', 9: 'KILL', 15: 'TERM'}


WIRE_EVENTS = 'dDesScvV'
HOSTILE_FILL = 0x5a


async def run_proc_events(limit: int, evs: Sequence[Tuple], chunker: Any = None) -> Dict[str, Any]:
    """Raw peer plays `evs` against a real client process on a fresh connection.  Returns observables, among them
    `events`: the realized event list.  The peer conforms to the client's receive window (= `limit`): wire events
    are sent in script order, a data event that does not fit is split at the window edge and the rest of it - and
    every wire event scripted after it - waits until a loop turn (`t`) has brought a WINDOW_ADJUST; what is still
    held when the script ends is sent as soon as the window allows (each round followed by a `t`), the rest is
    never sent.  Application events (`w`, `r`), loop turns and disconnects (`x`) happen where the script has them.
    Events `v<n>` (stdout) / `V<n>` (stderr) are the explicit hostile ones: one packet of HOSTILE_FILL bytes that
    exceeds what is left of the window by n bytes (`hostile` in the result lists their sizes); with n = 0 the
    packet fills the window to the last byte, which is conforming: it is realized as an ordinary d/D event."""
    got: List[Any] = []

    sink2: Dict[str, Any] = {'data': b'', 'eof': False}

    async def handler(process: Any) -> None:
        if process.command == 'sink':       # the target of a `q` event: another process, its stdin is the target
            try:
                while True:
                    d = await process.stdin.read(65536)
                    if not d:
                        break
                    sink2['data'] += d
                sink2['eof'] = True
            except Exception:       # noqa: BLE001
                pass
            await asyncio.sleep(3600)
        got.append(process)
        await asyncio.sleep(3600)
    lost: List[Any] = []

    class Client(asyncssh.SSHClient):
        def connection_lost(self, exc: Optional[Exception]) -> None:
            lost.append(exc)
    c, sconn, hub = await pair.make_pair(server_opts=dict(process_factory=handler, encoding=None), chunker=chunker,
                                         client_opts=dict(client_factory=Client))
    res: Dict[str, Any] = {}
    try:
        p = await c.create_process('x', encoding=None, window=limit, max_pktsize=32768)
        for _ in range(40):
            if got:
                break
            await asyncio.sleep(0)
        await pair.settle(8)
        sch = got[0].channel
        credit = Credit(limit, sch)
        closed_once = False
        wait_task: Optional[asyncio.Task] = None
        sink: Optional[Sink] = None
        p2: Any = None
        pending: List[Tuple] = []
        realized: List[Tuple] = []
        hostile: List[int] = []
        gone = False
        unsynced = False        # data sent since the last loop turn
        inflight = False        # anything sent since the last loop turn

        def raw(pkttype: int, *args: bytes) -> None:
            sconn.send_packet(pkttype, UInt32(0), *args)

        def put(ev: Tuple) -> None:
            nonlocal closed_once, inflight
            inflight = True
            k = ev[0]
            if k == 'd':
                raw(MSG_CHANNEL_DATA, String(ev[1]))
            elif k == 'D':
                raw(MSG_CHANNEL_EXTENDED_DATA, UInt32(1), String(ev[1]))
            elif k == 'e':
                raw(MSG_CHANNEL_EOF)
            elif k == 's':
                raw(MSG_CHANNEL_REQUEST, String('exit-status'), Boolean(False), UInt32(ev[1]))
            elif k == 'S':
                raw(MSG_CHANNEL_REQUEST, String('exit-signal'), Boolean(False), String(SIGNALS.get(ev[1], 'USR1')),
                    Boolean(False), String(''), String(''))
            elif k == 'c':
                if not closed_once:
                    closed_once = True
                    sch.close()     # emits CHANNEL_CLOSE now (nothing is buffered on this side)
                else:
                    raw(MSG_CHANNEL_CLOSE)

        def flush() -> bool:
            nonlocal unsynced
            progressed = False
            while pending:
                ev = pending[0]
                if ev[0] in 'dD' and ev[1] and not (gone or sconn.is_closed()):
                    room = credit.left()
                    if room <= 0:
                        break
                    part = ev[1][:room]
                    put((ev[0], part))
                    credit.take(len(part))
                    realized.append((ev[0], part))
                    progressed = unsynced = True
                    if len(part) < len(ev[1]):
                        pending[0] = (ev[0], ev[1][room:])
                        break
                elif ev[0] in 'vV' and unsynced and not (gone or sconn.is_closed()):
                    # an adjust for what was just sent may be on its way: only after a loop turn is what the peer
                    # believes to be left of the window what the receiver believes, too
                    break
                elif ev[0] in 'vV':
                    data = bytes([HOSTILE_FILL]) * (max(0, credit.left()) + ev[1])
                    put(('d' if ev[0] == 'v' else 'D', data))
                    credit.take(len(data))
                    if ev[1] > 0:
                        hostile.append(len(data))
                        realized.append(ev)
                    elif data:
                        realized.append(('d' if ev[0] == 'v' else 'D', data))
                    progressed = True
                else:
                    put(ev)
                    realized.append(ev)
                    progressed = True
                pending.pop(0)
            return progressed

        for ev in evs:
            k = ev[0]
            if k in 'xwrq' and inflight:
                # something went out since the last loop turn (typically what the peer had held back, sent after the
                # script's own `t`): let it arrive before the application acts / the peer disconnects.  An event of
                # the model is an arrival; bytes still in flight when the link is cut are not a scenario here.
                await pair.settle(14)
                unsynced = inflight = False
                realized.append(('t',))
            if k in WIRE_EVENTS:
                pending.append(ev)
                flush()
            elif k == 't':
                await pair.settle(14)
                unsynced = inflight = False
                realized.append(ev)
                flush()
            elif k == 'x':
                if ev[1]:
                    hub.cut_transport()
                else:
                    sconn.disconnect(11, 'bye')     # closes its channels (CHANNEL_CLOSE), then DISCONNECT
                    closed_once = True
                gone = True
                realized.append(ev)
                await pair.settle(14)
                flush()     # goes nowhere
            elif k == 'w':
                if wait_task is None:
                    wait_task = asyncio.ensure_future(p.wait())
                realized.append(ev)
                await pair.settle(6)
            elif k == 'r':
                if sink is None and p2 is None:
                    sink = Sink()
                    try:
                        await p.redirect_stdout(sink, recv_eof=bool(ev[1]))
                    except Exception as e:      # noqa: BLE001
                        res['redirect'] = 'raised:' + type(e).__name__
                realized.append(ev)
                await pair.settle(6)
            elif k == 'q':
                # redirect into another process's stdin: an SSHWriter target, which (unlike a file object) does not
                # look at recv_eof itself
                if sink is None and p2 is None:
                    p2 = await c.create_process('sink', encoding=None)
                    await pair.settle(8)
                    try:
                        await p.redirect_stdout(p2.stdin, recv_eof=bool(ev[1]))
                    except Exception as e:      # noqa: BLE001
                        res['redirect'] = 'raised:' + type(e).__name__
                realized.append(ev)
                await pair.settle(14)
        # the peer goes on sending what it holds as the window re-opens; nobody acts on the client side any more
        for _ in range(200):
            if realized and realized[-1] != ('t',):
                await pair.settle(14)
                unsynced = inflight = False
                realized.append(('t',))
            if not (pending and flush()):
                break
        await pair.settle(14)
        if wait_task is not None and wait_task.done():
            try:
                r = wait_task.result()
                sig = r.exit_signal
                st = r.exit_status
                if sig is not None and st == -1:
                    st = None       # get_exit_status() reports -1 when only a signal was received
                res['wait'] = (st, None if sig is None else sig[0], bytes(r.stdout), bytes(r.stderr))
            except BaseException as e:      # noqa: BLE001
                res['wait'] = 'raised:' + type(e).__name__
                res['wait_exc'] = e
        else:
            res['wait'] = None
            if wait_task is not None:
                wait_task.cancel()
        if p2 is not None:
            await pair.settle(20)
            res['target'] = bytes(sink2['data'])
            res['target_closed'] = bool(sink2['eof'])
            res['target_kind'] = 'process'
        else:
            res['target'] = sink.content() if sink is not None else b''
            res['target_closed'] = bool(sink is not None and sink.closed)
        res['events'] = realized
        res['unsent'] = list(pending)
        res['hostile'] = hostile
        res['closed'] = bool(c.is_closed())
        res['conn_lost'] = None if not lost else ('clean' if lost[0] is None else
                                                  '%s:%s' % (type(lost[0]).__name__, getattr(lost[0], 'reason', '')))
    finally:
        c.abort()
        await pair.settle(10)
    return res
