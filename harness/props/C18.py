"""C18 — Config files resolve like OpenSSH, and never expand unsafe input.

Lean: Model/Config.lean (shlex, `=` splitting, wildcard patterns, token / environment expansion, unsafe user
filter), Model/ConfigEval.lean (setters, Host/Match, Include over a file map, parse/load, the two-pass
connection flow), Gen/C18.lean (option tables and regex sources regenerated from the checked tree),
Props/C18.lean (first_value_wins, list_options_accumulate, include_is_inlining, match_semantics, expand_spec,
unsafe_user_never_expanded and the witnesses of what does not hold).
Correspondence: generated configuration programs x targets, real `SSHClientConfig` / `SSHServerConfig`
(and the real `asyncssh.connect` flow for a sample) versus the model; unit operations (shlex, `=` splitting,
int(), wildcard patterns, expansion, the unsafe-user regex, Include globbing) versus CPython.
Oracle: the property on the real code — agreement with `ssh -G` on generated files, metamorphic first-value /
accumulation / inlining relations, hostile user names against server templates, config objects based on one another
(_c18_chain: reused options object, second pass of connect(), server reload, `none` values in prepare()).
"""

from __future__ import annotations

import hashlib
import json
import os
import re
import shlex
import socket
import subprocess
from typing import Any, Dict, List, Optional, Tuple

import asyncssh
from asyncssh import config as cfgmod
from asyncssh.config import SSHClientConfig, SSHServerConfig

from vlib import (Ctx, CorrResult, OracleResult, Failure, Disagreement, Hist, hx, unhx)
from props import _c18_translate as tr
from props import _c18_gen as g
from props import _c18_chain as chain

PROPERTY = 'C18'
MANIFEST = {
    'text': 'Lean 4 theorems about an executable model of asyncssh/config.py whose option tables, conditional / '
            'no-split / percent-expand sets and regex sources are regenerated from the checked tree on every run: for '
            'EVERY config text, file map, target and include depth a first-value option outside _percent_expand '
            'holds the first value logged for it in reading order through includes (first_value_wins), append '
            'options hold the concatenation of everything logged (list_options_accumulate), Match sets the block '
            'state to the conjunction of its possibly negated criteria and Host to "some pattern matches and no '
            'negated one does" (match_semantics, host_semantics), each expansion pass replaces every reference once, '
            'left to right, without rescanning (expand_spec), a user name accepted by the server filter contains no '
            'separator, is not "..", and leaves the component structure of every path template unchanged '
            '(safe_user_spec, unsafe_user_never_expanded), and an Include equals the pasted lines when no expansion '
            'is pending (include_is_inlining_partial). Witness theorems pin the places where the faithful model, '
            'and the code, leave the property (expansion at the end of every parse() call, restart of the final '
            'pass, the empty user name, names assembling ${..} across substitutions) and, as pre-fix witnesses, the three '
            'defects repaired by fix commits (glob order / dotfiles, "=" kept for no-split options, user name "."). '
            'Config objects based on one another are modelled as values: an inherited first-value option survives the '
            'second canonical/final pass (second_pass_keeps_inherited), an inherited string is not expanded again '
            '(inherited_value_not_expanded_again), connections made from one options object do not see one another '
            '(connections_isolated), a wildcard does not match a hidden directory (hiddenOK_spec); the four repaired '
            'defects are kept as PreFix definitions with witnesses (second_pass_dropped_options_prefix_witness, '
            'inherited_reexpansion_prefix_witness, shared_list_prefix_witness, include_hidden_directory_witness). '
            'The model is tied to the code by '
            'generated configuration programs run through the real classes and the real connect() flow, and the '
            'property itself is evaluated on the real code against `ssh -G` and by metamorphic relations.',
    'note': 'ASCII config text; CIDR patterns, Match localnetwork, ~user and [..] globs are outside the model; the '
            'OpenSSH 9.2 `ssh -G` is the reference for '
            'the constructs both sides support; known deviations are reported by signature, see known_findings.json',
    'technique': 'Lean 4 proof by induction over config lines and include depth (generic invariant principle) + '
                 'tables regenerated from the source + differential correspondence + ssh -G / metamorphic / '
                 'hostile-user oracle',
}
LEAN_PROPS = ['AsyncsshModel.Props.C18']
DRIVER = 'Drivers/C18.lean'
TRUSTED = [
    'CPython shlex / re / pathlib.glob / fnmatch semantics as transcribed in Model/Config.lean (validated '
    'differentially on every run)',
    'OpenSSH 9.2 `ssh -G` as the reference resolver for the constructs both sides support',
    'pattern.py CIDR matching (property C17) is not modelled: Match Address patterns are wildcards only',
]
ASSUMPTIONS = [
    'configuration text is valid UTF-8 without non-ASCII whitespace, cased non-ASCII letters or non-ASCII digits',
    'no carriage returns in config files; Include patterns use * and ? only, no ~user, no //',
    'canonicalisation (DNS) results are an input: the flow is modelled from the canonical host name on',
    'the Lean model is a pure function of (inherited options, files, target): the sharing of mutable lists '
    'between config objects that the repaired code no longer has is judged by the oracle (_c18_chain), not by the model',
]

MISSING = object()


def translate(ctx: Ctx) -> Dict[str, Any]:
    return tr.translate()


# ---------------------------------------------------------------------------------------------------
# cases: a config program + target, materialised below a scratch directory


def case_paths(base: str) -> Dict[str, str]:
    home = os.path.join(base, 'home')
    return {'base': base, 'home': home, 'dir': os.path.join(home, '.ssh')}


def subst(text: str, base: str) -> str:
    return text.replace('@ROOT@', base)


def materialise(case: Dict[str, Any], base: str) -> None:
    p = case_paths(base)
    os.makedirs(p['dir'], exist_ok=True)
    for rel, text in case['files'].items():
        path = os.path.join(base, rel)
        os.makedirs(os.path.dirname(path), exist_ok=True)
        with open(path, 'w', encoding='utf-8', newline='\n') as f:
            f.write(subst(text, base))


def walk_files(root: str) -> List[str]:
    """regular files below root in depth-first scandir order (the order pathlib.glob yields them)"""
    out: List[str] = []
    try:
        entries = list(os.scandir(root))
    except OSError:
        return out
    for e in entries:
        if e.is_dir(follow_symlinks=False):
            out += walk_files(e.path)
        elif e.is_file():
            out.append(e.path)
    return out


class EnvPatch:
    """HOME / test variables for the real code while a case runs"""

    def __init__(self, home: str):
        self.new = dict(g.ENV_VARS)
        self.new['HOME'] = home
        self.old: Dict[str, Optional[str]] = {}

    def __enter__(self) -> 'EnvPatch':
        for k, v in self.new.items():
            self.old[k] = os.environ.get(k)
            os.environ[k] = v
        for k in ('NOPE',):
            self.old[k] = os.environ.get(k)
            os.environ.pop(k, None)
        return self

    def __exit__(self, *a: Any) -> None:
        for k, v in self.old.items():
            if v is None:
                os.environ.pop(k, None)
            else:
                os.environ[k] = v


def render_value(v: Any) -> str:
    if v is True:
        return 'b1'
    if v is False:
        return 'b0'
    if isinstance(v, int):
        return 'i%d' % v
    if isinstance(v, str):
        return 's' + hx(v.encode('utf-8', 'surrogateescape'))
    if v is None:
        return 'n'
    if isinstance(v, list):
        return 'l' + ','.join(hx(x.encode('utf-8', 'surrogateescape')) for x in v)
    if isinstance(v, tuple) and len(v) == 2:
        def part(x: Any) -> str:
            return 'd' if x == () else 'n' if x is None else 's' + hx(x.encode())
        return 'r' + part(v[0]) + ',' + part(v[1])
    return 'other:' + type(v).__name__


def render_config(cfg: Any, cls: Any) -> str:
    items = []
    for _l, (name, _h) in sorted(cls._handlers.items()):
        v = cfg.get(name, MISSING)
        if v is not MISSING:
            items.append(name + '=' + render_value(v))
    return (';'.join(sorted(items)) if items else '-') + ' final=' + ('1' if cfg.has_match_final() else '0')


def classify_exc(e: BaseException) -> str:
    if isinstance(e, cfgmod.ConfigParseError):
        return 'exc:parse'
    if isinstance(e, asyncssh.misc.IllegalUserName):
        return 'exc:illegaluser'
    if isinstance(e, IndexError):
        return 'exc:index'
    if isinstance(e, RecursionError):
        return 'exc:depth'
    if isinstance(e, FileNotFoundError):
        return 'exc:io'
    return 'exc:' + type(e).__name__


def impl_run(case: Dict[str, Any], base: str) -> str:
    """the real classes on a materialised case"""
    p = case_paths(base)
    t = case['target']
    mains = [os.path.join(base, m) for m in case['main']]
    with EnvPatch(p['home']):
        try:
            if case['cls'] == 'client':
                user = t['user'] if t.get('user') is not None else ()
                port = t['port'] if t.get('port') is not None else ()
                if case.get('mode') == 'resolve':
                    # what connection._connect does: first pass, then (canonical host known or a
                    # `Match final` seen) a second load with reload=True
                    c1 = SSHClientConfig.load(None, mains, False, False, False, g.LOCAL_USER, user, t['host'], port)
                    canon = t.get('canon')
                    if canon is not None or c1.has_match_final():
                        c1 = SSHClientConfig.load(c1, mains, True, canon is not None, c1.has_match_final(),
                                                  g.LOCAL_USER, user, canon if canon is not None else t['host'],
                                                  port)
                    cfg = c1
                else:
                    cfg = SSHClientConfig.load(None, mains, False, bool(t.get('canonical')), bool(t.get('final')),
                                               g.LOCAL_USER, user, t['host'], port)
                return render_config(cfg, SSHClientConfig)
            else:
                cfg = SSHServerConfig.load(None, mains, False, False, False, t['laddr'], t['lport'], t['user'],
                                           t['chost'], t['addr'])
                return render_config(cfg, SSHServerConfig)
        except RecursionError as e:
            return classify_exc(e)
        except Exception as e:
            return classify_exc(e)


def model_line(case: Dict[str, Any], base: str, fuel: int = 40) -> str:
    p = case_paths(base)
    t = case['target']
    b = lambda s: hx(s.encode('utf-8', 'surrogateescape'))  # noqa: E731
    kv = ['load', 'cls=' + ('c' if case['cls'] == 'client' else 's'), 'fuel=%d' % fuel,
          'mode=' + case.get('mode', 'load'),
          'home=' + b(p['home']), 'dir=' + b(p['dir']), 'lhost=' + b(socket.gethostname()),
          'uid=' + b(str(os.getuid()))]
    if case['cls'] == 'client':
        kv += ['host=' + b(t['host']), 'luser=' + b(g.LOCAL_USER),
               'canonical=%d' % bool(t.get('canonical')), 'final=%d' % bool(t.get('final'))]
        if t.get('canon') is not None:
            kv.append('canon=' + b(t['canon']))
        if t.get('user') is not None:
            kv.append('init=' + b('User') + ':s' + b(t['user']))
        if t.get('port') is not None:
            kv.append('init=' + b('Port') + ':i%d' % t['port'])
    else:
        kv += ['laddr=' + b(t['laddr']), 'lport=' + b(str(t['lport'])), 'user=' + b(t['user']),
               'shost=' + b(t['chost'] or t['addr']), 'addr=' + b(t['addr'])]
    for k, v in g.ENV_VARS.items():
        kv.append('env=' + b(k) + ':' + b(v))
    kv.append('env=' + b('HOME') + ':' + b(p['home']))
    for f in walk_files(base):
        with open(f, 'rb') as fh:
            kv.append('file=' + hx(os.fsencode(f)) + ':' + hx(fh.read()))
    for m in case['main']:
        kv.append('path=' + b(os.path.join(base, m)))
    return ' '.join(kv)


_CMARK = re.compile(rb'<<C:([0-9a-f]*|-)>>')


def canon_model(out: str) -> str:
    """sort the model's option list by name and resolve the symbolic %C hash"""
    if out.startswith('exc:') or ' final=' not in out:
        return out
    body, _, fin = out.rpartition(' final=')
    if body == '-':
        return out
    items = []
    for it in body.split(';'):
        name, _, val = it.partition('=')

        def fix(h: str) -> str:
            raw = unhx(h)
            raw = _CMARK.sub(lambda m: hashlib.sha1(unhx(m.group(1).decode())).hexdigest().encode(), raw)
            return hx(raw)
        if val[:1] == 's':
            val = 's' + fix(val[1:])
        elif val[:1] == 'l' and len(val) > 1:
            val = 'l' + ','.join(fix(x) for x in val[1:].split(','))
        items.append(name + '=' + val)
    return ';'.join(sorted(items)) + ' final=' + fin


# ---------------------------------------------------------------------------------------------------
# case generators


def gen_target(rng: Any) -> Dict[str, Any]:
    return {'host': rng.choice(g.HOSTS),
            'user': rng.choice(g.USERS) if rng.random() < 0.4 else None,
            'port': rng.choice([22, 2222, 8022]) if rng.random() < 0.25 else None}


def gen_client_case(rng: Any, ssh_safe: bool = False, malformed: bool = False, tokens: bool = True) -> Dict[str, Any]:
    files: Dict[str, str] = {}
    inc_names = []
    # included files: <home>/.ssh/inc/*.conf, <base>/abs/*.conf, one nested level
    n_inc = rng.choice([0, 0, 1, 2, 3, 4])
    leaf_refs: List[str] = []
    for i in range(n_inc):
        where = rng.choice(['home/.ssh/inc', 'abs'])
        name = rng.choice(['a', 'b', 'c', 'zz', 'm1', 'k']) + ('%d' % i) + '.conf'
        rel = where + '/' + name
        inc_names.append(rel)
    for rel in inc_names:
        nested = [r for r in leaf_refs if rng.random() < 0.5]
        files[rel] = '\n'.join(g.gen_lines(rng, rng.randint(1, 6), ssh_safe, nested, tokens=tokens)) + '\n'
        leaf_refs.append(include_ref(rng, rel, ssh_safe, exact=True))
    refs = []
    for rel in inc_names:
        refs.append(include_ref(rng, rel, ssh_safe, exact=False))
    if not ssh_safe and rng.random() < 0.2:
        refs.append(rng.choice(['nothing-here/*.conf', '@ROOT@/abs/none*.conf']))
    lines = g.gen_lines(rng, rng.randint(2, 14), ssh_safe, refs, tokens=tokens)
    if malformed:
        for _ in range(rng.choice([1, 1, 2])):
            lines.insert(rng.randint(0, len(lines)), rng.choice(g.MALFORMED))
    files['main.conf'] = '\n'.join(lines) + ('\n' if rng.random() < 0.9 else '')
    main = ['main.conf']
    if not ssh_safe and rng.random() < 0.1:
        files['second.conf'] = '\n'.join(g.gen_lines(rng, rng.randint(1, 5), ssh_safe, refs, tokens=tokens)) + '\n'
        main.append('second.conf')
    t = gen_target(rng)
    case = {'cls': 'client', 'files': files, 'main': main, 'target': t}
    r = rng.random()
    if r < 0.5:
        case['mode'] = 'resolve'
        if not ssh_safe and rng.random() < 0.2:
            t['canon'] = rng.choice(['web1.example.com', 'h1.example.com', t['host']])
    else:
        case['mode'] = 'load'
        t['canonical'] = rng.random() < 0.3 and not ssh_safe
        t['final'] = rng.random() < 0.3 and not ssh_safe
    return case


def include_ref(rng: Any, rel: str, ssh_safe: bool, exact: bool) -> str:
    """an Include argument that resolves to (at least) the file `rel`"""
    d, name = rel.rsplit('/', 1)
    stem = name[:-5]
    pat = name if (exact or rng.random() < 0.4) else rng.choice(['*.conf', stem[0] + '*.conf', '?' + stem[1:] + '.conf',
                                                                  '*'])
    if d == 'abs':
        return '@ROOT@/abs/' + pat
    if ssh_safe:
        return '@ROOT@/home/.ssh/inc/' + pat
    return rng.choice(['inc/' + pat, '~/.ssh/inc/' + pat, '@ROOT@/home/.ssh/inc/' + pat, './inc//' + pat])


def gen_server_case(rng: Any, user: Optional[str] = None, malformed: bool = False) -> Dict[str, Any]:
    files: Dict[str, str] = {}
    refs: List[str] = []
    for i in range(rng.choice([0, 0, 0, 1, 2])):
        rel = 'abs/s%d.conf' % i
        files[rel] = '\n'.join(g.gen_lines(rng, rng.randint(1, 4), False, [], server=True)) + '\n'
        refs.append('@ROOT@/abs/' + rng.choice(['s%d.conf' % i, '*.conf']))
    lines = g.gen_lines(rng, rng.randint(2, 10), False, refs, server=True)
    if malformed:
        lines.insert(rng.randint(0, len(lines)), rng.choice(g.MALFORMED))
    files['sshd.conf'] = '\n'.join(lines) + '\n'
    t = {'laddr': rng.choice(['127.0.0.1', '10.0.0.1', '']), 'lport': rng.choice([22, 2222, 0]),
         'user': user if user is not None else (g.gen_hostile_user(rng) if rng.random() < 0.5 else rng.choice(g.USERS)),
         'chost': rng.choice(g.HOSTS + ['']), 'addr': rng.choice(['10.0.0.5', '192.168.1.9', ''])}
    return {'cls': 'server', 'files': files, 'main': ['sshd.conf'], 'target': t}


# ---------------------------------------------------------------------------------------------------
# correspondence


def unit_ops(ctx: Ctx, rng: Any, hist: Hist) -> Tuple[List[str], List[Tuple[str, Any, str]]]:
    lines: List[str] = []
    expect: List[Tuple[str, Any, str]] = []

    def lst(xs: List[str]) -> str:
        return ','.join(hx(x.encode()) for x in xs) if xs else '[]'

    # shlex + `=` splitting on generated and malformed lines
    pool: List[str] = list(g.MALFORMED)
    for _ in range(ctx.n(300, 3000)):
        r = rng.random()
        if r < 0.5:
            pool.append(g.gen_setter(rng, False)[1])
        elif r < 0.65:
            pool.append(g.gen_match(rng, False))
        elif r < 0.75:
            pool.append(g.gen_host(rng, False))
        else:
            alphabet = ['a', 'b', ' ', '"', "'", '\\', '=', '\t', '#', '!', 'Port', ' 22', '%', '$', '{', '}', 'é', '\x0b']
            pool.append(''.join(rng.choice(alphabet) for _ in range(rng.randint(0, 10))))
    for s in pool:
        stripped = s.strip()
        lines.append('strip ' + hx(s.encode()))
        expect.append(('strip', {'s': s}, hx(stripped.encode())))
        try:
            toks = shlex.split(stripped)
            out = lst(toks)
        except ValueError:
            toks = None
            out = 'exc:parse'
        lines.append('shlex ' + hx(stripped.encode()))
        expect.append(('shlex', {'line': stripped}, out))
        hist.hit('unit:shlex:' + ('err' if toks is None else 'ok'))
        if toks:
            for cls, tag in ((SSHClientConfig, 'c'), (SSHServerConfig, 's')):
                lines.append('spliteq ' + tag + ' ' + ' '.join(hx(t.encode()) for t in toks))
                expect.append(('spliteq', {'tokens': toks, 'cls': tag}, impl_spliteq(cls, toks)))
    # int()
    ints = ['22', ' 22 ', '+5', '-5', '1_000', '1__0', '_1', '1_', '', ' ', '0x10', '007', '1 2', '٣'.encode().decode(),
            '12a', '-', '+', '--1', '+-1', '1\t', '\x0b9', '9\x1f', '1_2_3', '0', '-0', '00_0']
    for _ in range(ctx.n(100, 1000)):
        ints.append(''.join(rng.choice(['0', '1', '9', '_', '+', '-', ' ', 'a']) for _ in range(rng.randint(0, 6))))
    for s in ints:
        if not s.isascii():
            continue
        try:
            out = str(int(s))
        except ValueError:
            out = 'exc:value'
        lines.append('int ' + hx(s.encode()))
        expect.append(('int', {'s': s}, out))
    # wildcard patterns (pattern.py as used by the config reader)
    from asyncssh.pattern import WildcardPattern, WildcardPatternList
    for _ in range(ctx.n(300, 4000)):
        pat = ''.join(rng.choice(['*', '?', '?', 'a', 'b', '.', '[', ']', '!', 'h', '1', 'é']) for _ in range(rng.randint(0, 6)))
        val = ''.join(rng.choice(['a', 'b', '.', 'h', '1', '[', ']', 'é', '日']) for _ in range(rng.randint(0, 6)))
        lines.append(f'wild {hx(pat.encode())} {hx(val.encode())}')
        expect.append(('wildcard', {'pat': pat, 'val': val}, '1' if WildcardPattern(pat).matches(val) else '0'))
        pl = g.gen_pattern(rng, g.HOSTS)
        v2 = rng.choice(g.HOSTS)
        lines.append(f'patlist {hx(pl.encode())} {hx(v2.encode())}')
        expect.append(('patlist', {'pats': pl, 'val': v2}, '1' if WildcardPatternList(pl).matches(v2) else '0'))
    # token / environment expansion through the compiled regexes of the module
    toks = {'%': '%', 'h': 'HOST', 'u': '%h${C18_A}', 'd': '/home/x', 'e': ''}
    envs = dict(g.ENV_VARS)
    vals = list(g.TOKEN_VALUES) + list(g.BAD_TOKEN_VALUES)
    for _ in range(ctx.n(300, 4000)):
        vals.append(''.join(rng.choice(['%', 'h', 'u', 'd', 'e', 'q', '$', '{', '}', 'C18_A', 'C18_B', 'NOPE', '\n', 'x', '/'])
                            for _ in range(rng.randint(0, 8))))
    for v in vals:
        lines.append('exptok ' + hx(v.encode()) + ' ' + ' '.join(hx(k.encode()) + ':' + hx(x.encode()) for k, x in toks.items()))
        expect.append(('expand_tokens', {'value': v}, impl_exptok(v, toks)))
        lines.append('expenv ' + hx(v.encode()) + ' ' + ' '.join(hx(k.encode()) + ':' + hx(x.encode()) for k, x in envs.items()))
        expect.append(('expand_env', {'value': v}, impl_expenv(v, envs)))
    # the unsafe-user regex (through the public behaviour: SSHServerConfig.load raises IllegalUserName)
    users = list(g.HOSTILE_USERS) + [g.gen_hostile_user(rng) for _ in range(ctx.n(300, 4000))]
    for u in users:
        lines.append('unsafe ' + hx(u.encode()))
        expect.append(('unsafe_user', {'user': u}, impl_unsafe(u)))
        hist.hit('unit:unsafe:' + expect[-1][2])
    return lines, expect


def impl_spliteq(cls: Any, toks: List[str]) -> str:
    """the `=` handling of SSHConfig.parse observed through a probe subclass: every option name maps to a
    handler that records (option key, args)"""
    seen: List[Any] = []

    class Probe(cls):  # type: ignore
        class _H(dict):
            def __getitem__(self, key: str) -> Any:
                def handler(self_: Any, option: str, args: List[str]) -> None:
                    seen.append((key, list(args)))
                    args.clear()
                return ('x', handler)
        _handlers = _H()
        _no_split = set()       # the no-split rule is applied after the loop; observed in the load runs

        def _set_tokens(self) -> None:
            pass
    import tempfile
    line = ' '.join(shlex.quote(t) for t in toks)
    with tempfile.NamedTemporaryFile('w', suffix='.conf', delete=False) as f:
        f.write(line + '\n')
        name = f.name
    try:
        if cls is SSHClientConfig:
            Probe.load(None, name, False, False, False, 'l', (), 'h', ())
        else:
            Probe.load(None, name, False, False, False, '', 0, '', '', '')
    except IndexError:
        return 'exc:index'
    except cfgmod.ConfigParseError:
        return 'missing'          # "Missing value": the handler is not called with an empty argument list
    finally:
        os.unlink(name)
    if not seen:
        return 'exc:notcalled'
    key, args = seen[0]
    return hx(key.encode()) + ' ' + (','.join(hx(a.encode()) for a in args) if args else '[]')


def impl_exptok(v: str, toks: Dict[str, str]) -> str:
    c = SSHConfig_probe()
    c._tokens = dict(toks)
    try:
        return hx(cfgmod._token_pattern.sub(c._expand_token, v).encode())
    except cfgmod.ConfigParseError:
        return 'exc:parse'


def impl_expenv(v: str, envs: Dict[str, str]) -> str:
    with EnvPatch(os.environ.get('HOME', '/root')):
        try:
            return hx(cfgmod._env_pattern.sub(cfgmod.SSHConfig._expand_env, v).encode())
        except cfgmod.ConfigParseError:
            return 'exc:parse'


def SSHConfig_probe() -> Any:
    return cfgmod.SSHConfig(None, False, False, False)


_EMPTY_CONF: List[str] = []


def impl_unsafe(u: str) -> str:
    if not _EMPTY_CONF or not os.path.exists(_EMPTY_CONF[0]):
        import tempfile
        import atexit
        fd, path = tempfile.mkstemp(prefix='verif-C18-empty-')
        os.close(fd)
        atexit.register(lambda: os.path.exists(path) and os.unlink(path))
        _EMPTY_CONF[:] = [path]
    try:
        SSHServerConfig.load(None, _EMPTY_CONF[0], False, False, False, '', 0, u, '', '')
        return '0'
    except asyncssh.misc.IllegalUserName:
        return '1'


def glob_ops(ctx: Ctx, rng: Any, scratch: str) -> Tuple[List[str], List[Tuple[str, Any, str]]]:
    """Include resolution alone: a probe config with only Include lines, files whose text is their path"""
    lines: List[str] = []
    expect: List[Tuple[str, Any, str]] = []
    base = os.path.join(scratch, 'globworld')
    p = case_paths(base)
    names = ['home/.ssh/inc/a.conf', 'home/.ssh/inc/b.conf', 'home/.ssh/inc/.hidden.conf', 'home/.ssh/inc/zz.txt',
             'home/.ssh/top.conf', 'abs/m.conf', 'abs/a.conf', 'abs/sub/deep.conf', 'abs/sub2/deep.conf', 'abs/n',
             'abs/.hid/deep.conf', 'abs/.hid/.deep.conf', 'abs/sub-x/deep.conf', 'abs/sub/.deep.conf']
    rng.shuffle(names)
    for rel in names:
        path = os.path.join(base, rel)
        os.makedirs(os.path.dirname(path), exist_ok=True)
        with open(path, 'w') as f:
            f.write('IdentityFile ' + path + '\n')
    files = walk_files(base)
    pats = ['inc/*.conf', 'inc/*', '*.conf', '~/.ssh/inc/?.conf', '@ROOT@/abs/*.conf', '@ROOT@/abs/*/deep.conf',
            '@ROOT@/abs/sub/deep.conf', '@ROOT@/abs/*', 'inc/a.conf', './inc/b.conf', 'inc//a.conf', 'nothing/*',
            '@ROOT@/abs/s*/d*', 'inc/.h*', 'inc/*.txt', '~/.ssh/top.conf', '@ROOT@/abs/?',
            '@ROOT@/abs/.*/deep.conf', '@ROOT@/abs/.hid/*', '@ROOT@/abs/*/.d*', '@ROOT@/abs/.h*/.d*', '@ROOT@/abs/*/*']
    for pat in pats:
        pat = subst(pat, base)
        conf = os.path.join(scratch, 'globprobe.conf')
        with open(conf, 'w') as f:
            f.write('Include ' + pat + '\n')
        with EnvPatch(p['home']):
            try:
                cfg = SSHClientConfig.load(None, conf, False, False, False, 'l', (), 'h', ())
                got = cfg.get('IdentityFile') or []
                out = ','.join(hx(x.encode()) for x in got) if got else '[]'
            except Exception as e:
                out = classify_exc(e)
        lines.append('glob ' + hx(pat.encode()) + ' home=' + hx(p['home'].encode()) + ' dir=' + hx(p['dir'].encode())
                     + ' ' + ' '.join(hx(f.encode()) for f in files))
        expect.append(('include_glob', {'pattern': pat, 'dir_order': [os.path.relpath(f, base) for f in files]}, out))
    return lines, expect


def chain_ops(ctx: Ctx, rng: Any, scratch: str, hist: Hist) -> Tuple[List[str], List[Tuple[str, Any, str]]]:
    """a config object based on another one: the real SSHClientConnectionOptions chain (options object built from
    one file, a connection derived from it with a second file) against a model load that inherits the options
    object's resolved values (`inh=`: start of the load and `_last_options`, not expanded again)"""
    lines: List[str] = []
    expect: List[Tuple[str, Any, str]] = []
    scs = [json.loads(json.dumps(c)) for c in chain.CORPUS if c['kind'] == 'chain-client']
    while len(scs) < ctx.n(40, 400):
        sc = chain.gen_scenario(rng)
        if sc['kind'] == 'chain-client':
            scs.append(sc)
    b = lambda x: hx(x.encode('utf-8', 'surrogateescape'))  # noqa: E731
    for i, sc in enumerate(scs):
        base = os.path.join(scratch, 'ch%d' % i)
        home = os.path.join(base, 'home')
        os.makedirs(os.path.join(home, '.ssh'), exist_ok=True)
        host = sc.get('host', 'h1')
        with chain._Env(home):
            f0 = chain._write(os.path.join(base, 'base.conf'), sc['base'])
            try:
                opts = asyncssh.SSHClientConnectionOptions(config=[f0], host=host, known_hosts=None, client_keys=None,
                                                           agent_path=None)
            except Exception:
                continue
            inherited = [(name, opts.config.get(name, MISSING)) for _l, (name, _h) in sorted(SSHClientConfig._handlers.items())]
            inherited = [(n, v) for n, v in dict(inherited).items() if v is not MISSING]
            text = sc['conns'][rng.randrange(len(sc['conns']))]
            f1 = chain._write(os.path.join(base, 'conn.conf'), text)
            try:
                conn = asyncssh.SSHClientConnectionOptions(opts, config=[f1], host=host)
                impl = render_config(conn.config, SSHClientConfig)
            except Exception as e:
                impl = classify_exc(e)
        kv = ['load', 'cls=c', 'fuel=40', 'mode=load', 'home=' + b(home), 'dir=' + b(os.path.join(home, '.ssh')),
              'lhost=' + b(socket.gethostname()), 'uid=' + b(str(os.getuid())), 'host=' + b(host),
              'luser=' + b(g.LOCAL_USER), 'canonical=0', 'final=0']
        for n, v in inherited:
            kv.append('inh=' + b(n) + ':' + render_value(v))
        for k, v in g.ENV_VARS.items():
            kv.append('env=' + b(k) + ':' + b(v))
        kv.append('env=' + b('HOME') + ':' + b(home))
        kv.append('file=' + hx(os.fsencode(f1)) + ':' + hx(text.encode()))
        kv.append('path=' + b(f1))
        lines.append(' '.join(kv))
        expect.append(('chain_load', {'scenario': sc, 'conn': text}, impl))
        hist.hit('chain-load:' + ('exc' if impl.startswith('exc') else 'ok'))
    return lines, expect


def correspondence(ctx: Ctx) -> CorrResult:
    res = CorrResult()
    hist = Hist()
    rng = ctx.subrng('corr')
    scratch = ctx.tmpdir()
    try:
        lines, expect = unit_ops(ctx, rng, hist)
    except AttributeError as e:
        # the unit operations reach the regex objects / handler table by name; if those were renamed the
        # whole-file runs below (public API only) still tie the model to the code
        res.notes.append('unit operations skipped: %s' % e)
        lines, expect = [], []
    gl, ge = glob_ops(ctx, rng, scratch)
    lines += gl
    expect += ge
    n_unit = len(lines)

    # whole-file resolution: structured stream, malformed stream, server configs
    cases: List[Dict[str, Any]] = []
    for c in CORPUS:
        cases.append(json.loads(json.dumps(c)))
    for i in range(ctx.n(350, 5000)):
        r = rng.random()
        if r < 0.55:
            cases.append(gen_client_case(rng))
        elif r < 0.7:
            cases.append(gen_client_case(rng, malformed=True))
        elif r < 0.92:
            cases.append(gen_server_case(rng))
        else:
            cases.append(gen_server_case(rng, malformed=True))
    seen = set()
    for i, case in enumerate(cases):
        base = os.path.join(scratch, 'c%d' % i)
        materialise(case, base)
        impl = impl_run(case, base)
        lines.append(model_line(case, base))
        expect.append(('load:' + case['cls'], case, impl))
        hist.hit('load:%s:%s' % (case['cls'], impl.split(' ')[0] if impl.startswith('exc:') else 'ok'))
        seen.add(json.dumps(case['files'], sort_keys=True))
    res.nontrivial = len(seen) + len(set(lines[:n_unit]))

    # the real connect() flow for a sample (ties resolveClient to connection._connect)
    flow_lines, flow_expect = flow_cases(ctx, rng, scratch, hist)
    lines += flow_lines
    expect += flow_expect

    cl, ce = chain_ops(ctx, ctx.subrng('corr-chain'), scratch, hist)
    lines += cl
    expect += ce

    out = ctx.model(DRIVER, lines)
    for line, (name, case, impl), mod in zip(lines, expect, out):
        res.cases += 1
        if name.startswith('load:') or name in ('connect_flow', 'chain_load'):
            mod = canon_model(mod)
        if name == 'connect_flow':
            mod = flow_view(mod)
        if name == 'spliteq' and mod.endswith(' []'):
            mod = 'missing'
        if mod != impl:
            hist.hit('disagree:' + name)
            res.disagreements.append(Disagreement(case={'op': name, 'case': case}, model=mod, impl=impl,
                                                  name=name))
    res.histogram = dict(hist)
    k = n_unit + len(CORPUS)
    res.samples = [{'line': lines[0][:200], 'model': out[0], 'impl': expect[0][2]} if n_unit else {},
                   {'files': expect[k][1].get('files') if isinstance(expect[k][1], dict) else None,
                    'target': expect[k][1].get('target') if isinstance(expect[k][1], dict) else None,
                    'model': canon_model(out[k])[:300], 'impl': expect[k][2][:300]}]
    res.rule = ('unit operations on generated + malformed strings (shlex, = splitting, int(), wildcard patterns, '
                'token/env expansion, unsafe-user regex, Include globbing) and generated configuration programs '
                '(Host/Match blocks with negation and several criteria, = / quoting spellings, Include globs in a '
                'scratch dir, token sets, canonical/final passes, one or two top-level files) x targets, client and '
                'server classes; distinct = distinct unit lines + distinct file sets')
    return res


def flow_view(model_out: str) -> str:
    """what the real connection exposes: user name and port"""
    if model_out.startswith('exc:'):
        return model_out
    body = model_out.rpartition(' final=')[0]
    d = dict(it.split('=', 1) for it in body.split(';')) if body != '-' else {}
    user = d.get('User', 'n')
    user = unhx(user[1:]).decode() if user.startswith('s') and len(user) > 1 else ('' if user == 's-' else None)
    port = d.get('Port')
    host = d.get('Hostname')
    host = unhx(host[1:]).decode() if host and host.startswith('s') else 'memhost'
    return 'user=%s host=%s port=%s' % (user or g.LOCAL_USER, host, port[1:] if port else '22')


FLOW_KEYWORDS = {'host', 'match', 'include', 'user', 'port', 'compression', 'serveraliveinterval',
                 'serveralivecountmax', 'hostkeyalias', 'tcpkeepalive', 'connecttimeout', 'hostname'}


def flow_line_ok(line: str) -> bool:
    m = re.match(r'\s*([A-Za-z0-9]+)', line)
    return bool(m) and m.group(1).lower() in FLOW_KEYWORDS


def flow_cases(ctx: Ctx, rng: Any, scratch: str, hist: Hist) -> Tuple[List[str], List[Tuple[str, Any, str]]]:
    import pair
    lines: List[str] = []
    expect: List[Tuple[str, Any, str]] = []
    cases = [json.loads(json.dumps(c)) for c in FLOW_CORPUS]
    for _ in range(ctx.n(12, 150)):
        c = gen_client_case(rng, ssh_safe=True, tokens=False)
        c['mode'] = 'resolve'
        c['target'].pop('canon', None)
        # only options the in-memory connection can honour (no proxy commands, key files, sockets)
        for rel in list(c['files']):
            c['files'][rel] = '\n'.join(l for l in c['files'][rel].split('\n') if flow_line_ok(l)) + '\n'
        # an alias block: the name the caller gave maps to another Hostname; the final pass must still be made
        # for the caller's name (Host / Match originalhost blocks keep matching)
        if rng.random() < 0.5:
            c['files']['main.conf'] = '\n'.join(
                ['Host memhost', ' Hostname real%d' % rng.randint(0, 2), ' User alias%d' % rng.randint(0, 2),
                 ' Port %d' % rng.choice([2031, 2032]), 'Match originalhost memhost', ' Compression yes']) + '\n' + \
                c['files']['main.conf']
        # make the visible options (User, Port) depend on blocks
        c['files']['main.conf'] += '\n'.join(
            [g.gen_match(rng, True), ' User flow%d' % rng.randint(0, 3), g.gen_match(rng, True),
             ' Port %d' % rng.choice([2022, 2023]), 'Match final', ' User fin', 'Host *', ' Port 2024']) + '\n'
        cases.append(c)

    async def one(case: Dict[str, Any], base: str) -> str:
        t = case['target']
        opts: Dict[str, Any] = dict(config=[os.path.join(base, m) for m in case['main']])
        opts['username'] = t['user'] if t.get('user') is not None else ()
        if t.get('port') is not None:
            opts['port'] = t['port']
        asked: List[Tuple[str, int]] = []
        orig = pair.MemTunnel.create_connection

        async def recording(self: Any, session_factory: Any, host: str, port: int) -> Any:
            asked.append((host, port))      # what the client asks its tunnel to connect to
            return await orig(self, session_factory, host, port)
        pair.MemTunnel.create_connection = recording    # type: ignore
        try:
            c, s, hub = await pair.make_pair(client_opts=opts)
        except Exception as e:
            return classify_exc(e)
        finally:
            pair.MemTunnel.create_connection = orig     # type: ignore
        try:
            return 'user=%s host=%s port=%s' % (c.get_extra_info('username'), asked[0][0], asked[0][1])
        finally:
            c.abort()
            await pair.settle(5)

    for i, case in enumerate(cases):
        base = os.path.join(scratch, 'f%d' % i)
        materialise(case, base)
        # asyncssh.connect('memhost', ...): the target host of the real flow is fixed by pair.py
        case['target']['host'] = 'memhost'
        old = os.environ.get('LOGNAME')
        os.environ['LOGNAME'] = g.LOCAL_USER
        try:
            with EnvPatch(case_paths(base)['home']):
                impl = pair.run(one(case, base), timeout=60)
        finally:
            if old is None:
                os.environ.pop('LOGNAME', None)
            else:
                os.environ['LOGNAME'] = old
        lines.append(model_line(case, base))
        expect.append(('connect_flow', case, impl))
        hist.hit('flow:' + ('exc' if impl.startswith('exc') else 'ok'))
    return lines, expect


# minimal programs for every construct and every deviation found so far (always run first)
CORPUS: List[Dict[str, Any]] = [
    {'cls': 'client', 'files': {'main.conf': 'Port 1\nPort 2\nHost h1\n User a\nHost *\n User b\n'},
     'main': ['main.conf'], 'target': {'host': 'h1', 'user': None, 'port': None}, 'mode': 'load'},
    {'cls': 'client', 'files': {'main.conf': 'Include @ROOT@/abs/i.conf\nHostname real\n',
                                'abs/i.conf': 'IdentityFile %h-key\n'},
     'main': ['main.conf'], 'target': {'host': 'h1', 'user': None, 'port': None}, 'mode': 'load'},
    {'cls': 'client', 'files': {'main.conf': 'Include @ROOT@/abs/i.conf\n', 'abs/i.conf': 'IdentityFile %%h\n'},
     'main': ['main.conf'], 'target': {'host': 'h1', 'user': None, 'port': None}, 'mode': 'load'},
    {'cls': 'client', 'files': {'main.conf': 'Match final\n Port 2222\nHost *\n Port 22\n'},
     'main': ['main.conf'], 'target': {'host': 'h1', 'user': None, 'port': None}, 'mode': 'resolve'},
    {'cls': 'client', 'files': {'main.conf': 'ProxyCommand=ssh -W %h:%p jump\n'},
     'main': ['main.conf'], 'target': {'host': 'h1', 'user': None, 'port': None}, 'mode': 'load'},
    {'cls': 'client', 'files': {'main.conf': 'Include @ROOT@/abs/self.conf\n',
                                'abs/self.conf': 'Include @ROOT@/abs/self.conf\n'},
     'main': ['main.conf'], 'target': {'host': 'h1', 'user': None, 'port': None}, 'mode': 'load'},
    {'cls': 'client', 'files': {'main.conf': 'Host h1\n Include @ROOT@/abs/i.conf\n Port 5\nPort 6\n',
                                'abs/i.conf': 'Host nomatch\n Port 4\n'},
     'main': ['main.conf'], 'target': {'host': 'h1', 'user': None, 'port': None}, 'mode': 'load'},
    {'cls': 'client', 'files': {'main.conf': 'Include @ROOT@/abs/i.conf\nHostname %p.x\n', 'abs/i.conf': 'Port 7\n'},
     'main': ['main.conf'], 'target': {'host': 'h1', 'user': None, 'port': None}, 'mode': 'load'},
    {'cls': 'server', 'files': {'sshd.conf': 'AuthorizedKeysFile /keys/%u%u\n'}, 'main': ['sshd.conf'],
     'target': {'laddr': '', 'lport': 0, 'user': 'OME}${H', 'chost': '', 'addr': ''}},
    {'cls': 'server', 'files': {'sshd.conf': 'AuthorizedKeysFile /keys/%u%u /keys/.%u\n'}, 'main': ['sshd.conf'],
     'target': {'laddr': '', 'lport': 0, 'user': '.', 'chost': '', 'addr': ''}},
    {'cls': 'server', 'files': {'sshd.conf': 'Match User bob Address 10.0.0.*\n PermitTTY no\nMatch all\n PermitTTY yes\n'},
     'main': ['sshd.conf'], 'target': {'laddr': '', 'lport': 22, 'user': 'bob', 'chost': '', 'addr': '10.0.0.5'}},
]

FLOW_CORPUS: List[Dict[str, Any]] = [
    {'cls': 'client', 'files': {'main.conf': 'Match final\n User fin\n Port 2222\nHost *\n Port 22\n User first\n'},
     'main': ['main.conf'], 'target': {'host': 'memhost', 'user': None, 'port': None}, 'mode': 'resolve'},
    {'cls': 'client', 'files': {'main.conf': 'Host memhost\n User viahost\nMatch !host memhost\n Port 99\n'},
     'main': ['main.conf'], 'target': {'host': 'memhost', 'user': None, 'port': None}, 'mode': 'resolve'},
    # alias + Match final: the final pass is made for the caller's name, so the alias block matches again
    {'cls': 'client', 'files': {'main.conf': 'Host memhost\n Hostname real\n Port 2031\n User alice\n'
                                             'Match final\n ServerAliveInterval 5\n'},
     'main': ['main.conf'], 'target': {'host': 'memhost', 'user': None, 'port': None}, 'mode': 'resolve'},
    {'cls': 'client', 'files': {'main.conf': 'Host memhost\n Hostname real\nMatch originalhost memhost\n User orig\n'
                                             'Match final host real\n Port 2033\n'},
     'main': ['main.conf'], 'target': {'host': 'memhost', 'user': None, 'port': None}, 'mode': 'resolve'},
]


# ---------------------------------------------------------------------------------------------------
# oracle: the property evaluated on the real code

SSH = '/usr/bin/ssh'

# asyncssh option -> (ssh -G key, rendering of the asyncssh value as the list of values ssh prints)
def _yn(v: Any) -> List[str]:
    return ['yes' if v else 'no']


SSH_KEYS: Dict[str, Tuple[str, Any]] = {}
for _o in g.BOOL_OPTS:
    if _o != 'ChallengeResponseAuthentication':
        SSH_KEYS[_o] = (_o.lower(), _yn)
for _o in g.INT_OPTS:
    SSH_KEYS[_o] = (_o.lower(), lambda v: [str(v)])
for _o in ['BindAddress', 'HostKeyAlias', 'User', 'PreferredAuthentications', 'PKCS11Provider', 'IdentityAgent',
           'Hostname', 'ProxyCommand', 'RemoteCommand'] + list(g.ALG_OPTS):
    SSH_KEYS[_o] = (_o.lower(), lambda v: [v])
for _o in ['IdentityFile', 'CertificateFile', 'SendEnv', 'SetEnv']:
    SSH_KEYS[_o] = (_o.lower(), lambda v: list(v))
for _o in ['UserKnownHostsFile', 'GlobalKnownHostsFile', 'CanonicalDomains', 'CanonicalizePermittedCNAMEs']:
    SSH_KEYS[_o] = (_o.lower(), lambda v: [' '.join(v)])
SSH_KEYS['AddressFamily'] = ('addressfamily', lambda v: [{0: 'any', socket.AF_INET: 'inet', socket.AF_INET6: 'inet6'}[v]])
SSH_KEYS['RequestTTY'] = ('requesttty', lambda v: [v if isinstance(v, str) else ('true' if v else 'false')])
SSH_KEYS['PubkeyAuthentication'] = ('pubkeyauthentication', lambda v: ['true' if v else 'false'])
DEDUP_KEYS = {'identityfile', 'certificatefile'}     # ssh ignores a file that is already on the list
SSH_KEYS['ForwardAgent'] = ('forwardagent', lambda v: [v if isinstance(v, str) else ('yes' if v else 'no')])
SSH_KEYS['CanonicalizeHostname'] = ('canonicalizehostname',
                                    lambda v: [v if isinstance(v, str) else ('true' if v else 'false')])


def ssh_env() -> Dict[str, str]:
    env = {k: v for k, v in os.environ.items() if k in ('PATH', 'HOME', 'USER', 'LOGNAME', 'LANG')}
    env.update(g.ENV_VARS)
    return env


def ssh_G(paths: List[str], host: str, user: Optional[str], port: Optional[int]) -> Optional[Dict[str, List[str]]]:
    """`ssh -G` resolution of a config file; None when ssh rejects the file"""
    cmd = [SSH, '-G', '-F', paths[0]]
    if user is not None:
        cmd += ['-l', user]
    if port is not None:
        cmd += ['-p', str(port)]
    cmd.append(host)
    p = subprocess.run(cmd, stdin=subprocess.DEVNULL, stdout=subprocess.PIPE, stderr=subprocess.PIPE, timeout=30,
                       env=ssh_env(), text=True)
    if p.returncode != 0:
        return None
    out: Dict[str, List[str]] = {}
    for line in p.stdout.split('\n'):
        if not line:
            continue
        k, _, v = line.partition(' ')
        out.setdefault(k.lower(), []).append(v)
    return out


_SSH_DEFAULTS: Dict[Tuple[str, Optional[str], Optional[int]], Dict[str, List[str]]] = {}


def ssh_defaults(host: str, user: Optional[str], port: Optional[int]) -> Dict[str, List[str]]:
    key = (host, user, port)
    if key not in _SSH_DEFAULTS:
        _SSH_DEFAULTS[key] = ssh_G(['/dev/null'], host, user, port) or {}
    return _SSH_DEFAULTS[key]


def impl_resolve_for_ssh(case: Dict[str, Any], base: str) -> Any:
    """the connection flow of asyncssh (two loads) with the real local user and HOME, as `ssh` sees them"""
    import getpass
    t = case['target']
    mains = [os.path.join(base, m) for m in case['main']]
    user = t['user'] if t.get('user') is not None else ()
    port = t['port'] if t.get('port') is not None else ()
    lu = getpass.getuser()
    with EnvPatch(os.environ.get('HOME', '/root')):
        c1 = SSHClientConfig.load(None, mains, False, False, False, lu, user, t['host'], port)
        if c1.has_match_final():
            c1 = SSHClientConfig.load(c1, mains, True, False, True, lu, user, t['host'], port)
    return c1


def compare_with_ssh(case: Dict[str, Any], base: str) -> Tuple[str, List[Tuple[str, Any, Any]]]:
    """('ok'|'ssh-rejects'|'impl-exc:..'|'differs', [(option, asyncssh value rendered, ssh value)])"""
    t = case['target']
    mains = [os.path.join(base, m) for m in case['main']]
    sg = ssh_G(mains, t['host'], t.get('user'), t.get('port'))
    try:
        cfg = impl_resolve_for_ssh(case, base)
    except Exception as e:
        if sg is None:
            return 'both-reject', []
        return 'differs', [('<load>', [classify_exc(e) + ': ' + str(e).rsplit(': ', 1)[-1][:60]], ['accepted'])]
    if sg is None:
        return 'ssh-rejects', []
    dflt = ssh_defaults(t['host'], t.get('user'), t.get('port'))
    diffs = []
    for name, (key, rend) in SSH_KEYS.items():
        v = cfg.get(name, MISSING)
        if v is MISSING:
            want = dflt.get(key, [])
        elif v is None:
            continue
        else:
            want = rend(v)
        got = sg.get(key, [])
        if name == 'User' and v is MISSING:
            continue
        if key in DEDUP_KEYS:
            want = list(dict.fromkeys(want))
        if name == 'ForwardAgent' and not (set(want) | set(got)) <= {'yes', 'no'}:
            # `ssh -G` prints the agent socket path whenever one was configured, even when an earlier
            # `ForwardAgent no` decided the option: only the yes/no form is comparable
            continue
        if want != got:
            diffs.append((name, want, got))
    return ('differs' if diffs else 'ok'), diffs


# narrowed after the model audit: backslashes, `Match ... =` spellings and the `canonical` criterion are comparable
# (the deviations they show have their own signatures below).  Still excluded: CanonicalizeHostname /
# CanonicalDomains (ssh would ask the resolver), tokens and environment references (`ssh -G` prints most of them
# unexpanded), `none` (printed literally by ssh; what prepare() does with it is judged in _c18_chain), `~`, single
# quotes, and the OpenSSH-only couplings (Tag/tagged, ProxyJump, ChallengeResponse alias, ForwardAgent path)
_NOT_COMPARABLE = re.compile(
    r'(?i)canonicali[sz]e|canonicaldomains|tagged|\btag\b|proxyjump|challengeresponse|forwardagent|\bnone\b|%|\$|~|\'',
    re.M)


def ssh_comparable(case: Dict[str, Any]) -> bool:
    """cases taken over from correspondence disagreements were not generated for the `ssh -G` comparison:
    keep only those written with the constructs on which `ssh -G` output and asyncssh values are comparable
    (no tokens - ssh prints most of them unexpanded -, no OpenSSH-only couplings, OpenSSH quoting only)"""
    return not _NOT_COMPARABLE.search(all_text(case)) and len(case.get('main', [])) == 1 and \
        case['target'].get('canon') is None and not case['target'].get('canonical')


def case_lines(case: Dict[str, Any]) -> List[Tuple[str, int]]:
    return [(rel, i) for rel, text in sorted(case['files'].items()) for i in range(len(text.split('\n')))]


def without_lines(case: Dict[str, Any], drop: List[Tuple[str, int]]) -> Dict[str, Any]:
    c = json.loads(json.dumps(case))
    d = set(map(tuple, drop))
    for rel, text in case['files'].items():
        c['files'][rel] = '\n'.join(l for i, l in enumerate(text.split('\n')) if (rel, i) not in d)
    return c


def shrink_case(case: Dict[str, Any], fails: Any, budget: int = 80) -> Dict[str, Any]:
    """greedy line removal over all files while `fails(case)` stays true"""
    from vlib import shrink_list
    keep = case_lines(case)
    allp = list(keep)

    def still(sub: List[Any]) -> bool:
        drop = [x for x in allp if x not in sub]
        return bool(fails(without_lines(case, drop)))
    small = shrink_list(keep, still, budget=budget)
    return without_lines(case, [x for x in allp if x not in small])


def all_text(case: Dict[str, Any]) -> str:
    return '\n'.join(case['files'].values())


_PROBE_N = [0]


def _agrees_after(case: Dict[str, Any], base: str, edit: Any) -> bool:
    """does the difference with `ssh -G` go away when every file text is rewritten by `edit`?"""
    c = json.loads(json.dumps(case))
    changed = False
    for rel, text in case['files'].items():
        new = edit(rel, text)
        if new is None:
            del c['files'][rel]
            changed = True
        elif new != text:
            c['files'][rel] = new
            changed = True
    if not changed:
        return False
    _PROBE_N[0] += 1
    b = '%s-probe%d' % (base, _PROBE_N[0])
    materialise(c, b)
    return compare_with_ssh(c, b)[0] == 'ok'


_EXEC_RX = re.compile(r'(?im)^(\s*match\b.*?\bexec[ \t=]+)"([^"\n]*)"')
_TRAILING_COMMENT_RX = re.compile(r'(?m)^(\s*[A-Za-z][^#\n]*?)[ \t]+#.*$')
_MATCH_HOST_RX = re.compile(r'(?im)^(\s*match\b.*)$')


def _exec_status_edit(host: str) -> Any:
    """replace a quoted `Match exec "cmd"` by `true` / `false` according to the exit status of the command as
    OpenSSH runs it (percent tokens %h %n %% expanded, the quoted text kept whole)"""
    def edit(_rel: str, text: str) -> str:
        def sub(m: Any) -> str:
            cmd = re.sub(r'%(.)', lambda t: {'h': host, 'n': host, '%': '%'}.get(t.group(1), t.group(0)), m.group(2))
            rc = subprocess.run(cmd, shell=True, stdin=subprocess.DEVNULL, stdout=subprocess.DEVNULL,
                                stderr=subprocess.DEVNULL, timeout=20).returncode
            return m.group(1) + ('true' if rc == 0 else 'false')
        return _EXEC_RX.sub(sub, text)
    return edit


def _hidden_dir_edit(case: Dict[str, Any], base: str) -> Any:
    """drop the files an Include wildcard can only reach through a hidden directory that glob(3) skips"""
    reach = set()
    for m in re.finditer(r'(?im)^\s*include[ \t=]+(.*)$', all_text(case)):
        try:
            pats = shlex.split(subst(m.group(1), base))
        except ValueError:
            continue
        for pat in pats:
            reach.update(openssh_glob(abs_pattern(pat, base)))

    def edit(rel: str, text: str) -> Optional[str]:
        parts = rel.split('/')
        if rel not in case['main'] and any(x.startswith('.') for x in parts[:-1]) and \
                os.path.join(base, rel) not in reach:
            return None
        return text
    return edit


def classify_by_probe(case: Dict[str, Any], base: str, diffs: List[Tuple[str, Any, Any]]) -> Optional[str]:
    """root causes found by the model audit: each is confirmed by rewriting the input into the spelling on which
    both resolvers are known to agree and observing that the difference disappears"""
    raw = all_text(case)
    host = case['target']['host']
    if _TRAILING_COMMENT_RX.search(raw) and \
            _agrees_after(case, base, lambda _r, t: _TRAILING_COMMENT_RX.sub(lambda m: m.group(1), t)):
        return 'ssh-G:trailing-comment-not-ignored'
    m = _EXEC_RX.search(raw)
    if m and ('=' in m.group(2) or '%' in m.group(2)) and _agrees_after(case, base, _exec_status_edit(host)):
        return 'ssh-G:match-exec-quoted-command-split-at-equals' if '=' in m.group(2) else \
            'ssh-G:match-exec-command-not-percent-expanded'
    if '\\' in raw and _agrees_after(case, base, lambda _r, t: t.replace('\\', '\\\\')):
        return 'ssh-G:backslash-removed-from-value'
    if re.search(r'(?im)^\s*match\b.*\b(host|originalhost)\b', raw) and raw != raw.lower() and \
            _agrees_after(case, base, lambda _r, t: _MATCH_HOST_RX.sub(lambda m: m.group(1).lower(), t)):
        return 'ssh-G:match-host-pattern-compared-case-sensitively'
    if re.search(r'(?im)^\s*match\b.*\bcanonical\b', raw) and \
            _agrees_after(case, base, lambda _r, t: _MATCH_HOST_RX.sub(
                lambda m: re.sub(r'(?i)\bcanonical\b', 'final', m.group(1)), t)):
        return 'ssh-G:match-canonical-false-in-final-pass'
    if re.search(r'(?im)^\s*include\b', raw):
        if any(x.startswith('.') for rel in case['files'] for x in rel.split('/')[:-1]) and \
                _agrees_after(case, base, _hidden_dir_edit(case, base)):
            return 'include:glob-matches-hidden-directory'
        for m in re.finditer(r'(?im)^\s*include[ \t=]+(.*)$', raw):
            try:
                pats = shlex.split(subst(m.group(1), base))
            except ValueError:
                continue
            for pat in pats:
                hits = openssh_glob(abs_pattern(pat, base))
                if sorted(hits, key=lambda h: h.split('/')) != hits and \
                        _agrees_after(case, base, lambda _r, t: t.replace(
                            m.group(1), ' '.join(h.replace(base, '@ROOT@') for h in hits))):
                    return 'include:glob-order-by-components-not-by-path-string'
    return None


def classify_ssh_diff(case: Dict[str, Any], base: str, diffs: List[Tuple[str, Any, Any]]) -> str:
    sig = classify_by_probe(case, base, diffs)
    if sig:
        return sig
    text = all_text(case).lower()
    opts = sorted(set(d[0] for d in diffs))
    if opts == ['<load>']:
        if '%%' in text and ('include' in text or 'final' in text):
            return 'include:value-expanded-again-by-the-including-file'
        return 'ssh-G:asyncssh-rejects-a-config-ssh-accepts'
    if re.search(r'(?m)^\s*(proxycommand|remotecommand)\s*=', text) and any(o in ('ProxyCommand', 'RemoteCommand') for o in opts):
        return 'ssh-G:no-split-option-keeps-equals-sign'
    pe = set(SSHClientConfig._percent_expand)
    if opts and all(o in pe for o in opts) and 'include' in text and ('%' in text or '${' in text):
        if '%%' in text:
            return 'include:value-expanded-again-by-the-including-file'
        return 'include:tokens-expanded-at-end-of-included-file'
    if 'final' in text:
        return 'ssh-G:final-pass-restarts-instead-of-keeping-first-values'
    if 'include' in text:
        for m in re.finditer(r'(?im)^\s*include[ \t=]+(.*)$', all_text(case)):
            for pat in shlex.split(subst(m.group(1), base)):
                import glob as globmod
                hits = [h for h in globmod.glob(pat) if os.path.isfile(h)]
                listing = [f for f in walk_files(base) if f in hits]
                if len(hits) > 1 and listing != sorted(hits):
                    return 'include:glob-in-directory-order-not-sorted'
    raw = all_text(case)
    tags = [t for t, rx in (('host-block', r'(?im)^\s*host\b'), ('match-block', r'(?im)^\s*match\b'),
                            ('negation', r'!'), ('equals', r'='), ('quoting', r'["\']'), ('include', r'(?im)^\s*include\b'),
                            ('token', r'%|\$\{')) if re.search(rx, raw)]
    return 'ssh-G:other:' + ('+'.join(tags) or 'plain')


def oracle_ssh(ctx: Ctx, rng: Any, scratch: str, hist: Hist, res: OracleResult) -> None:
    cases = [json.loads(json.dumps(c)) for c in SSH_CORPUS]
    for s in ctx.suspects:
        c = s.get('case') if isinstance(s, dict) else None
        if isinstance(c, dict) and c.get('cls') == 'client' and 'files' in c and ssh_comparable(c):
            cases.append(json.loads(json.dumps(c)))
    for _ in range(ctx.n(250, 4000)):
        c = gen_client_case(rng, ssh_safe=True)
        c['mode'] = 'resolve'
        c['main'] = c['main'][:1]
        cases.append(c)
    qrng = ctx.subrng('oracle-quirks')
    for _ in range(ctx.n(40, 600)):
        cases.append(gen_quirk_case(qrng))
    counter = [0]
    seen_sigs: Dict[str, int] = {}
    for i, case in enumerate(cases):
        base = os.path.join(scratch, 's%d' % i)
        materialise(case, base)
        verdict, diffs = compare_with_ssh(case, base)
        res.evaluations += 1
        hist.hit('ssh-G:' + verdict.split(':')[0])
        if verdict != 'differs':
            continue

        def fails(c: Dict[str, Any]) -> bool:
            counter[0] += 1
            b = os.path.join(scratch, 'sh%d' % counter[0])
            materialise(c, b)
            return compare_with_ssh(c, b)[0] == 'differs'
        if sum(seen_sigs.values()) < 12 or classify_ssh_diff(case, base, diffs).startswith('ssh-G:other'):
            small = shrink_case(case, fails, budget=60)
        else:
            small = case
        counter[0] += 1
        b2 = os.path.join(scratch, 'sh%d' % counter[0])
        materialise(small, b2)
        v2, d2 = compare_with_ssh(small, b2)
        if v2 != 'differs':
            small, b2, d2 = case, base, diffs
        sig = classify_ssh_diff(small, b2, d2)
        seen_sigs[sig] = seen_sigs.get(sig, 0) + 1
        hist.hit('fail:' + sig)
        if seen_sigs[sig] <= 3:
            res.failures.append(Failure(
                signature=sig,
                what='asyncssh and `ssh -G` resolve different values for %s (asyncssh would send / ssh prints): %s; '
                     'files %s target %s' % (', '.join(sorted(set(d[0] for d in d2))),
                                             [(n, w, got) for n, w, got in d2[:3]],
                                             json.dumps(small['files'])[:600], small['target']),
                replay={'kind': 'ssh-G', 'case': small}))


def first_block_index(lines: List[str]) -> int:
    for i, l in enumerate(lines):
        if re.match(r'\s*(host|match)\b', l, re.I):
            return i
    return len(lines)


def openssh_glob(pattern: str) -> List[str]:
    """glob(3) as OpenSSH calls it: sorted, wildcards do not match a leading dot"""
    import glob as globmod
    return sorted(h for h in globmod.glob(pattern) if os.path.isfile(h))


def abs_pattern(pat: str, base: str) -> str:
    p = case_paths(base)
    if pat.startswith('~/'):
        return p['home'] + pat[1:]
    if not pat.startswith('/'):
        return os.path.join(p['dir'], pat)
    return pat


def inline_includes(case: Dict[str, Any], base: str, rel: str, depth: int = 0) -> Optional[str]:
    """text of file `rel` with the Include lines that precede every Host/Match line replaced by the lines
    of the files they name (OpenSSH order), each followed by `Match all`; None if nothing was inlined"""
    text = subst(case['files'][rel], base)
    lines = text.split('\n')
    limit = first_block_index(lines)
    out: List[str] = []
    changed = False
    p = case_paths(base)
    for i, l in enumerate(lines):
        m = re.match(r'\s*include[ \t]+(.*)$', l, re.I)
        if not m or i >= limit or depth > 3:
            out.append(l)
            continue
        try:
            pats = shlex.split(m.group(1))
        except ValueError:
            out.append(l)
            continue
        for pat in pats:
            pat = abs_pattern(pat, base)
            for hit in openssh_glob(pat):
                r2 = os.path.relpath(hit, base)
                if r2 not in case['files']:
                    continue
                sub = inline_includes(case, base, r2, depth + 1)
                out += (sub if sub is not None else subst(case['files'][r2], base)).split('\n')
                out.append('Match all')
        changed = True
    return '\n'.join(out) if changed else None


def classify_inline_diff(case: Dict[str, Any], base: str, a: str, b: str) -> str:
    da = dict(x.split('=', 1) for x in a.rpartition(' final=')[0].split(';') if '=' in x)
    db = dict(x.split('=', 1) for x in b.rpartition(' final=')[0].split(';') if '=' in x)
    names = sorted(k for k in set(da) | set(db) if da.get(k) != db.get(k))
    text = all_text(case)
    pe = set(SSHClientConfig._percent_expand) | set(SSHServerConfig._percent_expand)
    if a.startswith('exc:') or b.startswith('exc:'):
        if '%' in text or '${' in text:
            return 'include:expansion-error-depends-on-include-structure'
        return 'include:error-only-one-way'
    if names and all(n in pe for n in names):
        if '%%' in text or any('%' in v for v in g.ENV_VARS.values() if v and ('${' in text)):
            return 'include:value-expanded-again-by-the-including-file'
        return 'include:tokens-expanded-at-end-of-included-file'
    # order / dotfiles of the glob
    for m in re.finditer(r'(?im)^\s*include[ \t=]+(.*)$', text):
        for pat in shlex.split(subst(m.group(1), base)):
            pth = abs_pattern(pat, base)
            want = openssh_glob(pth)
            import pathlib
            root = pathlib.Path('/')
            got = [str(x) for x in root.glob(pth.lstrip('/')) if x.is_file()]
            if sorted(got) == want and sorted(want, key=lambda x: x.split('/')) != want:
                # sorted as Path objects (component by component), glob(3) sorts the path strings
                return 'include:glob-order-by-components-not-by-path-string'
            if got != want:
                extra = [x for x in got if x not in want]
                if extra and set(want) <= set(got) and \
                        all(not os.path.basename(x).startswith('.') for x in extra):
                    # the file's own name is not hidden: it was reached through a hidden directory
                    return 'include:glob-matches-hidden-directory'
                if sorted(got) != want:
                    return 'include:glob-matches-dotfiles'
                return 'include:glob-in-directory-order-not-sorted'
    return 'include:result-differs-from-inlined-lines'


def oracle_metamorphic(ctx: Ctx, rng: Any, scratch: str, hist: Hist, res: OracleResult) -> None:
    """relations that must hold on the real code whatever the config says"""
    cases = [json.loads(json.dumps(c)) for c in INLINE_CORPUS]
    for _ in range(ctx.n(250, 4000)):
        cases.append(gen_client_case(rng) if rng.random() < 0.8 else gen_server_case(rng, user=rng.choice(g.USERS)))
    sig_count: Dict[str, int] = {}

    def report(sig: str, what: str, rep: Dict[str, Any]) -> None:
        sig_count[sig] = sig_count.get(sig, 0) + 1
        hist.hit('fail:' + sig)
        if sig_count[sig] <= 3:
            res.failures.append(Failure(signature=sig, what=what, replay=rep))

    for i, case in enumerate(cases):
        base = os.path.join(scratch, 'm%d' % i)
        materialise(case, base)
        r0 = impl_run(case, base)
        res.evaluations += 1
        if r0.startswith('exc:'):
            hist.hit('meta:skip-' + r0)
            continue
        d0 = dict(x.split('=', 1) for x in r0.rpartition(' final=')[0].split(';') if '=' in x)
        main = case['main'][0]
        client = case['cls'] == 'client'
        # (1) a value placed on the first line wins; a value appended in a `Match all` block only fills a gap
        opt, val, rend = rng.choice(PROBES_CLIENT if client else PROBES_SERVER)
        preset = client and ((opt == 'User' and case['target'].get('user') is not None) or
                             (opt == 'Port' and case['target'].get('port') is not None))
        c1 = json.loads(json.dumps(case))
        c1['files'][main] = '%s %s\n' % (opt, val) + case['files'][main]
        b1 = base + '-first'
        materialise(c1, b1)
        r1 = impl_run(c1, b1)
        d1 = dict(x.split('=', 1) for x in r1.rpartition(' final=')[0].split(';') if '=' in x)
        hist.hit('meta:first-line')
        if not r1.startswith('exc:') and not preset and d1.get(opt) != rend:
            report('first-value:first-line-does-not-win',
                   'option %s placed on the first line with value %r resolves to %r' % (opt, val, d1.get(opt)),
                   {'kind': 'first-line', 'case': c1, 'option': opt, 'expect': rend})
        c2 = json.loads(json.dumps(case))
        last = case['main'][-1]
        c2['files'][last] = case['files'][last].rstrip('\n') + '\nMatch all\n%s %s\n' % (opt, val)
        b2 = base + '-last'
        materialise(c2, b2)
        r2 = impl_run(c2, b2)
        d2 = dict(x.split('=', 1) for x in r2.rpartition(' final=')[0].split(';') if '=' in x)
        hist.hit('meta:last-line')
        want = d0.get(opt, rend)
        if not r2.startswith('exc:') and d2.get(opt) != want:
            report('first-value:later-line-overrides-earlier-value',
                   'option %s already %r; a later `Match all` line with %r changed it to %r'
                   % (opt, d0.get(opt), val, d2.get(opt)),
                   {'kind': 'last-line', 'case': c2, 'option': opt, 'expect': want})
        # (2) list options accumulate
        lopt = 'SendEnv' if client else 'HostKey'
        c3 = json.loads(json.dumps(case))
        c3['files'][last] = case['files'][last].rstrip('\n') + '\nMatch all\n%s ZZ_PROBE\n' % lopt
        b3 = base + '-acc'
        materialise(c3, b3)
        r3 = impl_run(c3, b3)
        d3 = dict(x.split('=', 1) for x in r3.rpartition(' final=')[0].split(';') if '=' in x)
        hist.hit('meta:accumulate')
        prev = d0.get(lopt, 'l')
        want3 = prev + (',' if len(prev) > 1 else '') + hx(b'ZZ_PROBE')
        if not r3.startswith('exc:') and d3.get(lopt) != want3:
            report('list-option:does-not-accumulate',
                   '%s was %r; appending one value gives %r' % (lopt, prev, d3.get(lopt)),
                   {'kind': 'accumulate', 'case': c3, 'option': lopt, 'expect': want3})
        # (3) Include is inlining
        inl = inline_includes(case, base, main)
        if inl is not None:
            c4 = json.loads(json.dumps(case))
            c4['files'][main] = inl.replace(base, '@ROOT@')
            b4 = base   # same directory: included files stay where they are, only the main file changes
            path4 = os.path.join(base, 'inlined-' + main)
            c4['files']['inlined-' + main] = c4['files'].pop(main)
            c4['main'] = ['inlined-' + main] + case['main'][1:]
            with open(path4, 'w') as f:
                f.write(inl)
            r4 = impl_run(c4, b4)
            hist.hit('meta:inline')
            if r4 != r0:
                sig = classify_inline_diff(case, base, r0, r4)
                report(sig, 'reading the included files in place gives a different result: with Include %s | '
                            'inlined %s | files %s' % (r0[:200], r4[:200], json.dumps(case['files'])[:500]),
                       {'kind': 'inline', 'case': case})
            os.unlink(path4)
        # (4) a criterion and its negation are complementary
        if client:
            crit = rng.choice(['host ' + g.gen_pattern(rng, g.HOSTS), 'user ' + g.gen_pattern(rng, g.USERS),
                               'originalhost ' + g.gen_pattern(rng, g.HOSTS), 'localuser ' + g.gen_pattern(rng, g.USERS)])
            texts = ['Match %s\n HostKeyAlias pos\nMatch !%s\n HostKeyAlias neg\n' % (crit, crit),
                     'Match !%s\n HostKeyAlias neg\nMatch %s\n HostKeyAlias pos\n' % (crit, crit)]
            outs = []
            for j, tx in enumerate(texts):
                c5 = {'cls': 'client', 'files': {'main.conf': tx}, 'main': ['main.conf'], 'target': case['target'],
                      'mode': 'load'}
                b5 = base + '-neg%d' % j
                materialise(c5, b5)
                r5 = impl_run(c5, b5)
                outs.append(dict(x.split('=', 1) for x in r5.rpartition(' final=')[0].split(';') if '=' in x).get('HostKeyAlias'))
            hist.hit('meta:negation')
            if outs[0] != outs[1] or outs[0] not in ('s' + hx(b'pos'), 's' + hx(b'neg')):
                report('match:criterion-and-negation-not-complementary',
                       'criterion %r for target %s: blocks chosen %s' % (crit, case['target'], outs),
                       {'kind': 'negation', 'crit': crit, 'target': case['target']})
    res.nontrivial += len(cases)


PROBES_CLIENT = [('BindAddress', 'probe.addr', 's' + hx(b'probe.addr')), ('Port', '4242', 'i4242'),
                 ('User', 'probeuser', 's' + hx(b'probeuser')), ('Compression', 'yes', 'b1'),
                 ('HostKeyAlias', 'probe-alias', 's' + hx(b'probe-alias')), ('ConnectTimeout', '41', 'i41'),
                 ('UserKnownHostsFile', '/p/kh', 'l' + hx(b'/p/kh')), ('AddressFamily', 'inet6', 'i%d' % socket.AF_INET6)]
PROBES_SERVER = [('BindAddress', 'probe.addr', 's' + hx(b'probe.addr')), ('Port', '4242', 'i4242'),
                 ('PermitTTY', 'no', 'b0'), ('LoginGraceTime', '41', 'i41'), ('UseDNS', 'yes', 'b1')]


# ---- hostile user names against server templates -------------------------------------------------

def documented_unsafe(u: str) -> bool:
    """the list in the docstring of SSHServerConfig._set_tokens, with plain string operations"""
    if u == '..' or u.startswith('~') or '/' in u or '\\' in u:
        return True
    if len(u) >= 2 and u[0].isascii() and u[0].isalpha() and u[1] == ':':
        return True
    i = u.find('${')
    while i >= 0:
        j = u.find('}', i + 2)
        if j >= 0 and '\n' not in u[i + 2:j]:
            return True
        i = u.find('${', i + 1)
    return False


def reference_expand(template: str, user: str, env: Dict[str, str]) -> Optional[str]:
    """what the documentation promises: %u -> user, %% -> %, ${VAR} of the *template* -> value; each
    reference of the template replaced once; None if the template itself is invalid"""
    out = []
    i = 0
    while i < len(template):
        c = template[i]
        if c == '%' and i + 1 < len(template) and template[i + 1] != '\n':
            k = template[i + 1]
            if k == 'u':
                out.append(user)
            elif k == '%':
                out.append('%')
            else:
                return None
            i += 2
        elif template.startswith('${', i):
            j = template.find('}', i + 2)
            if j >= 0 and '\n' not in template[i + 2:j]:
                name = template[i + 2:j]
                if name not in env:
                    return None
                out.append(env[name])
                i = j + 1
            else:
                out.append(c)
                i += 1
        else:
            out.append(c)
            i += 1
    return ''.join(out)


def path_shape(p: str) -> Tuple[str, int]:
    import posixpath
    n = posixpath.normpath(p)
    return n, len([c for c in n.split('/') if c])


def user_case_failure(template: str, user: str, result: str, env: Dict[str, str]) -> Optional[Tuple[str, str]]:
    """does the accepted substitution change the meaning of the path?  (signature, explanation) or None"""
    import posixpath
    ref = reference_expand(template, user, env)
    if ref is None:
        return None
    if documented_unsafe(user):
        return ('server-user:documented-unsafe-name-accepted',
                'user name %r is on the documented unsafe list but was substituted' % user)
    if user == '' and result == ref and path_shape(result) != path_shape(reference_expand(template, 'U', env) or ''):
        return ('server-user:empty-name-collapses-component',
                'template %r with the empty user name resolves to %r' % (template, path_shape(result)[0]))
    if result != ref:
        if '${' in ref:
            return ('server-user:env-reference-assembled-across-substitutions',
                    'template %r with user %r: copies of the name join into a ${...} reference that is then '
                    'expanded: %r' % (template, user, result))
        return ('server-user:substituted-text-expanded-again',
                'template %r with user %r gives %r, not the single substitution %r' % (template, user, result, ref))
    safe = reference_expand(template, 'U', env) or ''
    n_res, k_res = path_shape(result)
    n_safe, k_safe = path_shape(safe)
    # directory of the template up to the first reference to the user
    cut = template.find('%u')
    prefix = reference_expand(template[:template.rfind('/', 0, cut) + 1], 'U', env) if cut >= 0 else None
    if prefix and prefix.startswith('/') and not (n_res + '/').startswith(posixpath.normpath(prefix).rstrip('/') + '/'):
        glued = any(c != '%u' and '%u' in c for c in template.split('/'))
        return ('server-user:glued-name-forms-dotdot' if glued else 'server-user:escape',
                'template %r with user %r resolves to %r, outside %r' % (template, user, n_res, prefix))
    if k_res != k_safe:
        kind = 'empty' if user == '' else 'dot' if user == '.' else 'other'
        glued = any(c != '%u' and '%u' in c for c in template.split('/'))
        if glued and kind == 'other':
            kind = 'glued'
        return ('server-user:%s-name-collapses-component' % kind,
                'template %r with user %r resolves to %r: %d components instead of %d'
                % (template, user, n_res, k_res, k_safe))
    return None


def eval_user_pair(template: str, user: str, via_include: bool, conf: str, slot: int = 0) -> Tuple[str, List[Failure]]:
    """one (AuthorizedKeysFile template, remote user name) against the real SSHServerConfig"""
    env = dict(g.ENV_VARS)
    os.makedirs(os.path.join(conf, 'abs'), exist_ok=True)
    main = os.path.join(conf, 'sshd%d.conf' % slot)
    line = 'AuthorizedKeysFile "%s"\n' % template
    if via_include:
        inc = os.path.join(conf, 'abs', 'u%d.conf' % slot)
        with open(inc, 'w') as f:
            f.write(line)
        text = 'Include %s\n' % inc
    else:
        text = line
    with open(main, 'w') as f:
        f.write(text)
    rep = {'kind': 'user', 'template': template, 'user': user, 'via_include': via_include}
    with EnvPatch(os.environ.get('HOME', '/root')):
        try:
            cfg = SSHServerConfig.load(None, main, False, False, False, '127.0.0.1', 22, user, 'chost', '10.0.0.9')
            got = cfg.get('AuthorizedKeysFile')
        except asyncssh.misc.IllegalUserName:
            # refusing more is safe as long as ordinary names pass: `.` (and `..` + newline, which the
            # regex's `$` also matches) change the meaning of a path and may be refused
            if not documented_unsafe(user) and user not in ('..\n', '.', '.\n', ''):
                return 'refused', [Failure('server-user:safe-name-refused',
                                           'user name %r is not on the documented unsafe list but is refused' % user, rep)]
            return 'refused', []
        except cfgmod.ConfigParseError:
            # an expansion error is a refusal of this name: nothing was substituted into a path
            return 'parse-error', []
    fails = []
    for item in (got or []):
        f = user_case_failure(template, user, item, env)
        if f:
            sig, what = f
            if via_include and sig == 'server-user:substituted-text-expanded-again':
                sig = 'include:value-expanded-again-by-the-including-file'
            fails.append(Failure(sig, what, rep))
    return 'accepted', fails


def oracle_users(ctx: Ctx, rng: Any, scratch: str, hist: Hist, res: OracleResult) -> None:
    pairs: List[Tuple[str, str, bool]] = []
    extra_templates = ['/keys/%u%u', '/keys/.%u', '/keys/%u./x', '${C18_A}/%u', '/k/${C18_B}%u', '%u/%u', '/keys/$%u',
                       '/keys/%u}', '/keys/x%uy/z', '/keys/.%u./x']
    for t in g.AK_TEMPLATES + extra_templates:
        for u in g.HOSTILE_USERS:
            pairs.append((t, u, False))
    for u in ['%%', '%u', 'a%%b']:
        pairs.append(('/keys/%u', u, True))
    for _ in range(ctx.n(300, 6000)):
        pairs.append((rng.choice(g.AK_TEMPLATES + extra_templates), g.gen_hostile_user(rng), rng.random() < 0.3))
    for s in ctx.suspects:
        c = s.get('case') if isinstance(s, dict) else None
        if isinstance(c, dict) and 'user' in c:
            for t in g.AK_TEMPLATES:
                pairs.append((t, c['user'], False))
    sig_count: Dict[str, int] = {}
    conf = os.path.join(scratch, 'users')
    for n, (template, user, via_include) in enumerate(pairs):
        res.evaluations += 1
        outcome, fails = eval_user_pair(template, user, via_include, conf, n % 50)
        hist.hit('user:' + outcome)
        for f in fails:
            sig_count[f.signature] = sig_count.get(f.signature, 0) + 1
            hist.hit('fail:' + f.signature)
            if sig_count[f.signature] <= 2:
                res.failures.append(f)
    res.nontrivial += len(set((t, u) for t, u, _ in pairs))


SSH_CORPUS: List[Dict[str, Any]] = [
    # a comma in a Host argument is an ordinary character
    {'cls': 'client', 'files': {'main.conf': 'Host a1,b1\n Port 2222\nHost *\n Port 22\n'},
     'main': ['main.conf'], 'target': {'host': 'a1', 'user': None, 'port': None}, 'mode': 'resolve'},
    {'cls': 'client', 'files': {'main.conf': 'Host a1,b1 c1\n Port 2222\nHost *\n Port 22\n'},
     'main': ['main.conf'], 'target': {'host': 'a1,b1', 'user': None, 'port': None}, 'mode': 'resolve'},
    {'cls': 'client', 'files': {'main.conf': 'Match final\n Port 2222\nHost *\n Port 22\n'},
     'main': ['main.conf'], 'target': {'host': 'h1', 'user': None, 'port': None}, 'mode': 'resolve'},
    {'cls': 'client', 'files': {'main.conf': 'ProxyCommand=nc jump 22\n'},
     'main': ['main.conf'], 'target': {'host': 'h1', 'user': None, 'port': None}, 'mode': 'resolve'},
    {'cls': 'client', 'files': {'main.conf': 'Include @ROOT@/abs/*.conf\n', 'abs/zz.conf': 'Port 1\n', 'abs/mm.conf': 'Port 2\n',
                                'abs/aa.conf': 'Port 3\n', 'abs/b.conf': 'Port 4\n'},
     'main': ['main.conf'], 'target': {'host': 'h1', 'user': None, 'port': None}, 'mode': 'resolve'},
    {'cls': 'client', 'files': {'main.conf': 'Host h1\n User a\n Port 7\nHost *\n User b\nIdentityFile /k/1\nIdentityFile /k/2\n'},
     'main': ['main.conf'], 'target': {'host': 'h1', 'user': None, 'port': None}, 'mode': 'resolve'},
]

def _sc(files: Dict[str, str], host: str = 'h1') -> Dict[str, Any]:
    return {'cls': 'client', 'files': files, 'main': ['main.conf'], 'target': {'host': host, 'user': None, 'port': None},
            'mode': 'resolve'}


# deviations from OpenSSH demonstrated by the model audit (one minimal program per root cause)
SSH_CORPUS += [
    _sc({'main.conf': 'Include @ROOT@/abs/conf.d/*/x.conf\n', 'abs/conf.d/.disabled/x.conf': 'User from_hidden_dir\n',
         'abs/conf.d/site/x.conf': 'User from_site\n'}),
    _sc({'main.conf': 'Include @ROOT@/abs/order.d/*/x.conf\n', 'abs/order.d/a/x.conf': 'Port 1001\n',
         'abs/order.d/a-b/x.conf': 'Port 1002\n'}),
    _sc({'main.conf': 'Match exec "test 1 = 1"\n Port 2222\n'}),
    _sc({'main.conf': 'Match exec "echo %h | grep -q h1"\n Port 2222\n'}),
    _sc({'main.conf': 'Match final\n ServerAliveInterval 7\nMatch canonical\n Port 2222\n'}),
    _sc({'main.conf': 'User CORP\\bob\nHostKeyAlias x\\ty\n'}),
    _sc({'main.conf': 'Port 2222 # the bastion\nUser bob\n'}),
    _sc({'main.conf': 'Match host H1\n Port 2200\nMatch originalhost h?,H1\n HostKeyAlias viaorig\n'}),
]


def gen_quirk_case(rng: Any) -> Dict[str, Any]:
    """generator reach for the constructs the plain `ssh_safe` stream never writes: wildcards in directory
    components of Include, quoted exec commands with `=` / tokens, `Match canonical`, backslashes, trailing comments,
    upper-case letters in Match host patterns"""
    host = rng.choice(['h1', 'h2', 'gw', 'x'])
    k = rng.randrange(8)
    port = rng.choice([2201, 2202, 2203])
    user = rng.choice(g.USERS)
    if k == 0:
        hid = rng.choice(['.disabled', '.old', '.git'])
        vis = rng.choice(['site', 'a', 'zz'])
        files = {'main.conf': 'Include @ROOT@/abs/d/*/%s\nPort %d\n' % (rng.choice(['x.conf', '*.conf', '?.conf']), port),
                 'abs/d/%s/x.conf' % hid: 'User hidden-%s\n' % user, 'abs/d/%s/x.conf' % vis: 'HostKeyAlias vis\n'}
        if rng.random() < 0.5:
            files['abs/d/%s/x.conf' % vis] += 'User %s\n' % user
    elif k == 1:
        a = rng.choice(['a', 'k1', 'site'])
        b = a + rng.choice(['-b', '.d', '+x', ',1', ' 2', '#3', '!'])
        opt = rng.choice(['Port %d', 'ConnectTimeout %d', 'ServerAliveInterval %d'])
        files = {'main.conf': 'Include "@ROOT@/abs/o/*/x.conf"\n', 'abs/o/%s/x.conf' % a: opt % 1001 + '\n',
                 'abs/o/%s/x.conf' % b: opt % 1002 + '\n'}
    elif k == 2:
        cmd = rng.choice(['test 1 = 1', 'test 1 = 2', 'test a != b', 'X=1 true', 'test %s = %s' % (host, host),
                          'test "$HOME" = /nonexistent'])
        neg = rng.choice(['', '', '!'])
        files = {'main.conf': 'Match %sexec "%s"\n Port %d\nHost *\n User %s\n' % (neg, cmd.replace('"', ''), port, user)}
    elif k == 3:
        cmd = rng.choice(['echo %h | grep -q HOST', 'test %h != HOST', 'echo %n | grep -q zz',
                          'echo %h | grep -qv HOST']).replace('HOST', host)
        files = {'main.conf': 'Match exec "%s"\n Port %d\n' % (cmd, port)}
    elif k == 4:
        neg = rng.choice(['', '', '!'])
        files = {'main.conf': 'Match final\n ServerAliveInterval 7\nMatch %scanonical\n Port %d\n' % (neg, port) +
                              rng.choice(['', 'Match canonical host %s\n User %s\n' % (host, user)])}
    elif k == 5:
        v = rng.choice(['corp\\' + user, 'x\\ty', 'a\\', '\\\\srv\\share', 'dom\\%s' % user])
        files = {'main.conf': '%s %s\n' % (rng.choice(['User', 'HostKeyAlias', 'BindAddress']), v)}
    elif k == 6:
        files = {'main.conf': '%s %s%s\nUser %s\n' % (rng.choice(['Port', 'ConnectTimeout']), port,
                                                     rng.choice([' # the bastion', '\t#x', ' #', '  # a "b']), user)}
    else:
        pat = rng.choice([host.upper(), host[0].upper() + host[1:], '*' + host[1:].upper() if len(host) > 1 else host.upper()])
        crit = rng.choice(['host', 'originalhost'])
        files = {'main.conf': 'Match %s %s\n Port %d\nHost *\n User %s\n' % (crit, pat, port, user)}
    return _sc(files, host)


INLINE_CORPUS: List[Dict[str, Any]] = [
    {'cls': 'client', 'files': {'main.conf': 'Include @ROOT@/abs/i.conf\nHostname real\n', 'abs/i.conf': 'IdentityFile %h-key\n'},
     'main': ['main.conf'], 'target': {'host': 'h1', 'user': None, 'port': None}, 'mode': 'load'},
    {'cls': 'client', 'files': {'main.conf': 'Include @ROOT@/abs/i.conf\n', 'abs/i.conf': 'IdentityFile %%h\n'},
     'main': ['main.conf'], 'target': {'host': 'h1', 'user': None, 'port': None}, 'mode': 'load'},
    {'cls': 'client', 'files': {'main.conf': 'Include @ROOT@/abs/*.conf\n', 'abs/zz.conf': 'Port 1\n', 'abs/mm.conf': 'Port 2\n',
                                'abs/aa.conf': 'Port 3\n', 'abs/b.conf': 'Port 4\n'},
     'main': ['main.conf'], 'target': {'host': 'h1', 'user': None, 'port': None}, 'mode': 'load'},
    {'cls': 'client', 'files': {'main.conf': 'Include @ROOT@/abs/*\nPort 9\n', 'abs/.hidden': 'Port 1\n'},
     'main': ['main.conf'], 'target': {'host': 'h1', 'user': None, 'port': None}, 'mode': 'load'},
    {'cls': 'client', 'files': {'main.conf': 'Include @ROOT@/abs/conf.d/*/x.conf\n',
                                'abs/conf.d/.disabled/x.conf': 'User from_hidden_dir\n',
                                'abs/conf.d/site/x.conf': 'User from_site\n'},
     'main': ['main.conf'], 'target': {'host': 'h1', 'user': None, 'port': None}, 'mode': 'load'},
    {'cls': 'client', 'files': {'main.conf': 'Include @ROOT@/abs/order.d/*/x.conf\n', 'abs/order.d/a/x.conf': 'Port 1001\n',
                                'abs/order.d/a-b/x.conf': 'Port 1002\n'},
     'main': ['main.conf'], 'target': {'host': 'h1', 'user': None, 'port': None}, 'mode': 'load'},
]


def oracle_flow(ctx: Ctx, rng: Any, scratch: str, hist: Hist, res: OracleResult) -> None:
    """the REAL connect() flow (asyncssh.connect through the in-memory pair) against `ssh -G`: host name, port and
    user actually used.  A difference the two-pass model reproduces is the recorded final-pass defect (F27); any
    other difference is a new finding."""
    import getpass
    lines, expect = flow_cases(ctx, rng, scratch, hist)
    model = [flow_view(canon_model(m)) for m in ctx.model(DRIVER, lines)]
    seen: Dict[str, int] = {}
    for i, ((_name, case, impl), mod) in enumerate(zip(expect, model)):
        res.evaluations += 1
        if impl.startswith('exc') or not ssh_comparable(case):
            hist.hit('flow-ssh:skipped')
            continue
        base = os.path.join(scratch, 'f%d' % i)
        t = case['target']
        sg = ssh_G([os.path.join(base, m) for m in case['main']], 'memhost', t.get('user'), t.get('port'))
        if sg is None:
            hist.hit('flow-ssh:ssh-rejects')
            continue
        d = dict(x.split('=', 1) for x in impl.split(' '))
        diffs = []
        if sg.get('hostname', [''])[0] != d.get('host'):
            diffs.append(('Hostname', d.get('host'), sg.get('hostname')))
        if sg.get('port', [''])[0] != d.get('port'):
            diffs.append(('Port', d.get('port'), sg.get('port')))
        su = sg.get('user', [''])[0]
        if not (su == getpass.getuser() and d.get('user') == g.LOCAL_USER) and su != d.get('user'):
            diffs.append(('User', d.get('user'), sg.get('user')))
        hist.hit('flow-ssh:' + ('differs' if diffs else 'ok'))
        if not diffs:
            continue
        sig = 'ssh-G:final-pass-restarts-instead-of-keeping-first-values' if impl == mod else \
            'connect-flow:differs-from-ssh-and-from-the-two-pass-model'
        seen[sig] = seen.get(sig, 0) + 1
        if seen[sig] <= 3:
            res.failures.append(Failure(
                signature=sig,
                what='asyncssh.connect() used %s where `ssh -G` resolves %s; files %s target %s'
                     % ([(n, a) for n, a, _b in diffs], [(n, b) for n, _a, b in diffs],
                        json.dumps(case['files'])[:500], t),
                replay={'kind': 'connect-flow', 'case': case}))


def oracle_chain(ctx: Ctx, rng: Any, scratch: str, hist: Hist, res: OracleResult) -> None:
    """config OBJECTS based on one another (reused options object, second pass of connect(), server reload) and
    `none` values in prepare(): scenarios of _c18_chain on the real classes and the real connect() flow"""
    scs = [json.loads(json.dumps(c)) for c in chain.CORPUS]
    for _ in range(ctx.n(120, 1500)):
        scs.append(chain.gen_scenario(rng))
    seen: Dict[str, int] = {}
    for i, sc in enumerate(scs):
        res.evaluations += 1
        try:
            found = chain.run_scenario(sc, os.path.join(scratch, 'k%d' % i))
        except Exception as e:
            found = [('options-chain:scenario-raises:' + type(e).__name__, '%s: %s' % (type(e).__name__, e))]
        hist.hit('chain:%s:%s' % (sc['kind'], 'fail' if found else 'ok'))
        for sig, what in found:
            seen[sig] = seen.get(sig, 0) + 1
            hist.hit('fail:' + sig)
            if seen[sig] <= 2:
                res.failures.append(Failure(signature=sig, what=what, replay={'kind': 'chain', 'scenario': sc}))
    res.nontrivial += len(set(json.dumps(sc, sort_keys=True) for sc in scs))


def oracle(ctx: Ctx) -> OracleResult:
    res = OracleResult()
    hist = Hist()
    rng = ctx.subrng('oracle')
    scratch = ctx.tmpdir()
    oracle_chain(ctx, ctx.subrng('oracle-chain'), os.path.join(scratch, 'chain'), hist, res)
    oracle_ssh(ctx, rng, os.path.join(scratch, 'ssh'), hist, res)
    oracle_flow(ctx, rng, os.path.join(scratch, 'flow'), hist, res)
    oracle_metamorphic(ctx, rng, os.path.join(scratch, 'meta'), hist, res)
    oracle_users(ctx, rng, os.path.join(scratch, 'usr'), hist, res)
    # one failing input per root cause first (the runner prints the first few only)
    first_seen: Dict[str, int] = {}
    ranked = []
    for f in res.failures:
        first_seen[f.signature] = first_seen.get(f.signature, 0) + 1
        ranked.append((first_seen[f.signature], len(ranked), f))
    res.failures = [f for _r, _i, f in sorted(ranked, key=lambda x: (x[0], x[2].signature.startswith('none-value:'), x[1]))]
    res.histogram = dict(hist)
    res.samples = [{'ssh-G keys compared': sorted(SSH_KEYS)[:8]},
                   {'user templates': g.AK_TEMPLATES[:4], 'hostile names': g.HOSTILE_USERS[:8]}]
    res.rule = ('(1) generated OpenSSH-compatible client configs x targets: asyncssh connection-flow resolution versus '
                '`ssh -G -F file host` on %d option kinds, unset options against ssh defaults; (2) metamorphic relations on '
                'the real classes: first line wins, later `Match all` line only fills gaps, list option grows by exactly '
                'the appended value, Include versus the included lines pasted in place (+ `Match all`), criterion versus '
                'its negation; (3) hostile user names x AuthorizedKeysFile templates against SSHServerConfig: refused, '
                'or the single textual substitution with unchanged normalised component structure; (4) config objects '
                'based on one another: a reused options object and the connections derived from it (isolation, '
                'agreement with reading the files in order, inherited values expanded once), connect(options=, config=) '
                'with a second canonical/final pass versus the same files passed together, a server options object + '
                'listen config over several real connections (one reload_config each), `none` values in prepare(); '
                'distinct = distinct file sets / (template, name) pairs / scenarios' % len(SSH_KEYS))
    return res


def replay(ctx: Ctx, rep: Dict[str, Any]) -> List[Failure]:
    r = rep.get('replay', rep)
    scratch = ctx.tmpdir()
    hist = Hist()
    fails: List[Failure] = []
    kind = r.get('kind')
    if kind == 'ssh-G':
        base = os.path.join(scratch, 'r')
        materialise(r['case'], base)
        v, d = compare_with_ssh(r['case'], base)
        if v == 'differs':
            fails.append(Failure(classify_ssh_diff(r['case'], base, d), str(d[:3]), r))
    elif kind in ('first-line', 'last-line', 'accumulate'):
        base = os.path.join(scratch, 'r')
        materialise(r['case'], base)
        out = impl_run(r['case'], base)
        d = dict(x.split('=', 1) for x in out.rpartition(' final=')[0].split(';') if '=' in x)
        if not out.startswith('exc:') and d.get(r['option']) != r['expect']:
            fails.append(Failure('first-value:' + kind, '%s resolves to %r, expected %r' % (r['option'], d.get(r['option']), r['expect']), r))
    elif kind == 'inline':
        base = os.path.join(scratch, 'r')
        case = r['case']
        materialise(case, base)
        r0 = impl_run(case, base)
        main = case['main'][0]
        inl = inline_includes(case, base, main)
        if inl is not None:
            c4 = json.loads(json.dumps(case))
            c4['files']['inlined-' + main] = inl.replace(base, '@ROOT@')
            c4['main'] = ['inlined-' + main] + case['main'][1:]
            with open(os.path.join(base, 'inlined-' + main), 'w') as f:
                f.write(inl)
            r4 = impl_run(c4, base)
            if r4 != r0:
                fails.append(Failure(classify_inline_diff(case, base, r0, r4), 'with Include %s | inlined %s' % (r0[:200], r4[:200]), r))
    elif kind == 'user':
        _o, fs = eval_user_pair(r['template'], r['user'], bool(r.get('via_include')), os.path.join(scratch, 'usr'))
        fails += fs
    elif kind == 'chain':
        for sig, what in chain.run_scenario(r['scenario'], os.path.join(scratch, 'chain')):
            fails.append(Failure(sig, what, r))
    elif kind == 'negation':
        tx = 'Match %s\n HostKeyAlias pos\nMatch !%s\n HostKeyAlias neg\n' % (r['crit'], r['crit'])
        c5 = {'cls': 'client', 'files': {'main.conf': tx}, 'main': ['main.conf'], 'target': r['target'], 'mode': 'load'}
        base = os.path.join(scratch, 'r')
        materialise(c5, base)
        out = impl_run(c5, base)
        if 'HostKeyAlias=' not in out:
            fails.append(Failure('match:criterion-and-negation-not-complementary', out, r))
    return fails
