"""C20 helpers: real forwards between an in-process client and server (SSH link = pair.make_pair, no socket)
with real loopback TCP / UNIX endpoints, scripted from the four ends.

Ends:  A  = the initiating endpoint (a raw non-blocking socket connected to the forwarding listener, or the
            SSHReader/SSHWriter pair of `open_connection`)
       B  = the destination endpoint (an `asyncio.Protocol` accepted by a recording server)
       L/D = the two relays inside asyncssh (not touched; only observed through A, B and the process's fds)

Script ops (strings): 'hold' / 'release' (stop / restart the in-memory SSH link), 'cut' (drop the SSH link),
  'connect', 'aw<n>' 'bw<n>' (write n bytes), 'ae' 'be' (shutdown write side), 'ac' 'bc' (close),
  'ar' 'br' (abortive close: RST), 'sclose' (close the SSH connection from the client side), 'settle'.
"""

from __future__ import annotations

import asyncio
import os
import socket
import struct
from typing import Any, Callable, Dict, List, Optional, Tuple

import asyncssh

import pair

WAIT = 0.2          # upper bound of every wait (seconds)


async def wait_until(cond: Callable[[], bool], limit: float = WAIT) -> bool:
    """poll `cond` (cheaply at first), at most `limit` seconds"""
    for _ in range(12):
        if cond():
            return True
        await asyncio.sleep(0)
    loop = asyncio.get_event_loop()
    end = loop.time() + limit
    step = 0.001
    while loop.time() < end:
        if cond():
            return True
        await asyncio.sleep(step)
        step = min(step * 1.6, 0.02)
    return cond()


async def quiesce(rounds: int = 25) -> None:
    for _ in range(rounds):
        await asyncio.sleep(0)
    await asyncio.sleep(0.002)
    for _ in range(rounds):
        await asyncio.sleep(0)


def socket_inodes() -> List[str]:
    out = []
    for f in os.listdir('/proc/self/fd'):
        try:
            t = os.readlink('/proc/self/fd/' + f)
        except OSError:
            continue
        if t.startswith('socket:['):
            out.append(t[8:-1])
    return sorted(out)


def listening_tcp_ports() -> List[int]:
    """ports of LISTEN sockets owned by this process"""
    inodes = set(socket_inodes())
    res = []
    for path in ('/proc/net/tcp', '/proc/net/tcp6'):
        try:
            lines = open(path).read().splitlines()[1:]
        except OSError:
            continue
        for line in lines:
            p = line.split()
            if len(p) > 9 and p[3] == '0A' and p[9] in inodes:
                res.append(int(p[1].rsplit(':', 1)[1], 16))
    return sorted(res)


def listening_unix_paths() -> List[str]:
    inodes = set(socket_inodes())
    res = []
    try:
        lines = open('/proc/net/unix').read().splitlines()[1:]
    except OSError:
        return res
    for line in lines:
        p = line.split()
        # Num RefCount Protocol Flags Type St Inode Path ; Flags 00010000 = __SO_ACCEPTCON
        if len(p) >= 8 and p[6] in inodes and p[3] == '00010000':
            res.append(p[7])
    return sorted(res)


class Rec(asyncio.Protocol):
    """recording endpoint"""

    def __init__(self, registry: List['Rec']):
        self.data = bytearray()
        self.eof = False
        self.lost = False
        self.exc: Optional[BaseException] = None
        self.t: Any = None
        self.registry = registry

    def connection_made(self, t: Any) -> None:
        self.t = t
        sk = t.get_extra_info('socket')
        if sk is not None and sk.family in (socket.AF_INET, socket.AF_INET6):
            sk.setsockopt(socket.IPPROTO_TCP, socket.TCP_NODELAY, 1)     # no Nagle delays in the harness's ends
        self.registry.append(self)

    def data_received(self, d: bytes) -> None:
        self.data += d

    def eof_received(self) -> bool:
        self.eof = True
        return True          # keep the write side open (half-close)

    def connection_lost(self, e: Optional[BaseException]) -> None:
        self.lost = True
        self.exc = e


class AppServer(asyncssh.SSHServer):
    """server application whose answers are set by the harness"""

    def __init__(self, box: Dict[str, Any]):
        self.box = box

    def begin_auth(self, username: str) -> bool:
        return bool(self.box.get('auth', False))

    def public_key_auth_supported(self) -> bool:
        return False

    def _ans(self, kind: str, *args: Any) -> Any:
        self.box.setdefault('asked', []).append((kind,) + args)
        a = self.box.get('answer', True)
        return a(kind, *args) if callable(a) and self.box.get('answer_fn') else a

    def connection_requested(self, dest_host: str, dest_port: int, orig_host: str, orig_port: int) -> Any:
        return self._ans('dt', dest_host, dest_port)

    def server_requested(self, listen_host: str, listen_port: int) -> Any:
        return self._ans('tf', listen_host, listen_port)

    def unix_connection_requested(self, dest_path: str) -> Any:
        return self._ans('ds', dest_path)

    def unix_server_requested(self, listen_path: str) -> Any:
        return self._ans('sf', listen_path)


def server_factory(box: Dict[str, Any]) -> Callable[[], AppServer]:
    return lambda: AppServer(box)


class EndA:
    """initiating endpoint: a raw non-blocking socket (so that shutdown / RST can be produced exactly)"""

    def __init__(self, sk: socket.socket):
        self.sk = sk
        self.data = bytearray()
        self.eof = False
        self.lost = False
        self.closed = False

    def pump(self) -> None:
        if self.closed:
            return
        while True:
            try:
                d = self.sk.recv(65536)
            except (BlockingIOError, InterruptedError):
                return
            except OSError:
                self.lost = True
                return
            if not d:
                self.eof = True
                return
            self.data += d

    async def write(self, d: bytes) -> bool:
        try:
            await asyncio.wait_for(asyncio.get_event_loop().sock_sendall(self.sk, d), WAIT * 5)
            return True
        except asyncio.TimeoutError:
            return False
        except OSError:
            self.lost = True
            return False

    def shut(self) -> None:
        try:
            self.sk.shutdown(socket.SHUT_WR)
        except OSError:
            pass

    def close(self) -> None:
        if not self.closed:
            self.pump()
            self.closed = True
            self.sk.close()

    def reset(self) -> None:
        if not self.closed:
            self.closed = True
            try:
                self.sk.setsockopt(socket.SOL_SOCKET, socket.SO_LINGER, struct.pack('ii', 1, 0))
            except OSError:
                pass
            self.sk.close()


async def connect_raw(addr: Any) -> EndA:
    loop = asyncio.get_event_loop()
    if isinstance(addr, str):
        sk = socket.socket(socket.AF_UNIX, socket.SOCK_STREAM)
    else:
        sk = socket.socket(socket.AF_INET, socket.SOCK_STREAM)
        sk.setsockopt(socket.IPPROTO_TCP, socket.TCP_NODELAY, 1)
    sk.setblocking(False)
    await asyncio.wait_for(loop.sock_connect(sk, addr), WAIT * 5)
    return EndA(sk)


def rst_protocol(t: Any) -> None:
    """abortive close of an asyncio socket transport (SO_LINGER 0 then abort)"""
    sk = t.get_extra_info('socket')
    try:
        if sk is not None and sk.family in (socket.AF_INET, socket.AF_INET6):
            sk.setsockopt(socket.SOL_SOCKET, socket.SO_LINGER, struct.pack('ii', 1, 0))
    except OSError:
        pass
    t.abort()


def socks5_request(host: str, port: int) -> bytes:
    hb = host.encode()
    return bytes([5, 1, 0, 5, 1, 0, 3, len(hb)]) + hb + bytes([port >> 8, port & 255])


SOCKS5_REPLY_LEN = 2 + 10


class Scenario:
    """one forwarded connection driven by a script; see module docstring"""

    KINDS = ['local_port', 'local_path', 'remote_port', 'remote_path', 'socks', 'local_port_to_path']

    def __init__(self, kind: str, script: List[str], tmp: str, payload: Callable[[int], bytes],
                 must: Optional[Dict[str, int]] = None):
        self.must = must or {'a2b': 0, 'b2a': 0}      # bytes that have to arrive (the run waits for them, bounded)
        self.kind = kind
        self.script = script
        self.tmp = tmp
        self.payload = payload
        self.obs: Dict[str, Any] = {}

    async def run(self) -> Dict[str, Any]:
        loop = asyncio.get_event_loop()
        obs = self.obs
        err0 = len(pair.LOOP_ERRORS)
        recs: List[Rec] = []
        unix_dest = self.kind in ('local_path', 'remote_path', 'local_port_to_path')
        if unix_dest:
            dpath = os.path.join(self.tmp, 'd.sock')
            dest = await loop.create_unix_server(lambda: Rec(recs), dpath)
            daddr: Any = dpath
        else:
            dest = await loop.create_server(lambda: Rec(recs), '127.0.0.1', 0)
            daddr = ('127.0.0.1', dest.sockets[0].getsockname()[1])
        base_inodes = set(socket_inodes())          # the destination server is part of the baseline
        box: Dict[str, Any] = {'answer': True}
        c, s, hub = await pair.make_pair(server_factory=server_factory(box))
        lpath = os.path.join(self.tmp, 'l.sock')
        try:
            if self.kind == 'local_port':
                lst = await c.forward_local_port('127.0.0.1', 0, daddr[0], daddr[1])
                laddr: Any = ('127.0.0.1', lst.get_port())
            elif self.kind == 'local_port_to_path':
                lst = await c.forward_local_port_to_path('127.0.0.1', 0, daddr)
                laddr = ('127.0.0.1', lst.get_port())
            elif self.kind == 'local_path':
                lst = await c.forward_local_path(lpath, daddr)
                laddr = lpath
            elif self.kind == 'remote_port':
                lst = await c.forward_remote_port('127.0.0.1', 0, daddr[0], daddr[1])
                laddr = ('127.0.0.1', lst.get_port())
            elif self.kind == 'remote_path':
                lst = await c.forward_remote_path(lpath, daddr)
                laddr = lpath
            elif self.kind == 'socks':
                lst = await c.forward_socks('127.0.0.1', 0)
                laddr = ('127.0.0.1', lst.get_port())
            else:
                raise ValueError(self.kind)
        except Exception as e:      # pragma: no cover
            obs['setup_error'] = type(e).__name__ + ':' + str(e)
            dest.close()
            c.abort()
            return obs
        with_listener = set(socket_inodes())
        obs['listener_sockets'] = len(with_listener - base_inodes)
        a: Optional[EndA] = None
        sent_a = bytearray()
        sent_b = bytearray()
        skip_a = 0           # bytes of SOCKS reply to strip from what A receives
        log: List[str] = []
        held = False
        cut = False

        def b() -> Optional[Rec]:
            return recs[0] if recs else None

        for op in self.script:
            try:
                if op == 'hold':
                    hub.auto = False
                    held = True
                elif op == 'release':
                    hub.auto = True
                    held = False
                    hub.kick()
                    await quiesce()
                elif op == 'cut':
                    hub.cut_transport()
                    cut = True
                    await quiesce()
                elif op == 'sclose':
                    c.close()
                    await quiesce()
                elif op == 'settle':
                    await quiesce()
                elif op == 'connect':
                    a = await connect_raw(laddr)
                    if self.kind == 'socks':
                        req = socks5_request('127.0.0.1', daddr[1])
                        await a.write(req)
                        skip_a = SOCKS5_REPLY_LEN
                    if not held:
                        await wait_until(lambda: bool(recs))
                        # ... and until the open confirmation has travelled back (link idle)
                        await quiesce(6)
                        await wait_until(lambda: not hub.queues[pair.C2S] and not hub.queues[pair.S2C])
                        await quiesce(6)
                    else:
                        await quiesce(8)
                elif op[0] == 'a' and a is not None:
                    if op[1] == 'w':
                        d = self.payload(int(op[2:]))
                        if not a.closed and await a.write(d):
                            sent_a += d
                            log.append('aw')
                            if not held and b() is not None:
                                want = len(sent_a)
                                await wait_until(lambda: len(b().data) >= want or b().lost)   # type: ignore
                            else:
                                await quiesce(6)
                    elif op[1] == 'e':
                        a.shut()
                        if not held and b() is not None:
                            await wait_until(lambda: b().eof or b().lost)     # type: ignore
                        else:
                            await quiesce(6)
                    elif op[1] == 'c':
                        a.close()
                        await quiesce(10)
                    elif op[1] == 'r':
                        a.reset()
                        await quiesce(10)
                elif op[0] == 'b':
                    r = b()
                    if r is None or r.t is None:
                        continue
                    if op[1] == 'w':
                        d = self.payload(int(op[2:]))
                        if not r.lost and not r.t.is_closing():
                            try:
                                r.t.write(d)
                                sent_b += d
                            except RuntimeError:
                                pass
                            if not held and a is not None and not a.closed:
                                want = len(sent_b) + skip_a

                                def got() -> bool:
                                    a.pump()      # type: ignore
                                    return len(a.data) >= want or a.eof or a.lost     # type: ignore
                                await wait_until(got)
                            else:
                                await quiesce(6)
                    elif op[1] == 'e':
                        try:
                            if not r.t.is_closing():
                                r.t.write_eof()
                        except (OSError, RuntimeError):
                            pass
                        if not held and a is not None and not a.closed:
                            def goteof() -> bool:
                                a.pump()      # type: ignore
                                return a.eof or a.lost        # type: ignore
                            await wait_until(goteof)
                        else:
                            await quiesce(6)
                    elif op[1] == 'c':
                        r.t.close()
                        await quiesce(10)
                    elif op[1] == 'r':
                        rst_protocol(r.t)
                        await quiesce(10)
            except Exception as e:      # pragma: no cover
                obs.setdefault('op_errors', []).append(f'{op}:{type(e).__name__}:{e}')
        if held:
            hub.auto = True
            hub.kick()
        await quiesce()

        def arrived() -> bool:
            if a is not None:
                a.pump()
            r0 = b()
            ok_b = r0 is None or r0.lost or len(r0.data) >= min(self.must['a2b'], len(sent_a))
            ok_a = a is None or a.closed or a.lost or a.eof or \
                len(a.data) - skip_a >= min(self.must['b2a'], len(sent_b))
            return ok_a and ok_b
        await wait_until(arrived)
        if a is not None:
            a.pump()
        obs['sent_a'] = bytes(sent_a)
        obs['sent_b'] = bytes(sent_b)
        obs['a'] = None if a is None else dict(data=bytes(a.data[skip_a:]), eof=a.eof, lost=a.lost, closed=a.closed,
                                               raw_len=len(a.data))
        r = b()
        obs['b'] = None if r is None else dict(data=bytes(r.data), eof=r.eof, lost=r.lost)
        obs['b_count'] = len(recs)
        obs['conn_closed'] = bool(c.is_closed())
        obs['cut'] = cut
        # --- release checks -------------------------------------------------------------------
        # (1) with the SSH connection still up, once both ends are gone the relayed sockets must be released
        a_gone = a is None or a.closed
        b_gone = r is None or r.lost
        if a is not None and a_gone and r is not None and not r.lost and not cut:
            # A has gone: B must learn about it (EOF or loss) -- close_closes_both
            await wait_until(lambda: r.lost or r.eof)        # type: ignore
            obs['b_after_a_gone'] = dict(eof=r.eof, lost=r.lost)
        if r is not None and b_gone and a is not None and not a.closed and not cut:
            def a_learns() -> bool:
                a.pump()      # type: ignore
                return a.eof or a.lost        # type: ignore
            await wait_until(a_learns)
            obs['a_after_b_gone'] = dict(eof=a.eof, lost=a.lost)
        # the ends finish: whoever is still open closes now (after having seen what there was to see)
        if a is not None and not a.closed:
            a.close()
        if r is not None and not r.lost and r.t is not None:
            r.t.close()

        def released() -> bool:
            return len(set(socket_inodes()) - base_inodes) <= obs['listener_sockets']
        if not cut and not c.is_closed():
            ok = await wait_until(released)
            obs['released_while_connected'] = ok
            if not ok:
                obs['extra_sockets_while_connected'] = \
                    len(set(socket_inodes()) - base_inodes) - obs['listener_sockets']
        obs['conn_closed_before_teardown'] = bool(c.is_closed())
        # (2) after the SSH connection ends nothing of the forward may remain
        if not c.is_closed():
            c.close()
        try:
            await asyncio.wait_for(c.wait_closed(), WAIT * 3)
        except (asyncio.TimeoutError, Exception):
            c.abort()
        if not s.is_closed():
            await wait_until(lambda: s.is_closed())

        def all_released() -> bool:
            return len(set(socket_inodes()) - base_inodes) == 0
        ok = await wait_until(all_released)
        dest.close()
        obs['released_after_close'] = ok
        if not ok:
            obs['left_after_close'] = len(set(socket_inodes()) - base_inodes)
            obs['listening_left'] = [p for p in listening_tcp_ports()]
        obs['loop_errors'] = [(e.get('message'), type(e.get('exception')).__name__)
                              for e in pair.LOOP_ERRORS[err0:]]
        del pair.LOOP_ERRORS[err0:]
        for p in (lpath, os.path.join(self.tmp, 'd.sock')):
            try:
                os.unlink(p)
            except OSError:
                pass
        return obs
