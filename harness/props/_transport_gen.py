"""Translator shared by C01/C02 (each writes its own Gen file): packet-layer arithmetic and algorithm tables."""
from __future__ import annotations

import ast
import importlib
from typing import Any, Dict, List, Tuple

import translate as T
import vlib


def padlen_def(func: ast.AST) -> str:
    asg = T.find_assign(func, 'padlen', 0)
    env = {'self._send_enchdrlen': 'enchdrlen', 'len(payload)': 'len', 'self._send_blocksize': 'bs'}
    e1 = T.expr_to_lean(asg.value, env)
    # the statement after it must be:  if <test on padlen>: padlen += <expr>
    body = None
    for n in ast.walk(func):
        if isinstance(n, ast.If) and len(n.body) == 1 and isinstance(n.body[0], ast.AugAssign) and \
                isinstance(n.body[0].target, ast.Name) and n.body[0].target.id == 'padlen' and not n.orelse and \
                n.lineno > asg.lineno:
            body = n
            break
    if body is None:
        raise T.Untranslatable('send_packet: `if padlen < 4: padlen += blocksize` not found')
    aug = body.body[0]
    if not isinstance(aug.op, ast.Add):
        raise T.Untranslatable('send_packet: padlen adjustment is not +=')
    env2 = dict(env, padlen='padlen')
    test = T.expr_to_lean(body.test, env2)
    inc = T.expr_to_lean(aug.value, env2)
    return (f'def padlenExpr (enchdrlen len bs : Int) : Int :=\n'
            f'  let padlen := {e1}\n'
            f'  if {test} then padlen + {inc} else padlen\n')


def rem_def(func: ast.AST) -> str:
    asg = T.find_assign(func, 'rem', 0)
    env = {'self._pktlen': 'pktlen', 'self._recv_macsize': 'macsize', 'self._recv_blocksize': 'bs'}
    return f'def remExpr (pktlen macsize bs : Int) : Int :=\n  {T.expr_to_lean(asg.value, env)}\n'


def seq_defs(send: ast.AST, finish: ast.AST) -> str:
    out = ''
    for name, func, attr in (('sendSeqExpr', send, 'self._send_seq'), ('recvSeqExpr', finish, 'self._recv_seq')):
        cands = [n for n in ast.walk(func) if isinstance(n, ast.Assign) and len(n.targets) == 1
                 and T._name_of(n.targets[0]) == attr and not (isinstance(n.value, ast.Constant))]
        if len(cands) != 1:
            raise T.Untranslatable(f'{attr}: expected one non-constant assignment, found {len(cands)}')
        out += f'def {name} (seq : Int) : Int :=\n  {T.expr_to_lean(cands[0].value, {"seq": "seq"})}\n'
    return out


def layouts() -> Tuple[List[Tuple[str, str, int, int, int]], List[Tuple[int, int, int]]]:
    """All negotiable (cipher, mac) pairs -> (blocksize=max(8,bs), macsize, enchdrlen)."""
    enc = importlib.import_module('asyncssh.encryption')
    mac = importlib.import_module('asyncssh.mac')
    rows = []
    for e in enc.get_encryption_algs():
        macs = mac.get_mac_algs() if enc.encryption_needs_mac(e) else [b'']
        for m in macs:
            _ks, _iv, bs, _mk, mh, etm = enc.get_encryption_params(e, m)
            rows.append((e.decode(), m.decode(), max(8, bs), mh, 1 if etm else 5))
    distinct = sorted(set((r[2], r[3], r[4]) for r in rows))
    return rows, distinct


def key_letters(tree: ast.AST) -> Tuple[List[Tuple[str, int]], List[Tuple[str, str, str]]]:
    """send_newkeys: (variable, letter) of every `x = self._kex.compute_key(k, h, b'L', ...)` in source order, and
    (cipher variable, key variable, mac-key variable) of every `next_enc_* = get_encryption(alg, key, iv, mac_alg,
    mac_key, etm)`; plus which of them the client sends with."""
    fn = T.find_def(tree, 'SSHConnection.send_newkeys')
    letters: List[Tuple[str, int]] = []
    encs: List[Tuple[str, str, str]] = []
    for n in ast.walk(fn):
        if isinstance(n, ast.Assign) and len(n.targets) == 1 and isinstance(n.targets[0], ast.Name) and \
                isinstance(n.value, ast.Call):
            src = ast.unparse(n.value.func)
            if src.endswith('compute_key') and len(n.value.args) >= 3 and isinstance(n.value.args[2], ast.Constant) \
                    and isinstance(n.value.args[2].value, bytes) and len(n.value.args[2].value) == 1:
                letters.append((n.targets[0].id, n.value.args[2].value[0]))
            elif src == 'get_encryption' and len(n.value.args) >= 5:
                a = [ast.unparse(x) for x in n.value.args]
                encs.append((n.targets[0].id, a[1], a[2], a[4]))      # type: ignore
    if len(letters) != 6 or len(encs) != 2:
        raise T.Untranslatable('send_newkeys: expected six compute_key assignments and two get_encryption calls')
    letters.sort(key=lambda x: x[0])
    return letters, sorted(encs)       # type: ignore


def generate(prop: str) -> Dict[str, Any]:
    src = T.read_source('asyncssh/connection.py')
    tree = ast.parse(src)
    send = T.find_def(tree, 'SSHConnection.send_packet')
    recvp = T.find_def(tree, 'SSHConnection._recv_packet')
    finish = T.find_def(tree, 'SSHConnection._finish_recv_packet')
    rows, distinct = layouts()
    out = T.header(prop, ['asyncssh/connection.py (send_packet, _recv_packet, _finish_recv_packet)',
                          'asyncssh/encryption.py + mac.py (live algorithm tables)'])
    out += f'namespace AsyncsshModel.Gen.{prop}\n\n'
    out += '/-- padding length chosen by `send_packet` -/\n' + padlen_def(send) + '\n'
    out += '/-- bytes still to read after the first block, `_recv_packet` -/\n' + rem_def(recvp) + '\n'
    out += '/-- sequence number updates (the non-reset branch) -/\n' + seq_defs(send, finish) + '\n'
    out += '/-- (block size, MAC size, encrypted-header length) of every negotiable cipher/MAC pair, plus cleartext -/\n'
    out += 'def layouts : List (Nat × Nat × Nat) :=\n  ' + \
        T.lean_list([f'({a}, {b}, {c})' for a, b, c in sorted(set(distinct + [(8, 0, 5)]))]) + '\n\n'
    out += '/-- every (cipher, MAC) pair with its layout, for the record -/\n'
    out += 'def pairs : List (String × String × Nat × Nat × Nat) :=\n  ' + \
        T.lean_list([f'({T.lean_str(e)}, {T.lean_str(m)}, {a}, {b}, {c})' for e, m, a, b, c in rows]) + '\n\n'
    letters, encs = key_letters(tree)
    out += '/-- `send_newkeys`: the letter each of the six keys is derived with (RFC 4253 7.2), by variable name -/\n'
    out += 'def keyLetters : List (String × Nat) :=\n  ' + \
        T.lean_list([f'({T.lean_str(v)}, {c})' for v, c in letters]) + '\n\n'
    out += '/-- `send_newkeys`: (cipher object, key, iv, MAC key) handed to `get_encryption` -/\n'
    out += 'def cipherKeys : List (String × String × String × String) :=\n  ' + \
        T.lean_list([f'({T.lean_str(a)}, {T.lean_str(b)}, {T.lean_str(c)}, {T.lean_str(d)})' for a, b, c, d in encs]) + '\n\n'
    out += f'end AsyncsshModel.Gen.{prop}\n'
    changed = vlib.write_if_changed(vlib.module_path(f'AsyncsshModel.Gen.{prop}'), out)
    return {'gen_file': f'Gen/{prop}.lean', 'changed': changed, 'pairs': len(rows), 'layouts': len(distinct) + 1}
