"""C20 translator: asyncssh/connection.py + asyncssh/socks.py (current tree) -> lean/AsyncsshModel/Gen/C20.lean.

From the source (AST) of the four server-side request handlers it extracts which credential checks guard the
request and whether they come before the application callback:

    _process_direct_tcpip_open                                       (direct-tcpip)
    _process_tcpip_forward_global_request                            (tcpip-forward)
    _process_direct_streamlocal_at_openssh_dot_com_open              (direct-streamlocal@openssh.com)
    _process_streamlocal_forward_at_openssh_dot_com_global_request   (streamlocal-forward@openssh.com)

It also extracts the handler's tests of the address itself, made on the variables later handed to the
application: `if <port> > N: <deny>` (largest port let through) and `if '\\0' in <path> and not
<path>.startswith('\\0'): <deny>`.

A check counts only in the shape the model mirrors: an `if` whose test is a disjunction containing
`not self.check_key_permission('port-forwarding')` / `not self.check_certificate_permission('port-forwarding')`
and whose body denies (raises, or reports a failed global response and returns); the permitopen check is the
`if` over `self.get_key_option('permitopen')` testing `(dest_host, dest_port)` and `(dest_host, None)` with
`not in` and raising.  A handler that lacks a check yields `false` for it (so that the theorems about the
generated table stop compiling); code of a different shape raises `Untranslatable`.

From the live modules it dumps the SOCKS constants, `_socks5_addr_len`, the two OK responses, the
`OPEN_*` failure codes, and the option-name rules of `check_key_permission` /
`check_certificate_permission` (prefix, default with and without a certificate) read from their AST.
"""

from __future__ import annotations

import ast
import importlib
import os
from typing import Any, Dict, List, Optional, Tuple

import vlib


class Untranslatable(Exception):
    pass


HANDLERS = [
    ('directTcpip', '_process_direct_tcpip_open', ['connection_requested']),
    ('tcpipForward', '_process_tcpip_forward_global_request', ['_finish_port_forward', 'server_requested']),
    ('directStreamlocal', '_process_direct_streamlocal_at_openssh_dot_com_open', ['unix_connection_requested']),
    ('streamlocalForward', '_process_streamlocal_forward_at_openssh_dot_com_global_request',
     ['_finish_path_forward', 'unix_server_requested']),
]

PERMISSION = 'port-forwarding'


def _find_method(tree: ast.Module, cls: str, name: str) -> ast.FunctionDef:
    for n in tree.body:
        if isinstance(n, ast.ClassDef) and n.name == cls:
            for m in n.body:
                if isinstance(m, (ast.FunctionDef, ast.AsyncFunctionDef)) and m.name == name:
                    return m  # type: ignore
    raise Untranslatable(f'{cls}.{name} not found')


def _self_call(n: ast.AST, method: str) -> Optional[ast.Call]:
    if isinstance(n, ast.Call) and isinstance(n.func, ast.Attribute) and n.func.attr == method \
            and isinstance(n.func.value, ast.Name) and n.func.value.id == 'self':
        return n
    return None


def _is_not_perm(n: ast.AST, method: str) -> bool:
    if isinstance(n, ast.UnaryOp) and isinstance(n.op, ast.Not):
        c = _self_call(n.operand, method)
        return bool(c and len(c.args) == 1 and isinstance(c.args[0], ast.Constant) and c.args[0].value == PERMISSION)
    return False


def _denies(body: List[ast.stmt]) -> bool:
    """body raises, or reports a failed global response and returns"""
    if any(isinstance(s, ast.Raise) for s in body):
        return True
    reported = False
    for s in body:
        for c in ast.walk(s):
            call = _self_call(c, '_report_global_response')
            if call and len(call.args) == 1 and isinstance(call.args[0], ast.Constant) and call.args[0].value is False:
                reported = True
    return reported and any(isinstance(s, ast.Return) for s in body)


def _checks_of(fn: ast.FunctionDef, app_names: List[str], consts: Optional[Dict[str, int]] = None) -> Dict[str, Any]:
    key = cert = permitopen = wildcard = False
    check_lines: List[int] = []
    for n in ast.walk(fn):
        if isinstance(n, ast.If):
            terms = n.test.values if isinstance(n.test, ast.BoolOp) and isinstance(n.test.op, ast.Or) else [n.test]
            k = any(_is_not_perm(t, 'check_key_permission') for t in terms)
            c = any(_is_not_perm(t, 'check_certificate_permission') for t in terms)
            if (k or c) and not _denies(n.body):
                raise Untranslatable(f'{fn.name}: permission test at line {n.lineno} does not deny')
            if (k or c) and n.orelse:
                raise Untranslatable(f'{fn.name}: permission test at line {n.lineno} has an else branch')
            if k or c:
                check_lines.append(n.lineno)
            key, cert = key or k, cert or c
    # permitopen: `x = self.get_key_option('permitopen')` then `if x and (h, p) not in x and (h, None) not in x: raise`
    po_var: Optional[str] = None
    for n in ast.walk(fn):
        if isinstance(n, ast.Assign) and len(n.targets) == 1 and isinstance(n.targets[0], ast.Name):
            for c in ast.walk(n.value):
                call = _self_call(c, 'get_key_option')
                if call and call.args and isinstance(call.args[0], ast.Constant) and call.args[0].value == 'permitopen':
                    po_var = n.targets[0].id
    if po_var:
        for n in ast.walk(fn):
            if isinstance(n, ast.If) and isinstance(n.test, ast.BoolOp) and isinstance(n.test.op, ast.And):
                vals = n.test.values
                # first conjunct: `permitted_opens` (truth value) or `permitted_opens is not None` -- the same thing
                # here, since `_add_permitopen` never leaves an empty set behind
                g = vals[0]
                is_truth = isinstance(g, ast.Name) and g.id == po_var
                is_presence = isinstance(g, ast.Compare) and len(g.ops) == 1 and isinstance(g.ops[0], ast.IsNot) \
                    and isinstance(g.left, ast.Name) and g.left.id == po_var \
                    and isinstance(g.comparators[0], ast.Constant) and g.comparators[0].value is None
                if not (is_truth or is_presence):
                    continue
                exact = wild = False
                for t in vals[1:]:
                    if isinstance(t, ast.Compare) and len(t.ops) == 1 and isinstance(t.ops[0], ast.NotIn) \
                            and isinstance(t.comparators[0], ast.Name) and t.comparators[0].id == po_var \
                            and isinstance(t.left, ast.Tuple) and len(t.left.elts) == 2 \
                            and isinstance(t.left.elts[0], ast.Name) and t.left.elts[0].id == 'dest_host':
                        second = t.left.elts[1]
                        if isinstance(second, ast.Name) and second.id == 'dest_port':
                            exact = True
                        elif isinstance(second, ast.Constant) and second.value is None:
                            wild = True
                        else:
                            raise Untranslatable(f'{fn.name}: unexpected permitopen membership test')
                    else:
                        raise Untranslatable(f'{fn.name}: unexpected term in the permitopen test')
                if not _denies(n.body) or n.orelse:
                    raise Untranslatable(f'{fn.name}: permitopen test does not deny')
                if exact:
                    permitopen, wildcard = True, wild
                    check_lines.append(n.lineno)
    # the application is asked after the checks
    app_lines = []
    app_args: List[ast.expr] = []
    for n in ast.walk(fn):
        if isinstance(n, ast.Call) and isinstance(n.func, ast.Attribute) and n.func.attr in app_names:
            app_lines.append(n.lineno)
            if not app_args:
                app_args = list(n.args)
    if not app_lines:
        raise Untranslatable(f'{fn.name}: call of {app_names} not found')
    # well-formedness tests on the address itself, on the very variables handed to the application:
    #   `if <port> > N: <deny>` / `>= N`        (N a literal or a module-level integer constant)
    #   `if '\0' in <path> and not <path>.startswith('\0'): <deny>`
    addr0 = app_args[0].id if app_args and isinstance(app_args[0], ast.Name) else None
    addr1 = app_args[1].id if len(app_args) > 1 and isinstance(app_args[1], ast.Name) else None
    max_port: Optional[int] = None
    path_nul = False
    for n in ast.walk(fn):
        if not isinstance(n, ast.If):
            continue
        t = n.test
        if isinstance(t, ast.Compare) and len(t.ops) == 1 and isinstance(t.ops[0], (ast.Gt, ast.GtE)) \
                and isinstance(t.left, ast.Name) and addr1 is not None and t.left.id == addr1:
            bound = _int_const(t.comparators[0], consts or {})
            if bound is None:
                raise Untranslatable(f'{fn.name}: bound of the port test at line {n.lineno} not understood')
            if not _denies(n.body) or n.orelse:
                raise Untranslatable(f'{fn.name}: port test at line {n.lineno} does not deny')
            m = bound if isinstance(t.ops[0], ast.Gt) else bound - 1
            max_port = m if max_port is None else min(max_port, m)
            check_lines.append(n.lineno)
        elif isinstance(t, ast.BoolOp) and isinstance(t.op, ast.And) and len(t.values) == 2 and addr0 is not None \
                and _is_nul_in(t.values[0], addr0) and _is_not_startswith_nul(t.values[1], addr0):
            if not _denies(n.body) or n.orelse:
                raise Untranslatable(f'{fn.name}: NUL test at line {n.lineno} does not deny')
            path_nul = True
            check_lines.append(n.lineno)
    after = all(cl < min(app_lines) for cl in check_lines)
    return dict(key=key, cert=cert, permitopen=permitopen, wildcard=wildcard, app_after=after,
                max_port=max_port, path_nul=path_nul)


def _int_const(n: ast.AST, consts: Dict[str, int]) -> Optional[int]:
    if isinstance(n, ast.Constant) and isinstance(n.value, int) and not isinstance(n.value, bool):
        return n.value
    if isinstance(n, ast.Name) and n.id in consts:
        return consts[n.id]
    return None


def _is_nul_in(n: ast.AST, var: str) -> bool:
    return isinstance(n, ast.Compare) and len(n.ops) == 1 and isinstance(n.ops[0], ast.In) \
        and isinstance(n.left, ast.Constant) and n.left.value == '\0' \
        and isinstance(n.comparators[0], ast.Name) and n.comparators[0].id == var


def _is_not_startswith_nul(n: ast.AST, var: str) -> bool:
    if not (isinstance(n, ast.UnaryOp) and isinstance(n.op, ast.Not)):
        return False
    c = n.operand
    return isinstance(c, ast.Call) and isinstance(c.func, ast.Attribute) and c.func.attr == 'startswith' \
        and isinstance(c.func.value, ast.Name) and c.func.value.id == var and len(c.args) == 1 \
        and isinstance(c.args[0], ast.Constant) and c.args[0].value == '\0'


def _module_int_consts(tree: ast.Module) -> Dict[str, int]:
    out: Dict[str, int] = {}
    for n in tree.body:
        if isinstance(n, ast.Assign) and len(n.targets) == 1 and isinstance(n.targets[0], ast.Name) \
                and isinstance(n.value, ast.Constant) and isinstance(n.value.value, int) \
                and not isinstance(n.value.value, bool):
            out[n.targets[0].id] = n.value.value
    return out


def _perm_rule(fn: ast.FunctionDef, attr: str) -> Tuple[str, bool]:
    """(prefix, default) of `self.<attr>.get(<prefix> + permission, <default>)`"""
    for n in ast.walk(fn):
        if isinstance(n, ast.Call) and isinstance(n.func, ast.Attribute) and n.func.attr == 'get' \
                and isinstance(n.func.value, ast.Attribute) and n.func.value.attr == attr and len(n.args) == 2:
            a0, a1 = n.args
            # `'no-' + permission`, or `'no-' + permission.lower()` since option names are stored in lower case
            right = a0.right if isinstance(a0, ast.BinOp) else None
            if isinstance(right, ast.Call) and isinstance(right.func, ast.Attribute) and right.func.attr == 'lower' \
                    and not right.args:
                right = right.func.value
            if isinstance(a0, ast.BinOp) and isinstance(a0.op, ast.Add) and isinstance(a0.left, ast.Constant) \
                    and isinstance(right, ast.Name) and right.id == 'permission' \
                    and isinstance(a1, ast.Constant) and isinstance(a1.value, bool):
                return str(a0.left.value), bool(a1.value)
    raise Untranslatable(f'{fn.name}: option lookup not understood')


def _is_self_attr(n: ast.AST, attr: str) -> bool:
    return isinstance(n, ast.Attribute) and n.attr == attr and isinstance(n.value, ast.Name) and n.value.id == 'self'


def _cert_guard(fn: ast.FunctionDef) -> Tuple[bool, bool]:
    """`check_certificate_permission` must be  `if <guard>: return <lookup>  else: return <const>`;
    returns (guard is the presence test `self._cert_options is not None`, the constant).  A bare
    `self._cert_options` guard is a truth-value test (an empty dictionary then counts as no certificate)."""
    body = [s for s in fn.body if not (isinstance(s, ast.Expr) and isinstance(getattr(s, 'value', None), ast.Constant))]
    if len(body) != 1 or not isinstance(body[0], ast.If):
        raise Untranslatable(f'{fn.name}: body is not a single if/else')
    node = body[0]
    if len(node.body) != 1 or not isinstance(node.body[0], ast.Return) or len(node.orelse) != 1 \
            or not isinstance(node.orelse[0], ast.Return) or not isinstance(node.orelse[0].value, ast.Constant) \
            or not isinstance(node.orelse[0].value.value, bool):
        raise Untranslatable(f'{fn.name}: branches are not `return <lookup>` / `return <bool>`')
    t = node.test
    if isinstance(t, ast.Compare) and len(t.ops) == 1 and isinstance(t.ops[0], ast.IsNot) \
            and _is_self_attr(t.left, '_cert_options') and isinstance(t.comparators[0], ast.Constant) \
            and t.comparators[0].value is None:
        presence = True
    elif _is_self_attr(t, '_cert_options'):
        presence = False
    else:
        raise Untranslatable(f'{fn.name}: guard {ast.dump(t)[:80]} not understood')
    return presence, bool(node.orelse[0].value.value)


def _key_lookup_shape(fn: ast.FunctionDef) -> bool:
    """`check_key_permission` must be a single `return [not] self._key_options.get(...)`; returns negated?"""
    body = [s for s in fn.body if not (isinstance(s, ast.Expr) and isinstance(getattr(s, 'value', None), ast.Constant))]
    if len(body) != 1 or not isinstance(body[0], ast.Return):
        raise Untranslatable(f'{fn.name}: body is not a single return')
    v = body[0].value
    neg = isinstance(v, ast.UnaryOp) and isinstance(v.op, ast.Not)
    call = v.operand if neg else v          # type: ignore
    if not (isinstance(call, ast.Call) and isinstance(call.func, ast.Attribute) and call.func.attr == 'get'
            and _is_self_attr(call.func.value, '_key_options')):
        raise Untranslatable(f'{fn.name}: not a lookup in self._key_options')
    return neg


def lean_bool(b: bool) -> str:
    return 'true' if b else 'false'


def lean_bytes(b: bytes) -> str:
    return '[' + ', '.join(str(x) for x in b) + ']'


def generate() -> Tuple[str, Dict[str, Any]]:
    src = open(os.path.join(vlib.REPO, 'asyncssh', 'connection.py')).read()
    tree = ast.parse(src)
    info: Dict[str, Any] = {}
    rows = []
    for kind, fname, app in HANDLERS:
        fn = _find_method(tree, 'SSHServerConnection', fname)
        ch = _checks_of(fn, app, _module_int_consts(tree))
        info[kind] = ch
        rows.append((kind, ch))
    key_fn = _find_method(tree, 'SSHServerConnection', 'check_key_permission')
    cert_fn = _find_method(tree, 'SSHServerConnection', 'check_certificate_permission')
    key_prefix, key_default = _perm_rule(key_fn, '_key_options')
    cert_prefix, cert_default = _perm_rule(cert_fn, '_cert_options')
    key_negated = _key_lookup_shape(key_fn)          # `return not self._key_options.get(...)`: the option revokes
    cert_presence, cert_absent_true = _cert_guard(cert_fn)
    # the permitopen guard: `permitted_opens and ...` (truth value: an empty set is "no restriction")
    info['rules'] = dict(key_prefix=key_prefix, key_default=key_default, key_negated=key_negated,
                         cert_prefix=cert_prefix, cert_default=cert_default, cert_absent_true=cert_absent_true,
                         cert_guard_is_presence_test=cert_presence)

    socks = importlib.import_module('asyncssh.socks')
    consts = importlib.import_module('asyncssh.constants')
    names = ['SOCKS4', 'SOCKS5', 'SOCKS_CONNECT', 'SOCKS4_OK', 'SOCKS5_OK', 'SOCKS5_AUTH_NONE',
             'SOCKS5_ADDR_IPV4', 'SOCKS5_ADDR_HOSTNAME', 'SOCKS5_ADDR_IPV6']
    for nm in names:
        if not isinstance(getattr(socks, nm, None), int):
            raise Untranslatable(f'socks.{nm} is not an int')
    addr_len = getattr(socks, '_socks5_addr_len', None)
    if not isinstance(addr_len, dict) or not all(isinstance(k, int) and isinstance(v, int) for k, v in addr_len.items()):
        raise Untranslatable('socks._socks5_addr_len not a dict of ints')
    info['socks'] = {nm: getattr(socks, nm) for nm in names}

    out = []
    out.append('import AsyncsshModel.Model.Forward')
    out.append('/- GENERATED on every run by harness/props/_c20_translate.py from asyncssh/connection.py and')
    out.append('   asyncssh/socks.py of the checked tree.  Do not edit. -/')
    out.append('namespace AsyncsshModel.Gen.C20')
    out.append('open AsyncsshModel AsyncsshModel.Forward')
    out.append('')
    out.append('/-- which checks guard each request kind: key permission, certificate permission, permitopen; the largest')
    out.append('    port number the handler lets through (`if <port> > N: <deny>`), and whether it refuses a path name with a')
    out.append('    NUL inside -/')
    out.append('def checksOf : ReqKind → Checks')
    for kind, ch in rows:
        mp = 'none' if ch['max_port'] is None else f'some {ch["max_port"]}'
        out.append(f'  | .{kind} => {{ key := {lean_bool(ch["key"])}, cert := {lean_bool(ch["cert"])}, '
                   f'permitopen := {lean_bool(ch["permitopen"])}, maxPort := {mp}, '
                   f'pathNul := {lean_bool(ch["path_nul"])} }}')
    out.append('')
    out.append('/-- all credential checks of the handler come before the application callback -/')
    out.append('def appAskedAfterChecks : ReqKind → Bool')
    for kind, ch in rows:
        out.append(f'  | .{kind} => {lean_bool(ch["app_after"])}')
    out.append('')
    out.append('/-- the permitopen test also accepts `(dest_host, None)`, the `host:*` form -/')
    out.append(f'def permitopenWildcardPort : Bool := {lean_bool(info["directTcpip"]["wildcard"])}')
    out.append('')
    out.append("/-- `check_key_permission`: `not self._key_options.get(<prefix> + permission, <default>)` -/")
    out.append(f'def keyOptionPrefix : String := "{key_prefix}"')
    out.append(f'def keyOptionDefault : Bool := {lean_bool(key_default)}')
    out.append(f'def keyOptionRevokes : Bool := {lean_bool(key_negated)}')
    out.append("/-- `check_certificate_permission`: `self._cert_options.get(<prefix> + permission, <default>)`, `True` without a certificate -/")
    out.append(f'def certOptionPrefix : String := "{cert_prefix}"')
    out.append(f'def certOptionDefault : Bool := {lean_bool(cert_default)}')
    out.append(f'def certAbsentPermits : Bool := {lean_bool(cert_absent_true)}')
    out.append("/-- the guard of `check_certificate_permission` is the presence test `self._cert_options is not None`")
    out.append("    (false: a truth-value test, under which a certificate without any option counts as no certificate) -/")
    out.append(f'def certGuardIsPresenceTest : Bool := {lean_bool(cert_presence)}')
    out.append('/-- the lookup rules as one record, the parameter of the decision model -/')
    out.append('def lookup : Lookup :=')
    out.append('  { keyRevokes := keyOptionRevokes, keyDefault := keyOptionDefault, certPresence := certGuardIsPresenceTest,')
    out.append('    certDefault := certOptionDefault, certAbsent := certAbsentPermits }')
    out.append('')
    out.append('/-! constants of asyncssh/socks.py and asyncssh/constants.py -/')
    for nm in names:
        out.append(f'def {nm} : Nat := {getattr(socks, nm)}')
    out.append(f'def SOCKS4_OK_RESPONSE : Bytes := {lean_bytes(socks.SOCKS4_OK_RESPONSE)}')
    out.append(f'def SOCKS5_OK_RESPONSE_HDR : Bytes := {lean_bytes(socks.SOCKS5_OK_RESPONSE_HDR)}')
    out.append('def socks5AddrLen : List (Nat × Nat) := ['
               + ', '.join(f'({k}, {v})' for k, v in sorted(addr_len.items())) + ']')
    out.append(f'def OPEN_ADMINISTRATIVELY_PROHIBITED : Nat := {consts.OPEN_ADMINISTRATIVELY_PROHIBITED}')
    out.append(f'def OPEN_CONNECT_FAILED : Nat := {consts.OPEN_CONNECT_FAILED}')
    out.append('')
    out.append('end AsyncsshModel.Gen.C20')
    return '\n'.join(out) + '\n', info


def translate(ctx: Any) -> Dict[str, Any]:
    text, info = generate()
    changed = vlib.write_if_changed(os.path.join(vlib.LEAN_DIR, 'AsyncsshModel', 'Gen', 'C20.lean'), text)
    pins = {q: vlib.ast_pin(p, q) for p, q in [
        ('asyncssh/forward.py', 'SSHForwarder'), ('asyncssh/forward.py', 'SSHLocalForwarder'),
        ('asyncssh/socks.py', 'SSHSOCKSForwarder'),
        ('asyncssh/connection.py', 'SSHServerConnection._process_direct_tcpip_open'),
        ('asyncssh/connection.py', 'SSHServerConnection._finish_port_forward'),
        ('asyncssh/connection.py', 'SSHConnection._cleanup'),
        ('asyncssh/connection.py', 'SSHConnection.forward_connection'),
        ('asyncssh/connection.py', 'SSHConnection.forward_unix_connection'),
        ('asyncssh/connection.py', 'SSHConnection.forward_local_path'),
        ('asyncssh/connection.py', 'SSHServerConnection._process_tcpip_forward_global_request'),
        ('asyncssh/connection.py', 'SSHServerConnection._process_direct_streamlocal_at_openssh_dot_com_open'),
        ('asyncssh/listener.py', 'create_tcp_local_listener'),
        ('asyncssh/listener.py', 'create_unix_forward_listener'),
        ('asyncssh/listener.py', 'SSHForwardListener')]}
    return {'gen_changed': changed, 'checks': {k: v for k, v in info.items() if k not in ('socks',)},
            'socks_consts': info['socks'], 'ast_pins': pins}
