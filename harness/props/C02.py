"""C02 — Emitted packets conform to RFC 4253 and survive any segmentation.

Lean: Model/Transport.lean, Lemmas/Transport.lean, Props/C02.lean over the regenerated Gen/C02.lean
(padding rule, receive-length expression, sequence updates, layout table of every cipher/MAC pair).
Correspondence: the Lean sender arithmetic, RFC frame decoder, cleartext receiver and compute_key loop versus
real sessions (wire bytes decoded by an independent reference peer) and the real Kex.compute_key.
Oracle: every packet both endpoints emit decodes under the RFC-derived keys with a valid MAC over the right
sequence number, and every payload submitted is dispatched exactly once, in order, under seeded re-chunking.
"""

from __future__ import annotations

import ast
import asyncio
import importlib
import random
from typing import Any, Dict, List, Tuple

import pair
import translate as T
import vlib
from vlib import Ctx, CorrResult, OracleResult, Failure, Disagreement, Hist, hx

from props import _transport_gen as tgen
from props import _transport_sessions as ts
import refpeer

PROPERTY = 'C02'
MANIFEST = {
    'text': 'Lean 4 theorems over definitions regenerated from connection.py on every run: the padding rule gives '
            '4..255 bytes and block alignment for EVERY payload length and every negotiable cipher/MAC layout '
            '(pad_ok), every frame the sender builds parses under an RFC-4253 decoder written from the RFC '
            '(rfc_decodes_sender_frames), compute_key equals the RFC 7.2 expansion for every key length '
            '(compute_key_eq_rfc), and for EVERY chunking of the wire stream the receiver machine dispatches exactly '
            'the payloads sent, once, in order (segmentation_independent, by an invariant over the receive loop). '
            'Tied to the code by the translator (AST of send_packet/_recv_packet) and by real sessions whose wire '
            'bytes an independent reference peer (cryptography/hashlib only) decrypts and MAC-checks.',
    'note': 'cipher/MAC/hash primitives (PyCA) trusted; OpenSSH interop replaced by the RFC-derived reference peer '
            '(no sshd here); umac and legacy ciphers (blowfish, cast, arcfour, seed) are covered by the delivery '
            'oracle but not by the reference decoder',
    'technique': 'Lean 4 proof (invariant over the receive loop, arithmetic from translated AST) + differential '
                 'correspondence with an independent reference decoder',
}
LEAN_PROPS = ['AsyncsshModel.Props.C02']
DRIVER = 'Drivers/C02.lean'
TRUSTED = ['PyCA cryptography / hashlib / zlib primitives', 'harness reference peer (harness/refpeer.py)']
ASSUMPTIONS = ['payload length + 300 < 2^32 (UInt32 length field)',
               'fewer than 2^32 packets per key epoch (sequence numbers do not wrap inside a theorem\'s window)']


def translate(ctx: Ctx) -> Dict[str, Any]:
    info = tgen.generate('C02')
    # self-test: the translated expressions against the Python originals, evaluated from the source text
    src = T.read_source('asyncssh/connection.py')
    tree = ast.parse(src)
    send = T.find_def(tree, 'SSHConnection.send_packet')
    asg = T.find_assign(send, 'padlen', 0)
    stmts = [asg]
    for n in ast.walk(send):
        if isinstance(n, ast.If) and n.lineno > asg.lineno and len(n.body) == 1 and \
                isinstance(n.body[0], ast.AugAssign) and getattr(n.body[0].target, 'id', '') == 'padlen':
            stmts.append(n)
            break
    code = compile(ast.Module(body=stmts, type_ignores=[]), '<padlen>', 'exec')

    def py_padlen(hdr: int, ln: int, bs: int) -> int:
        class S:
            _send_enchdrlen = hdr
            _send_blocksize = bs
        ns: Dict[str, Any] = {'self': S, 'payload': b'\0' * ln, 'len': len}
        exec(code, ns)
        return ns['padlen']
    rng = ctx.subrng('selftest')
    args = [(rng.choice([1, 5]), rng.randrange(0, 5000), rng.choice([8, 16])) for _ in range(40)]
    args += [(h, l, b) for h in (1, 5) for b in (8, 16) for l in range(0, 18)]
    bad = T.self_test_exprs([('padlenExpr', py_padlen, args)], 'AsyncsshModel.Gen.C02', 'AsyncsshModel.Gen.C02')
    info['selftest_cases'] = len(args)
    if bad:
        raise T.Untranslatable('translator self-test failed: ' + '; '.join(bad[:3]))
    return info


def _sizes(rng: random.Random, thorough: bool) -> List[int]:
    base = [0, 1, 2, 3, 4, 5, 6, 7, 8, 9, 10, 11, 12, 13, 14, 15, 16, 17, 31, 32, 33, 255, 256, 257]
    rng.shuffle(base)
    out = base[:rng.randint(6, 14)] + [rng.randrange(0, 3000) for _ in range(4)]
    if thorough or rng.random() < 0.3:
        out += [rng.choice([32767, 32768, 35000, 70000])]
    return out


def _toy_hash_class(d: int) -> Any:
    class Toy:
        def __init__(self, data: bytes = b'') -> None:
            self.m = bytes(data)

        def update(self, data: bytes) -> None:
            self.m += bytes(data)

        def digest(self) -> bytes:
            s = sum(self.m)
            return bytes((s + i * len(self.m) + 7 * i) % 256 for i in range(d))
    return Toy


def correspondence(ctx: Ctx) -> CorrResult:
    res = CorrResult()
    hist = Hist()
    rng = ctx.subrng('corr')
    lines: List[str] = []
    expect: List[Tuple[str, Any, str]] = []

    # (1) real sessions decoded by the reference peer -> padding rule, RFC frame check, cleartext receiver
    combos = ts.combos(rng, None if ctx.tier == 'thorough' else ctx.n(8, 8), reference_only=True)
    if ctx.tier == 'thorough':
        rng.shuffle(combos)
        combos = combos[:200]
    sessions = pair.run(_run_sessions(combos, ctx.subrng('sessions'), ctx.tier == 'thorough'), timeout=3000)
    layouts_seen = set()
    for sres in sessions:
        combo = sres['combo']
        if sres['error']:
            res.notes.append(f'session {combo} failed: {sres["error"]}')
            res.disagreements.append(Disagreement({'combo': combo}, 'session completes', sres['error'],
                                                  'correspondence:session'))
            continue
        for role in ('client', 'server'):
            pk, problem = ts.reference_decode(sres, role)
            if problem:
                res.disagreements.append(Disagreement({'combo': combo, 'role': role}, 'decodes', problem,
                                                      'correspondence:reference-decode'))
                continue
            assert pk is not None
            sample = pk if len(pk) <= 30 else rng.sample(pk, 30)
            for p in sample:
                lines.append(f'pad {p["hdrlen"]} {p["wire_payload_len"]} {p["bs"]}')
                expect.append(('padding-rule', {'combo': combo, 'role': role, 'seq': p['seq'],
                                                'payload_len': p['wire_payload_len']}, str(p['padlen'])))
                lines.append(f'check {p["bs"]} {p["hdrlen"]} {hx(p["frame"])}')
                wire_payload = p['frame'][5:len(p['frame']) - p['padlen']]
                expect.append(('rfc-frame', {'combo': combo, 'role': role, 'seq': p['seq']}, 'ok ' + hx(wire_payload)))
                layouts_seen.add((p['bs'], p['taglen'], p['hdrlen']))
                hist.hit(f'layout bs={p["bs"]} hdr={p["hdrlen"]}')
            # cleartext handshake re-chunked through the Lean receiver
            clear = [p for p in pk if not p['encrypted']]
            direction = pair.C2S if role == 'client' else pair.S2C
            stream = b''.join(sres['hub'].writes[direction][1:1 + len(clear)])
            chunks = _rechunk(stream, rng)
            lines.append('recv ' + ' '.join(hx(c) for c in chunks))
            expect.append(('cleartext-receiver', {'combo': combo, 'role': role, 'chunks': len(chunks)},
                           ','.join(hx(p['payload']) for p in clear) + f' | open seq={len(clear)}'))
            hist.hit('recv-chunks', len(chunks))
    res.nontrivial += len(layouts_seen) + len(sessions)

    # (2) compute_key against the RFC expansion with a recording toy hash, every kex handler's code path
    kexmod = importlib.import_module('asyncssh.kex')
    for i in range(ctx.n(60, 600)):
        d = rng.choice([1, 2, 3, 16, 20, 32, 48, 64])
        keylen = rng.choice([0, 1, d - 1 if d > 1 else 1, d, d + 1, 2 * d, 2 * d + 1, rng.randrange(0, 200)])
        k, h, x, sid = (bytes(rng.getrandbits(8) for _ in range(rng.randint(0, 6))) for _ in range(4))
        lines.append(f'ckey {d} {hx(k)} {hx(h)} {hx(x)} {hx(sid)} {keylen}')
        kexobj = kexmod.Kex.__new__(kexmod.Kex)
        kexobj._hash_alg = _toy_hash_class(d)
        try:
            impl = hx(kexmod.Kex.compute_key(kexobj, k, h, x, sid, keylen))
        except Exception as e:
            impl = 'exc:' + type(e).__name__
        expect.append(('compute_key', {'d': d, 'keylen': keylen}, impl))
        hist.hit('ckey')
    res.nontrivial += 1

    out = ctx.model(DRIVER, lines)
    for line, (name, case, impl), mod in zip(lines, expect, out):
        res.cases += 1
        if mod != impl:
            res.disagreements.append(Disagreement({'op': name, **case, 'line': line[:300]}, mod[:300], impl[:300],
                                                  f'correspondence:{name}'))
    res.histogram = dict(hist)
    res.samples = [{'line': lines[0][:200], 'model': out[0][:200]}, {'line': lines[-1][:200], 'model': out[-1][:200]}]
    res.rule = ('real sessions for seeded (cipher,mac,compression,kex) combinations with seeded re-chunking; every '
                'decoded packet gives a padding-rule case and an RFC-frame case; distinct = distinct layouts + '
                'sessions; compute_key with a toy hash over digest sizes 1..64 and key lengths around multiples')
    ctx.notes.append(f'layouts exercised: {sorted(layouts_seen)}')
    return res


def _rechunk(stream: bytes, rng: random.Random) -> List[bytes]:
    chunks, i = [], 0
    mode = rng.random()
    while i < len(stream):
        n = 1 if mode < 0.3 else rng.choice([1, 2, 3, 5, 8, 13, 64, 1000])
        chunks.append(stream[i:i + n])
        i += n
        if rng.random() < 0.05:
            chunks.append(b'')
    return chunks


def compression_rekey_combos(rng: random.Random) -> List[Tuple[str, str, str, str]]:
    """one session per compression method other than `none`, always re-keyed on the way: RFC 4253 6.2 starts a new
    compression context after each key exchange, in both directions (an independent inflater started at NEWKEYS
    must read what follows)"""
    encs, macs, cmps, kexs = ts.all_algs()
    fast = [k for k in kexs if 'curve25519' in k] or kexs
    pairs_ = [(e, m) for e in encs for m in (macs if ts.needs_mac(e) else ['']) if refpeer.supported(e, m)]
    return [(*rng.choice(pairs_), c, fast[0]) for c in cmps if c != 'none']


async def _run_sessions(combos: List[Tuple[str, str, str, str]], rng: random.Random, thorough: bool,
                        always_rekey: int = 0) -> List[Dict[str, Any]]:
    out = []
    for i, combo in enumerate(combos):
        # every third session re-keys several times on the way (client side byte limit): framing, sequence numbers
        # and key epochs must stay in step across NEWKEYS, whichever cipher family frames the packets
        rekey = rng.choice([3000, 9000, 20000]) if i % 3 == 2 else None
        if i < always_rekey:
            rekey = 600             # counted in compressed bytes: the repetitive test data shrinks a lot
        sizes = _sizes(rng, thorough)
        if rekey:
            sizes = sizes + [rng.choice([4000, 9000])] * 3
        try:
            out.append(await asyncio.wait_for(ts.run_session(*combo, rng=rng, sizes=sizes, rekey_bytes=rekey), 120))
        except asyncio.TimeoutError:
            # a session that neither completes nor fails (a write or drain waiting for a re-exchange that never
            # finishes): reported like any other session failure instead of stalling the whole check
            out.append({'combo': combo, 'sizes': sizes, 'error': 'TimeoutError: session still running after 120 s'})
    return out


def oracle(ctx: Ctx) -> OracleResult:
    res = OracleResult()
    hist = Hist()
    rng = ctx.subrng('oracle')
    n = None if (ctx.tier == 'thorough' or ctx.escalated) else 14
    combos = ts.combos(rng, n, reference_only=False)
    if n is None and ctx.tier != 'thorough':
        rng.shuffle(combos)
        combos = combos[:120]
    crk = compression_rekey_combos(rng)
    combos = crk + key_stretch_combos(rng, 2 if n is not None else 8) + combos
    sessions = pair.run(_run_sessions(combos, ctx.subrng('osessions'), ctx.tier == 'thorough', always_rekey=len(crk)),
                        timeout=3000)
    for sres in sessions:
        combo = sres['combo']
        res.evaluations += 1
        if combo[2] != 'none' and len(sres.get('keys', {}).get('client', [])) > 1:
            hist.hit('compressed-session-with-re-exchange')
        key = {'combo': list(combo), 'sizes': sres['sizes'], 'seed': ctx.seed}
        if sres['error']:
            res.failures.append(Failure(f'session-failed:{sres["error"].split(":")[0]}',
                                        f'session with {combo} did not complete: {sres["error"]}', key))
            continue
        if sres['app_sent'] != sres['app_got']:
            res.failures.append(Failure('application-bytes-differ',
                                        f'{combo}: echoed {len(sres["app_got"])} bytes for {len(sres["app_sent"])} sent', key))
        for role, other in (('client', 'server'), ('server', 'client')):
            sent = [p for _q, p in sres['sent'][role]]
            recv = [p for _q, p, _n in sres['recv'][other]]
            hist.hit('packets', len(sent))
            if sent != recv and not _teardown_tail_only(sent, recv):
                res.failures.append(Failure('payload-sequence-differs',
                                            f'{combo} {role}->{other}: {len(sent)} payloads sent, {len(recv)} dispatched, '
                                            f'first difference at #{_first_diff(sent, recv)}', key))
            seqs = [q for q, _p in sres['sent'][role]]
            if refpeer.supported(combo[0], combo[1]) and refpeer.kex_hash(combo[3]):
                pk, problem = ts.reference_decode(sres, role)
                hist.hit('reference-decoded')
                if problem:
                    res.failures.append(Failure('rfc-nonconformant:' + problem.split('(')[0].strip()[:40],
                                                f'{combo} {role}: reference decoder: {problem} at packet #{len(pk or [])}', key))
                elif [p['payload'] for p in pk] != sent and \
                        not _teardown_tail_only(sent, [p['payload'] for p in pk]):      # type: ignore
                    res.failures.append(Failure('wire-payload-differs-from-submitted',
                                                f'{combo} {role}: decoded wire payloads differ from submitted ones', key))
            else:
                hist.hit('delivery-only')
    res.nontrivial = len(set(s['combo'] for s in sessions))
    res.histogram = dict(hist)
    res.samples = [{'combo': s['combo'], 'sizes': s['sizes'][:8], 'packets_c2s': len(s.get('sent', {}).get('client', []))}
                   for s in sessions[:3]]
    res.rule = ('one real session per (cipher, mac, compression, kex) combination, both roles, write sizes around '
                'block boundaries and >32k, seeded 1..40-byte re-chunking of the byte stream; distinct = combinations')
    return res


def _teardown_tail_only(sent: List[bytes], got: List[bytes]) -> bool:
    """`got` is a prefix of `sent` and what is missing are transport-layer messages only (DISCONNECT, IGNORE, key
    exchange): the packets an endpoint writes while the other end is already closing the connection -- a re-exchange
    that happens to start at the very end of the session -- can be neither dispatched nor found on the wire.  Any
    service-level payload (type 50 and above) that is missing remains a failure."""
    if len(got) > len(sent) or sent[:len(got)] != got:
        return False
    return all(p[:1] and (p[0] in (1, 2, 3, 4) or 20 <= p[0] <= 49) for p in sent[len(got):])


def key_stretch_combos(rng: random.Random, k: int) -> List[Tuple[str, str, str, str]]:
    """Combinations whose derived keys need MORE than two digest blocks (RFC 4253 7.2 expansion K3, K4, ...):
    a short-digest key exchange with a 64-byte cipher or MAC key."""
    _encs, _macs, _cmps, kexs = ts.all_algs()
    short = [x for x in kexs if refpeer.kex_hash(x) == 'sha1' and 'gex' not in x and 'rsa' not in x
             and ('group14' in x or 'group1-' in x)] or [x for x in kexs if refpeer.kex_hash(x) == 'sha1']
    longkey = [('chacha20-poly1305@openssh.com', ''), ('aes128-ctr', 'hmac-sha2-512'),
               ('aes256-ctr', 'hmac-sha2-512-etm@openssh.com')]
    out = []
    for i in range(k):
        if not short:
            break
        e, m = longkey[i % len(longkey)]
        out.append((e, m, 'none', short[rng.randrange(len(short))]))
    return out


def _first_diff(a: List[bytes], b: List[bytes]) -> int:
    for i, (x, y) in enumerate(zip(a, b)):
        if x != y:
            return i
    return min(len(a), len(b))


def replay(ctx: Ctx, rep: Dict[str, Any]) -> List[Failure]:
    r = rep.get('replay', rep)
    rng = random.Random(r.get('seed', 0))
    sres = pair.run(ts.run_session(*r['combo'], rng=rng, sizes=r['sizes']))
    fails = []
    if sres['error']:
        fails.append(Failure('session-failed', sres['error'], r))
    else:
        for role, other in (('client', 'server'), ('server', 'client')):
            if [p for _q, p in sres['sent'][role]] != [p for _q, p, _n in sres['recv'][other]]:
                fails.append(Failure('payload-sequence-differs', role, r))
            if refpeer.supported(r['combo'][0], r['combo'][1]):
                _pk, problem = ts.reference_decode(sres, role)
                if problem:
                    fails.append(Failure('rfc-nonconformant', problem, r))
    return fails
