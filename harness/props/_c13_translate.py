"""Translator for C13: regenerates lean/AsyncsshModel/Gen/C13.lean from the current asyncssh/sftp.py.

Three structural facts about the code the C13 theorems are stated over (each detected from the AST; anything
the translator does not recognise raises `translate.Untranslatable`):
  * `SFTPClient._copy`            : names of a directory listing containing `/` raise (repair F7);
  * `SFTPGlob._match_pattern`     : likewise for the names a glob is matched against (`mget`);
  * `SFTPServer.readlink`         : under a chroot the link's target is resolved from the directory of the link
                                    (`os.path.join(os.path.dirname(<link path>), target)`), not as it stands
                                    (= from the current directory of the server process).
"""

from __future__ import annotations

import ast
import os
from typing import Any, Dict, List, Tuple

import translate as T
import vlib

SRC = 'asyncssh/sftp.py'


def _sorted(node: ast.AST, kind: Any) -> List[Any]:
    found = [n for n in ast.walk(node) if isinstance(n, kind)]
    found.sort(key=lambda n: (n.lineno, n.col_offset))
    return found


def _listing_loop_rejects(fn: ast.AST, iter_needle: str, what: str) -> bool:
    """the `async for entry in <...scandir(...)>` loop of `fn`: `.`/`..` skipped first; is a name containing `/`
    refused (a raise) before the name is used?"""
    loops = [f for f in _sorted(fn, ast.AsyncFor) if iter_needle in ast.unparse(f.iter)]
    if len(loops) != 1:
        raise T.Untranslatable(f'{what}: one loop over {iter_needle} expected')
    body = loops[0].body
    names = [a for a in body if isinstance(a, ast.Assign) and len(a.targets) == 1 and
             isinstance(a.targets[0], ast.Name) and '.filename' in ast.unparse(a.value)]
    if len(names) != 1 or body[0] is not names[0]:
        raise T.Untranslatable(f'{what}: `filename = ... .filename` first in the loop expected')
    v = names[0].targets[0].id      # type: ignore
    ifs = [s for s in body if isinstance(s, ast.If)]
    if not ifs or ast.unparse(ifs[0].test) != f"{v} in (b'.', b'..')" or \
            [type(x) for x in ifs[0].body] != [ast.Continue] or ifs[0].orelse:
        raise T.Untranslatable(f"{what}: `if filename in (b'.', b'..'): continue` expected")
    rej = [i for i in ifs[1:] if ast.unparse(i.test) == f"b'/' in {v}"]
    if not rej:
        if "b'/' in" in ast.unparse(loops[0]):
            raise T.Untranslatable(f'{what}: a test for `/` in a shape that is not recognised')
        return False
    if len(rej) != 1 or rej[0] is not ifs[1] or [type(x) for x in rej[0].body] != [ast.Raise] or rej[0].orelse:
        raise T.Untranslatable(f"{what}: `if b'/' in filename: raise ...` right after the `.`/`..` test expected")
    exc = rej[0].body[0].exc
    if not (isinstance(exc, ast.Call) and ast.unparse(exc.func) in ('SFTPBadMessage', 'SFTPFailure', 'SFTPError')):
        raise T.Untranslatable(f'{what}: the refusal raises something unexpected')
    # nothing uses the name before the test
    for st in body[1:body.index(rej[0])]:
        if st is not ifs[0] and any(isinstance(x, ast.Name) and x.id == v for x in ast.walk(st)):
            raise T.Untranslatable(f'{what}: the name is used before it is checked')
    return True


def generate() -> Tuple[str, Dict[str, Any]]:
    tree = ast.parse(T.read_source(SRC))
    info: Dict[str, Any] = {}
    errors: List[str] = []
    try:
        info['copy_rejects_slash'] = _listing_loop_rejects(T.find_def(tree, 'SFTPClient._copy'), 'scandir(',
                                                           'SFTPClient._copy')
    except Exception as e:
        errors.append(str(e))
    try:
        info['glob_rejects_slash'] = _listing_loop_rejects(T.find_def(tree, 'SFTPGlob._match_pattern'),
                                                           'self._scandir(', 'SFTPGlob._match_pattern')
        # the local name of a match is the basename of the matched path
        bc = T.find_def(tree, 'SFTPClient._begin_copy')
        if 'srcfs.basename(srcfile)' not in ast.unparse(bc) or 'compose_path(basename, parent=dstpath)' not in ast.unparse(bc):
            raise T.Untranslatable('_begin_copy: `dstfile = compose_path(basename(srcfile), parent=dstpath)` expected')
    except Exception as e:
        errors.append(str(e))
    try:
        rl = T.find_def(tree, 'SFTPServer.readlink')
        reads = [a for a in _sorted(rl, ast.Assign) if isinstance(a.value, ast.Call) and
                 ast.unparse(a.value.func) == 'os.readlink' and len(a.value.args) == 1]
        if len(reads) != 1 or not isinstance(reads[0].targets[0], ast.Name):
            raise T.Untranslatable('readlink: `target = os.readlink(...)` expected')
        vt = reads[0].targets[0].id
        arg = reads[0].value.args[0]
        chk = [i for i in _sorted(rl, ast.If) if ast.unparse(i.test) == 'self._chroot']
        if len(chk) != 1 or len(chk[0].body) != 1 or not isinstance(chk[0].body[0], ast.Assign) or chk[0].orelse:
            raise T.Untranslatable('readlink: `if self._chroot: path = os.path.realpath(...)` expected')
        asg = chk[0].body[0]
        if ast.unparse(asg.targets[0]) != vt or not isinstance(asg.value, ast.Call) or \
                ast.unparse(asg.value.func) != 'os.path.realpath' or len(asg.value.args) != 1:
            raise T.Untranslatable('readlink: `path = os.path.realpath(...)` expected')
        rp = ast.unparse(asg.value.args[0])
        mapped = '_to_local_path(self.map_path(path))'
        if rp == vt:
            if ast.unparse(arg) != mapped:
                raise T.Untranslatable('readlink: os.readlink(_to_local_path(self.map_path(path))) expected')
            info['readlink_from_link_dir'] = False
        else:
            lps = [a for a in _sorted(rl, ast.Assign) if ast.unparse(a.value) == mapped and isinstance(a.targets[0], ast.Name)]
            if len(lps) != 1 or ast.unparse(arg) != lps[0].targets[0].id or \
                    rp != f'os.path.join(os.path.dirname({lps[0].targets[0].id}), {vt})':
                raise T.Untranslatable('readlink: realpath(os.path.join(os.path.dirname(<link path>), target)) expected')
            info['readlink_from_link_dir'] = True
        if 'self.reverse_map_path(' not in ast.unparse(_sorted(rl, ast.Return)[-1]):
            raise T.Untranslatable('readlink: the answer must go through reverse_map_path')
    except Exception as e:
        errors.append(str(e))
    out = [T.header('C13', [SRC + ' (SFTPClient._copy, SFTPGlob._match_pattern, SFTPClient._begin_copy, SFTPServer.readlink)']),
           'namespace AsyncsshModel.Gen.C13', '',
           '/-- does `SFTPClient._copy` refuse names of a directory listing that contain `/`? -/',
           f'def copyRejectsSlash : Bool := {T.lean_bool(info.get("copy_rejects_slash", False))}', '',
           '/-- does `SFTPGlob._match_pattern` refuse names of a directory listing that contain `/`? -/',
           f'def globRejectsSlash : Bool := {T.lean_bool(info.get("glob_rejects_slash", False))}', '',
           '/-- does `SFTPServer.readlink` resolve the target from the directory of the link (not the server\'s cwd)? -/',
           f'def readlinkFromLinkDir : Bool := {T.lean_bool(info.get("readlink_from_link_dir", False))}', '']
    for e in errors:
        out.append('-- NOT TRANSLATED: ' + e.replace('\n', ' '))
    out.append('end AsyncsshModel.Gen.C13')
    info['errors'] = errors
    return '\n'.join(out) + '\n', info


def translate(ctx: Any) -> Dict[str, Any]:
    text, info = generate()
    path = os.path.join(vlib.LEAN_DIR, 'AsyncsshModel', 'Gen', 'C13.lean')
    info['changed'] = vlib.write_if_changed(path, text)
    info['file'] = 'lean/AsyncsshModel/Gen/C13.lean'
    if info['errors']:
        raise T.Untranslatable('; '.join(info['errors']))
    return info
