"""Scenarios of the channel checks C07 / C08 that need other session kinds than the shell channels of
`_channel_lib.RealRun`: layer-3 tunnel channels (`SSHTunTapChannel`, point-to-point mode: every packet travels
behind a 4-byte address family which the receiver strips) and server sessions written with the STREAM API
(`session_factory=handler(stdin, stdout, stderr)`).  Real client / server pair over the in-memory hub (automatic
delivery), real channels, only public API — except for the second `shell` request, which no public API sends.

Each `run_*` returns what was observable; each `check_*` judges it from the property text alone and returns
`Failure`s with one signature per root cause.
"""
from __future__ import annotations

import asyncio
import random
from typing import Any, Dict, List, Optional

import asyncssh
from asyncssh.packet import SSHPacket

import capture
import pair
from vlib import Failure

from props import _channel_oracle as O

# ---------------------------------------------------------------------------------------------------------
# layer-3 tunnel: one side writes packets, the other side's application reads every packet it is given


class _TunSess(asyncssh.SSHTunTapSession):      # type: ignore
    def __init__(self) -> None:
        self.chan: Any = None
        self.got: List[bytes] = []
        self.lost: Any = 'open'
        self.eof = False

    def connection_made(self, chan: Any) -> None:
        self.chan = chan

    def data_received(self, data: bytes, datatype: Any) -> None:
        self.got.append(bytes(data))

    def eof_received(self) -> bool:
        self.eof = True
        return True

    def connection_lost(self, exc: Any) -> None:
        self.lost = exc


def tun_packet(k: int, n: int) -> bytes:
    """an IPv4-looking packet of n >= 1 bytes, recognisable by its number"""
    body = bytes([0x41 + k % 26]) * max(0, n - 1)
    return (b'\x45' + body)[:max(1, n)]


async def _run_tun(case: Dict[str, Any]) -> Dict[str, Any]:
    ssess: List[_TunSess] = []

    class Srv(asyncssh.SSHServer):
        def begin_auth(self, username: str) -> bool:
            return False

        def tun_requested(self, unit: Any) -> Any:
            s = _TunSess()
            ssess.append(s)
            return s
    c, s, hub = await pair.make_pair(server_factory=Srv, server_opts=dict(rekey_bytes=1 << 40),
                                     client_opts=dict(rekey_bytes=1 << 40))
    res: Dict[str, Any] = {'error': None}
    tap = case['_tap']
    try:
        csess = _TunSess()
        # the client advertises the window / maximum packet size the server-side writer has to respect
        await c.create_tun(lambda: csess, window=case['window'], max_pktsize=case.get('max_pktsize', 32768))
        await pair.settle(20)
        if not ssess or ssess[0].chan is None:
            raise RuntimeError('tunnel channel not opened at the server')
        writer, reader = ssess[0], csess
        sizes = case['sizes']
        written = [tun_packet(k, n) for k, n in enumerate(sizes)]
        burst = case.get('burst', len(written))
        k = 0
        while k < len(written):
            for p in written[k:k + burst]:
                writer.chan.write(p)
            k += burst
            await pair.settle(30)
        last = -1
        for _ in range(200):                       # until nothing moves any more (the reader reads all along)
            await pair.settle(30)
            state = (len(reader.got), writer.chan.get_write_buffer_size())
            if state == last:
                break
            last = state
        # the CHANNEL_DATA messages the writer's endpoint put on the wire (sizes include the address family)
        wire = []
        for _seq, payload in tap.sent.get(id(s), []):
            if payload[0] == 94:
                pkt = SSHPacket(payload[1:])
                pkt.get_uint32()
                wire.append(len(pkt.get_string()))
        res.update({'written': written, 'got': list(reader.got), 'unsent': writer.chan.get_write_buffer_size(),
                    'wire': wire,
                    'reader_lost': reader.lost, 'writer_lost': writer.lost,
                    'loop_errors': [str(e.get('exception') or e.get('message'))[:100] for e in pair.LOOP_ERRORS]})
    except Exception as e:          # reported by the caller
        res['error'] = '%s: %s' % (type(e).__name__, e)
    finally:
        try:
            c.abort()
            s.abort()
            await pair.settle(5)
        except BaseException:
            pass
    return res


def run_tun(case: Dict[str, Any]) -> Dict[str, Any]:
    try:
        with capture.PacketTap() as tap:
            return pair.run(_run_tun(dict(case, _tap=tap)), timeout=60)
    except asyncio.TimeoutError:
        return {'error': 'timeout'}


def tun_cases() -> List[Dict[str, Any]]:
    return [
        # window 250 = 2.5 packets of 96 + 4 bytes: the third is cut at the window edge
        {'kind': 'tun', 'window': 250, 'sizes': [96, 96, 96]},
        # window 1000 = 10 packets on the wire: without the 4 bytes per packet coming back it is used up for good
        # after ~125 packets
        {'kind': 'tun', 'window': 1000, 'sizes': [96] * 400, 'burst': 8},
        {'kind': 'tun', 'window': 64, 'sizes': [12] * 60, 'burst': 4},
    ]


def gen_tun(rng: random.Random) -> Dict[str, Any]:
    w = rng.choice([40, 64, 100, 250, 256, 1000, 1024, 4096])
    r = rng.random()
    if r < 0.4:             # uniform packets whose wire size divides the window: no packet is ever cut
        n = rng.choice([d for d in (4, 8, 16, 20, 32, 50, 64, 100, 128, 250) if w % d == 0 and d > 4]) - 4
        sizes = [n] * rng.randint(w // (n + 4) * 3, w // (n + 4) * 3 + 120)
    elif r < 0.7:
        n = rng.randint(1, max(1, min(w - 5, 120)))
        sizes = [n] * rng.randint(5, 200)
    else:
        sizes = [rng.randint(1, max(1, min(w - 5, 150))) for _ in range(rng.randint(3, 120))]
    return {'kind': 'tun', 'window': w, 'sizes': sizes, 'burst': rng.choice([1, 3, 8, len(sizes)])}


def _show_tun(case: Dict[str, Any], res: Dict[str, Any]) -> str:
    sizes = case['sizes']
    shown = ('%d packets of %d bytes' % (len(sizes), sizes[0])) if len(set(sizes)) == 1 else \
        ('%d packets of %s... bytes' % (len(sizes), sizes[:6]))
    return (f'layer-3 tunnel channel, receiver window {case["window"]}, the writer wrote {shown} (each travels behind a '
            f'4-byte address family)')


def check_tun_c07(case: Dict[str, Any], res: Dict[str, Any]) -> List[Failure]:
    """the reading application gets the packets written, whole, in order (what has arrived is a prefix)"""
    if res.get('error'):
        return [Failure('harness-error:' + str(res['error'])[:60], f'tunnel run failed: {res["error"]}', {'case': case})]
    written, got = res['written'], res['got']
    if got == written[:len(got)]:
        return []
    k = next((j for j in range(min(len(got), len(written))) if got[j] != written[j]), min(len(got), len(written)))
    nb_w, nb_g = sum(map(len, written)), sum(map(len, got))
    # root cause visible on the wire: a packet did not travel as ONE CHANNEL_DATA message of its length + 4
    wire = res.get('wire', [])
    j = next((q for q in range(min(len(wire), len(written))) if wire[q] != len(written[q]) + 4), None)
    if j is not None:
        return [Failure(O.D5_SIG, f'{_show_tun(case, res)}: packet {j} ({len(written[j])} + 4 bytes) was put on the wire '
                        f'as CHANNEL_DATA messages of {wire[j]} and {wire[j + 1] if j + 1 < len(wire) else "?"} bytes — cut '
                        f'where the send window (or the maximum packet size) ended; the receiver strips 4 bytes from '
                        f'EVERY message and hands each remainder to the reader as a packet: packet {k} of the reader is '
                        f'{len(got[k]) if k < len(got) else 0} bytes instead of {len(written[k]) if k < len(written) else 0}, '
                        f'payload bytes are lost and the packet boundary is gone ({nb_g} bytes in {len(got)} packets '
                        f'received, {nb_w} bytes in {len(written)} packets written)',
                        {'case': {q: v for q, v in case.items() if not q.startswith('_')}, 'first_bad_packet': k,
                         'wire_sizes': wire[:j + 2]})]
    return [Failure('tunnel-packets-not-as-written', f'{_show_tun(case, res)}: packet {k} differs from what was written '
                    f'({len(got)} packets received)', {'case': case, 'first_bad_packet': k})]


def check_tun_c08(case: Dict[str, Any], res: Dict[str, Any]) -> List[Failure]:
    """the reader keeps reading: the window must be replenished until everything written has left the writer"""
    if res.get('error'):
        return [Failure('harness-error:' + str(res['error'])[:60], f'tunnel run failed: {res["error"]}', {'case': case})]
    fails: List[Failure] = []
    if res['reader_lost'] != 'open' or res['writer_lost'] != 'open':
        fails.append(Failure('protocol-error-between-honest-peers:tunnel', f'{_show_tun(case, res)}: the channel was '
                             f'closed ({res["reader_lost"]!r} / {res["writer_lost"]!r})', {'case': case}))
        return fails
    if res['unsent']:
        n_got = len(res['got'])
        fails.append(Failure(O.D4_SIG, f'{_show_tun(case, res)}: the reading application read all {n_got} packets it was '
                             f'given and keeps reading, nothing is in flight, but {res["unsent"]} bytes stay in the '
                             f'writer\'s send buffer for ever: its send window is exhausted and no WINDOW_ADJUST comes — '
                             f'the receiver accounts each packet without the 4 stripped bytes '
                             f'({n_got} x 4 = {4 * n_got} bytes of the window were never given back)',
                             {'case': case}))
    return fails


# ---------------------------------------------------------------------------------------------------------
# a server session written with the stream API; the client sends a second `shell` request in mid-stream


class _Collect(asyncssh.SSHClientSession):      # type: ignore
    def __init__(self) -> None:
        self.chan: Any = None

    def connection_made(self, chan: Any) -> None:
        self.chan = chan


async def _run_second_shell(case: Dict[str, Any]) -> Dict[str, Any]:
    got: List[bytes] = []

    async def handler(stdin: Any, stdout: Any, stderr: Any) -> None:
        me = len(got)
        got.append(b'')
        while not stdin.at_eof():
            d = await stdin.read(case.get('read', 4))
            got[me] += d
            for _ in range(case.get('think', 3)):       # the application is slower than the network
                await asyncio.sleep(0)
    c, s, hub = await pair.make_pair(
        server_opts=dict(session_factory=handler, window=case['window'], encoding=None, rekey_bytes=1 << 40),
        client_opts=dict(rekey_bytes=1 << 40))
    res: Dict[str, Any] = {'error': None}
    try:
        chan, _sess = await c.create_session(_Collect, encoding=None)
        written = b''
        replies: List[Optional[bool]] = []
        for k, chunk in enumerate(case['chunks']):
            data = bytes.fromhex(chunk)
            chan.write(data)
            written += data
            await pair.settle(case.get('settle', 10))
            if k in case['request_after']:
                # no public API sends a second session request on a running channel
                replies.append(await asyncio.wait_for(chan._make_request(b'shell'), 10))
        chan.write_eof()
        for _ in range(300):
            await pair.settle(30)
            if sum(map(len, got)) >= len(written):
                break
        res.update({'written': written, 'handlers': list(got), 'replies': replies})
    except Exception as e:
        res['error'] = '%s: %s' % (type(e).__name__, e)
    finally:
        try:
            c.abort()
            s.abort()
            await pair.settle(5)
        except BaseException:
            pass
    return res


def run_second_shell(case: Dict[str, Any]) -> Dict[str, Any]:
    try:
        return pair.run(_run_second_shell(case), timeout=60)
    except asyncio.TimeoutError:
        return {'error': 'timeout'}


def second_shell_cases() -> List[Dict[str, Any]]:
    a = b'0123456789abcdefghij'.hex()
    b = b'KLMNOPQRSTUVWXYZ!@#$'.hex()
    return [{'kind': 'second-shell', 'window': 64, 'chunks': [a, b], 'request_after': [0]},
            {'kind': 'second-shell', 'window': 16, 'chunks': [a, b, a], 'request_after': [0, 1], 'read': 3}]


def gen_second_shell(rng: random.Random) -> Dict[str, Any]:
    n = rng.randint(2, 5)
    chunks = [bytes(rng.getrandbits(8) for _ in range(rng.randint(4, 60))).hex() for _ in range(n)]
    return {'kind': 'second-shell', 'window': rng.choice([8, 16, 64, 256, 1 << 21]), 'chunks': chunks,
            'request_after': sorted(rng.sample(range(n - 1), rng.randint(1, min(2, n - 1)))),
            'read': rng.choice([1, 3, 4, 16]), 'think': rng.choice([0, 1, 3, 6]), 'settle': rng.choice([2, 10, 30])}


def check_second_shell_c07(case: Dict[str, Any], res: Dict[str, Any]) -> List[Failure]:
    """the application the server started for the session reads exactly what the client wrote"""
    if res.get('error'):
        return [Failure('harness-error:' + str(res['error'])[:60], f'run failed: {res["error"]}', {'case': case})]
    hs, written = res['handlers'], res['written']
    if len(hs) == 1 and hs[0] == written:
        return []
    if len(hs) > 1:
        return [Failure(O.D2_STREAM_SIG, f'server session written with the stream API (window {case["window"]}); the '
                        f'client wrote {len(written)} bytes and, in between, sent a second "shell" request on the running '
                        f'channel (answered: {["SUCCESS" if r else "FAILURE" for r in res["replies"]]}): the server '
                        f'started the session handler {len(hs)} times on the same stdin; the application (first '
                        f'handler) read {len(hs[0])} of the {len(written)} bytes — {hs[0][:24]!r}... — the rest went '
                        f'to the other instance(s) ({[len(h) for h in hs[1:]]} bytes): the stream it sees is not the '
                        f'stream written', {'case': case})]
    return [Failure('stream-incomplete', f'stream session: the handler read {len(hs[0]) if hs else 0} of {len(written)} '
                    f'bytes', {'case': case})]


# ---------------------------------------------------------------------------------------------------------


def run_scenario(case: Dict[str, Any]) -> Dict[str, Any]:
    if case['kind'] == 'tun':
        return run_tun(case)
    if case['kind'] == 'second-shell':
        return run_second_shell(case)
    raise ValueError(case['kind'])


def check_scenario(prop: str, case: Dict[str, Any], res: Dict[str, Any]) -> List[Failure]:
    if case['kind'] == 'tun':
        return check_tun_c07(case, res) if prop == 'C07' else check_tun_c08(case, res)
    if case['kind'] == 'second-shell':
        return check_second_shell_c07(case, res) if prop == 'C07' else []
    raise ValueError(case['kind'])


def shrink_tun(prop: str, case: Dict[str, Any], signature: str) -> Dict[str, Any]:
    """fewer packets while the failure stays"""
    best = case
    sizes = list(case['sizes'])
    for _ in range(12):
        if len(sizes) <= 1:
            break
        trial = dict(best, sizes=sizes[:max(1, len(sizes) * 2 // 3)])
        try:
            if any(f.signature == signature for f in check_scenario(prop, trial, run_scenario(trial))):
                best, sizes = trial, trial['sizes']
            else:
                break
        except Exception:
            break
    return best
