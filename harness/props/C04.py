"""C04 — Client only talks to a server whose host key it trusts.

Lean: Model/HostTrust.lean (decision), Model/HostTrustMachine.lean (client trace machine), Lemmas/HostTrust*.lean,
Props/C04.lean (accept_iff, accept_iff_default, revoked_wins, revoked_never_used, revoked_wins_full_false (witness of
the defect fixed by 6942731), no_auth_before_trust, liar_rejected, untrusted_fails_closed,
bad_signature_fails_closed, wrong_key_alg_fails_closed, wrong_sig_alg_fails_closed, ...), Gen/C04.lean regenerated
from SSHOpenSSHCertificate.validate and
_validate_openssh_host_certificate.
Correspondence: full asyncssh.connect() of a real client against a real in-process server (generated known_hosts
texts - also as key lists holding key objects with their private part - x server key/certificate variants x
host/alias/addr/port x virtual clock x lying servers x packets injected in the clear) against the Lean driver: offered algorithms, decision, reason, callbacks, and the ordered trace
(validation outcome, signature check, NEWKEYS / SERVICE_REQUEST / USERAUTH_REQUEST / DISCONNECT sent).
Oracle: the property's predicate with ground truth known by construction, observed from outside (exception class,
ordered tap log, the client's byte stream on the wire, what the server received).
"""
from __future__ import annotations

import json
import random
from typing import Any, Dict, List, Optional, Tuple

import pair
import vlib
from vlib import Ctx, CorrResult, OracleResult, Failure, Disagreement, Hist

from props import _c04_gen as G
from props import _c04_lib as L
from props import _c04_translate as TR

PROPERTY = 'C04'
MANIFEST = {
    'text': 'Lean 4 theorems about an executable model of the client\'s host-key decision and handshake: for EVERY '
            'trust configuration (the trusted / CA / revoked sets known_hosts yields for the looked-up host, address '
            'and port), every application callback answer, every time and every host key blob, the key is accepted '
            'iff it is a listed, non-revoked key or a host-type certificate of a listed, non-revoked CA with '
            'valid_after <= now < valid_before whose principals are empty or name the host (accept_iff, '
            'accept_iff_default); a revoked key or CA is rejected whatever else matches and the key finally used is '
            'never a revoked one (revoked_wins, revoked_never_used - re-proved against the regenerated list of '
            'revocation look-ups; the behaviour before fix 6942731, a revoked key accepted inside a certificate, is '
            'kept as a witness theorem and as an oracle case); in EVERY '
            'trace of the client machine, for any packet order the server chooses, each SERVICE_REQUEST / '
            'USERAUTH_REQUEST is preceded by an accepted host key and a verified signature over the exchange hash '
            '(no_auth_before_trust); under the ideal-signature hypothesis a server that cannot sign for the key it '
            'shows never gets there (liar_rejected); an untrusted key ends in HostKeyNotVerifiable and silence '
            '(untrusted_fails_closed), so does a key that does not fit the negotiated host key algorithm, and a '
            'signature naming another signature algorithm ends in KeyExchangeFailed (wrong_key_alg_fails_closed, '
            'wrong_sig_alg_fails_closed). The certificate tests and the arguments of cert.validate are regenerated from '
            'the source; the model is tied to the code by full connect() runs against an in-process server with '
            'generated known_hosts files, certificates, a virtual clock, lying servers and clear-text injections; the '
            'property is evaluated directly on the real client from outside.',
    'note': 'known_hosts parsing/matching is C17\'s subject (its result sets are a parameter here); blob decoding is '
            'C15/C16; what the exchange hash covers is C03; unforgeability is a hypothesis; X.509 chains and GSS key '
            'exchange are outside (absent in the sandbox); known_hosts=None is the documented opt-out',
    'technique': 'Lean 4 proof (decision table equivalence, trace invariant over all event sequences, ideal-signature '
                 'hypothesis) + translator for the certificate checks + differential correspondence on full '
                 'handshakes + direct oracle with by-construction ground truth',
}
LEAN_PROPS = ['AsyncsshModel.Props.C04']
DRIVER = 'Drivers/C04.lean'
TRUSTED = [
    'ideal signatures: verify(k, h, sig) implies the holder of k signed h (hypothesis of liar_rejected, never an axiom)',
    'the three result sets of match_known_hosts for (alias or host, addr, port or None) are parameters (C17)',
    'blob classification (certificate / plain key / undecodable) by decode_ssh_certificate and '
    'decode_ssh_public_key is a parameter (C15/C16); the exchange hash is an event parameter (C03)',
    'X.509 chain validation verdict is a parameter; GSS key exchange (no host key) is not modelled',
]
ASSUMPTIONS = [
    'a host-key based (non-GSS) key exchange is negotiated',
    'packet handlers of the client run to completion (no await inside the kex reply / newkeys / service handlers)',
    'the application does not pass known_hosts=None (if it does, accept_without_known_hosts states what happens)',
]

AUTH_MSGS = (5, 50)


def translate(ctx: Ctx) -> Dict[str, Any]:
    return TR.generate(L.key_table())


# ---------------------------------------------------------------------------
# driver line for a case


def hx_str(s: str) -> str:
    return vlib.hx(s.encode('utf-8'))


def driver_line(case: Dict[str, Any], descs: List[Dict[str, Any]], trust: Optional[Dict[str, Any]]) -> str:
    if trust is None:
        t, keyalgs = 'none', '-'
    else:
        t = 'T=%s/C=%s/R=%s' % (','.join(map(str, trust['trusted'])), ','.join(map(str, trust['cas'])),
                                ','.join(map(str, trust['revoked'])))
        keyalgs = ','.join(trust['algs']) or '-'
    ao = case.get('algopt')
    algopt = 'unset' if ao is None else 'default' if ao == 'default' else 'e:' + ','.join(ao)
    creds = ';'.join('%s|%s|%s|%s|%s' % (','.join(d['algs']), d['presented'], d['signer'],
                                         ','.join(d.get('fits', d['algs'])) or '-',
                                         ','.join(d.get('named', d['algs'])) or '-') for d in descs)
    return ' '.join(['case', hx_str(case['host']), hx_str(case['alias']), hx_str(case['addr']), str(case['port']),
                     t, '1' if case.get('cb_key') else '0', '1' if case.get('cb_ca') else '0', str(case['now4']),
                     algopt, keyalgs, creds, case.get('script', '-') or '-',
                     '-' if case.get('rekey_now4') is None else str(case['rekey_now4'])])


def parse_model(line: str) -> Dict[str, str]:
    return dict(f.split('=', 1) for f in line.split(' ') if '=' in f)


def impl_view(case: Dict[str, Any], res: Dict[str, Any]) -> Dict[str, str]:
    """The externally visible behaviour of the real run in the model's vocabulary."""
    err = L.classify_error(res['exc'], res['msg'])
    calls = res['calls']
    cb = 'none'
    if calls:
        kind, _h, _a, _p, k = calls[-1]
        cb = '%s:%d' % (kind, k)
    return {'algs': ','.join(res['offered'] or []) or '-', 'err': err,
            'trace': ','.join(L.trace_tokens(res['log'])) or '-', 'cb': cb}


def compare(case: Dict[str, Any], model: Dict[str, str], res: Dict[str, Any]) -> List[str]:
    impl = impl_view(case, res)
    diffs = []
    if model.get('err') == 'KeyExchangeFailed:noalg' and impl['err'] == 'ConnectionLost':
        # the server refused (no common host key algorithm) and closed; whether the client reads the DISCONNECT
        # before the end of the stream is a race of the transport, not of the client logic
        impl['err'] = 'KeyExchangeFailed:noalg'
    for f in ('algs', 'err', 'trace', 'cb'):
        if model.get(f) != impl[f]:
            diffs.append('%s: model %s impl %s' % (f, model.get(f), impl[f]))
    # arguments handed to the application callback: (lookup host, addr, port)
    lh, _lp = L.lookup_args(case)
    for kind, h, a, p, _k in res['calls']:
        if (h, a, p) != (lh, case['addr'], case['port']):
            diffs.append('callback-args: %s got %r expected %r' % (kind, (h, a, p), (lh, case['addr'], case['port'])))
    want_lookup = '%s:%s' % (hx_str(lh), 'none' if case['port'] == 22 else case['port'])
    if model.get('lookup') != want_lookup:
        diffs.append('lookup: model %s harness %s' % (model.get('lookup'), want_lookup))
    return diffs


class LookupSpy:
    """known_hosts given as a callable: records the (host, addr, port) the connection looks up."""

    def __init__(self, text: str):
        import asyncssh
        self.obj = asyncssh.import_known_hosts(text)
        self.seen: List[Tuple[str, str, Optional[int]]] = []

    def __call__(self, host: str, addr: str, port: Optional[int]) -> Any:
        self.seen.append((host, addr, port))
        return self.obj.match(host, addr, port)


async def run_one(case: Dict[str, Any], tmpdir: str) -> Dict[str, Any]:
    return await L.run_case(case, tmpdir)


def run_cases(cases: List[Dict[str, Any]], tmpdir: str) -> List[Dict[str, Any]]:
    async def go() -> List[Dict[str, Any]]:
        out = []
        for c in cases:
            out.append(await run_one(c, tmpdir))
        return out
    return pair.run(go(), timeout=3000.0)


# ---------------------------------------------------------------------------
# correspondence


def correspondence(ctx: Ctx) -> CorrResult:
    res = CorrResult(rule='distinct (scenario, err, trace, kh form, kex, script) tuples')
    hist = Hist()
    rng = ctx.subrng('corr')
    thorough = ctx.tier == 'thorough' or ctx.escalated
    n = ctx.n(1400, 12000)
    cases = [G.gen_case(rng, thorough=thorough) for _ in range(n)]
    cases += [G.gen_malformed(rng) for _ in range(ctx.n(100, 600))]
    cases += [G.gen_rekey(rng) for _ in range(ctx.n(80, 500))]
    # every scenario at least a few times, whatever the seed
    for sc, _w in G.SCENARIOS:
        cases += [G.gen_case(rng, sc, thorough=thorough) for _ in range(2)]
    tmp = ctx.tmpdir()
    trusts: List[Any] = []
    for c in cases:
        try:
            trusts.append(L.trust_sets(c))
        except Exception as e:          # the file itself makes the lookup raise: compared by class below
            trusts.append(e)
    runs = run_cases(cases, tmp)
    lines, idx = [], []
    for i, (c, r, t) in enumerate(zip(cases, runs, trusts)):
        if isinstance(t, Exception):
            continue
        lines.append(driver_line(c, r['descs'], t))
        idx.append(i)
    outs = ctx.model(DRIVER, lines)
    model_by_i = {i: parse_model(o) for i, o in zip(idx, outs)}
    distinct = set()
    for i, (c, r, t) in enumerate(zip(cases, runs, trusts)):
        res.cases += 1
        hist.hit('scenario:' + c['scenario'])
        hist.hit('kh-form:' + c['kh']['form'])
        hist.hit('kex:' + c['kex'])
        if c.get('script', '-') != '-':
            hist.hit('script:' + c['script'])
        if isinstance(t, Exception):
            hist.hit('kh-load-raises:' + type(t).__name__)
            if r['exc'] != type(t).__name__ or any(m in AUTH_MSGS for m in sent_types(r)):
                res.disagreements.append(Disagreement(case=c, model='lookup raises ' + type(t).__name__,
                                                      impl=impl_view(c, r), name='kh-load-error'))
            continue
        m = model_by_i[i]
        if 'err' not in m:
            res.disagreements.append(Disagreement(case=c, model=outs[idx.index(i)], impl=None, name='driver-bad-op'))
            continue
        hist.hit('impl-err:' + L.classify_error(r['exc'], r['msg']))
        hist.hit('model-err:' + m['err'])
        hist.hit('model-verdict:' + m.get('verdict', '?').split(':')[0])
        diffs = compare(c, m, r)
        key = (c['scenario'], m['err'], m['trace'], c['kh']['form'], c['kex'], c.get('script', '-'))
        distinct.add(key)
        if diffs:
            res.disagreements.append(Disagreement(case=c, model=m, impl=impl_view(c, r),
                                                  name='handshake:' + diffs[0].split(':')[0]))
        if len(res.samples) < 4 and m['err'] != 'none':
            res.samples.append({'scenario': c['scenario'], 'known_hosts': c['kh']['text'][:200], 'model': m,
                                'impl': impl_view(c, r)})
    # lookup arguments as the code passes them (known_hosts callable sees them)
    res.merge(corr_lookup_args(ctx))
    res.nontrivial = len(distinct)
    res.histogram = dict(hist)
    return res


def corr_lookup_args(ctx: Ctx) -> CorrResult:
    """(alias or host, peer address, port or None) reaches known_hosts exactly as lookupHost / lookupPort say."""
    out = CorrResult()
    rng = ctx.subrng('lookup')
    cases = []
    for _ in range(ctx.n(30, 200)):
        c = G.gen_case(rng, 'plain-trusted')
        c['kh']['form'] = 'bytes'
        cases.append(c)

    async def go() -> List[Tuple[Dict[str, Any], List[Any], Dict[str, Any]]]:
        rs = []
        for c in cases:
            spy = LookupSpy(c['kh']['text'])
            orig = L.known_hosts_arg
            L.known_hosts_arg = lambda case, tmpdir, _s=spy: _s       # type: ignore
            try:
                r = await L.run_case(c, None)
            finally:
                L.known_hosts_arg = orig                              # type: ignore
            rs.append((c, spy.seen, r))
        return rs
    runs = pair.run(go(), timeout=600.0)
    lines = [driver_line(c, r['descs'], L.trust_sets(c)) for c, _s, r in runs]
    outs = ctx.model(DRIVER, lines)
    for (c, seen, r), o in zip(runs, outs):
        out.cases += 1
        m = parse_model(o)
        got = ['%s:%s' % (hx_str(h), 'none' if p is None else p) for h, a, p in seen]
        addrs = [a for _h, a, _p in seen]
        if got != [m.get('lookup')] or addrs != [c['addr']]:
            out.disagreements.append(Disagreement(case=c, model=m.get('lookup'), impl=seen, name='lookup-args'))
    out.histogram = {'lookup-args-cases': out.cases}
    return out


def sent_types(r: Dict[str, Any]) -> List[int]:
    return [e[1] for e in r['log'] if isinstance(e, tuple) and e[0] == 'S']


# ---------------------------------------------------------------------------
# oracle: the property's predicate, ground truth by construction


def expected_accept(case: Dict[str, Any]) -> Optional[bool]:
    """OpenSSH/property semantics from the generator's intent; None = composite case (no independent truth)."""
    it = case['intent']
    if case.get('scenario') == 'callback' and case['kh']['form'] != 'none' and \
            (it.get('key_revoked') or it.get('ca_revoked')):
        # revocation wins whatever the application's validate_host_public_key / validate_host_ca_key answer
        return False
    if it.get('composite') or case['kh']['form'] == 'none':
        return None
    spec = case['creds'][0]
    if it.get('liar'):
        return False
    if spec['kind'] == 'key':
        return bool(it['listed'] and not it['key_revoked'])
    if spec['kind'] in ('garbage', 'badsig-cert', 'tampered-cert'):
        return False
    ce = it['cert']
    now = case['now4'] / 4.0
    lh, _ = L.lookup_args(case)
    return bool(it['ca_listed'] and not it['ca_revoked'] and not it['key_revoked'] and ce['type'] == 2 and
                ce['after'] <= now < ce['before'] and (not ce['principals'] or lh in ce['principals']))


def check_safety(case: Dict[str, Any], r: Dict[str, Any], expect: Optional[bool]) -> List[Failure]:
    """Evaluate the property on one real run."""
    fails: List[Failure] = []
    log = r['log']
    types = sent_types(r)
    wire = r['wire']
    connected = r['exc'] is None
    auth_sent = [m for m in types if m in AUTH_MSGS]
    replay = {'case': case, 'keys': L.export_pool()}

    def fail(sig: str, what: str) -> None:
        fails.append(Failure(signature=sig, what=what + ' [scenario %s, error %s: %s]' %
                             (case.get('scenario'), r['exc'], r['msg'][:80]), replay=replay))

    # (1) ordering, for every run: before the first SERVICE_REQUEST / USERAUTH_REQUEST the log must show an accepted
    #     host key followed by a verified signature (unless the application opted out with known_hosts=None:
    #     then the key is still 'accepted' by validate_server_host_key and the signature still checked)
    first_auth = next((i for i, e in enumerate(log) if isinstance(e, tuple) and e[0] == 'S' and e[1] in AUTH_MSGS),
                      None)
    if first_auth is not None:
        pre = log[:first_auth]
        ok = False
        if 'acc' in pre:
            ia = len(pre) - 1 - pre[::-1].index('acc')
            ok = 'sigok' in pre[ia:] and 'sigbad' not in pre[ia:] and 'rej' not in pre[ia:]
        if not ok:
            fail('auth-traffic-before-host-key-verified',
                 'client sent message %d before the host key was accepted and its signature verified; ordered '
                 'log %s' % (log[first_auth][1], L.trace_tokens(log)))
    # (2) a failed connection attempt with a host-key/kex error must not have sent anything after NEWKEYS
    if not connected and case.get('rekey_now4') is None and \
            r['exc'] in ('HostKeyNotVerifiable', 'KeyExchangeFailed') and \
            (auth_sent or wire['bytes_after_newkeys'] or wire['newkeys'] or any(m in AUTH_MSGS for m in r['server_recv'])):
        fail('auth-traffic-despite-host-key-error',
             'connect() raised %s but the client had sent %s (wire: newkeys=%s, %d bytes after it; server '
             'received %s)' % (r['exc'], auth_sent, wire['newkeys'], wire['bytes_after_newkeys'],
                               [m for m in r['server_recv'] if m in AUTH_MSGS]))
    # (2b) a second key exchange after the certificate expired must be refused: no NEWKEYS for it
    if case.get('rekey_now4') is not None and case['creds'][0]['kind'] == 'cert' and expect is True:
        ce = case['intent']['cert']
        toks = L.trace_tokens(log)
        if case['rekey_now4'] / 4.0 >= ce['before'] and (toks.count('21') >= 2 or 'rej' not in toks):
            fail('rekey-accepted-expired-certificate',
                 'second key exchange at t=%s with a certificate valid before %s was not refused; log %s' %
                 (case['rekey_now4'] / 4.0, ce['before'], toks))
    # (3) the decision itself
    if expect is False and (connected or auth_sent or wire['bytes_after_newkeys']):
        it = case['intent']
        if it.get('liar'):
            sig = 'lying-server-accepted'
        elif case['creds'][0]['kind'] in ('cert',) and it.get('key_revoked') and not it.get('ca_revoked'):
            sig = 'revoked-key-accepted-via-certificate'
        elif it.get('key_revoked') or it.get('ca_revoked'):
            sig = 'revoked-%s-accepted' % ('ca' if it.get('ca_revoked') else 'key')
        elif case['creds'][0]['kind'] == 'key':
            sig = 'untrusted-key-accepted'
        elif case['creds'][0]['kind'] != 'cert':
            sig = 'undecodable-or-badly-signed-certificate-accepted'
        else:
            ce, now = it['cert'], case['now4'] / 4.0
            lh, _ = L.lookup_args(case)
            why = 'untrusted-ca' if not it['ca_listed'] else 'user-type' if ce['type'] != 2 else \
                'not-yet-valid' if now < ce['after'] else 'expired' if now >= ce['before'] else \
                'wrong-principal' if ce['principals'] and lh not in ce['principals'] else 'other'
            sig = 'invalid-certificate-accepted:' + why
        if case['kh']['form'] in ('tuplepriv', 'tuplerevpriv') and (it.get('key_revoked') or it.get('ca_revoked')):
            sig += ':listed-as-key-object-with-private-part'
        fail(sig, 'the trust configuration does not accept this server key for (%s, %s, %d) at t=%s but the client '
                  '%s; known_hosts=%r, credential=%s' %
             (L.lookup_args(case)[0], case['addr'], case['port'], case['now4'] / 4.0,
              'connected' if connected else 'sent auth traffic', case['kh']['text'][:300],
              {k: v for k, v in case['creds'][0].items()}))
    # (4) when the attempt fails for a trust reason the error must be a host-key error (HostKeyNotVerifiable, or
    #     KeyExchangeFailed for a bad signature / no common host key algorithm).  Two other outcomes are not trust
    #     decisions: the known_hosts text itself is rejected when it is loaded (ValueError, C17's subject), and the
    #     server's refusal (no common algorithm) reaching the client as end-of-stream before its DISCONNECT is read.
    if expect is False and not connected and not case['intent'].get('scripted') and \
            r['exc'] not in ('HostKeyNotVerifiable', 'KeyExchangeFailed'):
        excused = (r['exc'] == 'ConnectionLost' and not wire['newkeys']) or \
                  (r['exc'] == 'ValueError' and not kh_loads(case) and 21 not in types)
        if not excused:
            fail('untrusted-server-fails-with-other-error:%s' % r['exc'],
                 'an untrusted server made connect() raise %s instead of a host-key error' % r['exc'])
    return fails


def kh_loads(case: Dict[str, Any]) -> bool:
    import asyncssh
    try:
        asyncssh.import_known_hosts(case['kh']['text'])
        return True
    except ValueError:
        return False


def oracle(ctx: Ctx) -> OracleResult:
    out = OracleResult(rule='distinct (scenario, expectation, outcome class, pattern style, time probe) tuples')
    hist = Hist()
    rng = ctx.subrng('oracle')
    thorough = ctx.tier == 'thorough' or ctx.escalated
    cases: List[Dict[str, Any]] = []
    for s in ctx.suspects[:50]:
        if isinstance(s, dict) and 'creds' in s:
            cases.append(s)
    # boundary sweep of the validity window at, just before and just after both bounds, for several windows
    for _ in range(ctx.n(10, 60)):
        base = G.gen_case(rng, 'cert-ok')
        spec = base['creds'][0]
        a4, b4 = spec['after'] * 4, min(spec['before'], 1 << 40) * 4
        for now4 in (a4 - 4, a4 - 1, a4, a4 + 1, b4 - 4, b4 - 1, b4, b4 + 1, b4 + 4):
            if now4 >= 0:
                c = json.loads(json.dumps(base))
                c['now4'] = now4
                c['scenario'] = 'cert-window-sweep'
                cases.append(c)
    for sc, _w in G.SCENARIOS:
        cases += [G.gen_case(rng, sc, thorough=thorough) for _ in range(ctx.n(4, 20))]
    cases += [G.gen_case(rng, thorough=thorough) for _ in range(ctx.n(1000, 10000))]
    cases += [G.gen_malformed(rng) for _ in range(ctx.n(60, 400))]
    cases += [G.gen_rekey(rng) for _ in range(ctx.n(60, 400))]
    tmp = ctx.tmpdir()
    distinct = set()
    batch = 400
    for start in range(0, len(cases), batch):
        part = cases[start:start + batch]
        runs = run_cases(part, tmp)
        for c, r in zip(part, runs):
            out.evaluations += 1
            expect = expected_accept(c)
            hist.hit('scenario:' + c['scenario'])
            hist.hit('expect:%s' % expect)
            hist.hit('outcome:' + L.classify_error(r['exc'], r['msg']))
            fs = check_safety(c, r, expect)
            out.failures += fs
            if expect is True and r['exc'] is not None and not c['intent'].get('scripted') and \
                    c.get('rekey_now4') is None:
                hist.hit('note:trusted-server-refused')       # liveness direction: not part of C04, recorded only
                if len(out.notes) < 5:
                    out.notes.append('trusted server refused (%s: %s) in scenario %s' % (r['exc'], r['msg'][:60],
                                                                                        c['scenario']))
            distinct.add((c['scenario'], expect, r['exc'], c['intent'].get('style'), c['now4'] % 4))
            if len(out.samples) < 4 and expect is False:
                out.samples.append({'scenario': c['scenario'], 'outcome': L.classify_error(r['exc'], r['msg']),
                                    'trace': L.trace_tokens(r['log'])})
        # an escalated search (a proof or the correspondence broke) stops once it has failing inputs of every kind
        # the remaining volume could add: a few batches after the first failure
        if ctx.escalated and ctx.tier != 'thorough' and len(out.failures) >= 5 and start >= 2 * batch:
            out.notes.append('escalated search stopped after %d evaluations with %d failing inputs' %
                             (out.evaluations, len(out.failures)))
            break
    out.nontrivial = len(distinct)
    oracle_key_objects(ctx, out, hist)
    oracle_sock(ctx, out, hist)
    out.histogram = dict(hist)
    return out


def oracle_key_objects(ctx: Ctx, out: OracleResult, hist: Hist) -> None:
    """The key-list form of known_hosts with key objects that carry their private part: the sets list the same keys
    as the text does, so a revoked key or CA must be refused and (recorded only) a listed key accepted."""
    rng = ctx.subrng('oracle-key-objects')
    cases: List[Dict[str, Any]] = []
    for sc in ('plain-revoked', 'plain-only-revoked', 'cert-revoked-ca', 'cert-subject-revoked', 'plain-trusted',
               'cert-ok', 'plain-untrusted'):
        for _ in range(ctx.n(6, 30)):
            c = G.gen_case(rng, sc)
            if c['kh']['form'] in ('none', 'nohome', 'homefile') or c['intent'].get('scripted'):
                continue
            c['kh']['form'] = 'tuplerevpriv' if 'revoked' in sc and rng.random() < 0.8 else 'tuplepriv'
            cases.append(c)
    runs = run_cases(cases, ctx.tmpdir())
    for c, r in zip(cases, runs):
        out.evaluations += 1
        expect = expected_accept(c)
        hist.hit('key-objects:%s:expect=%s:%s' % (c['scenario'], expect, L.classify_error(r['exc'], r['msg'])))
        out.failures += check_safety(c, r, expect)
        if expect is True and r['exc'] is not None:
            hist.hit('note:key-objects:trusted-server-refused')
    out.nontrivial += len(set((c['scenario'], r['exc']) for c, r in zip(cases, runs)))


def oracle_sock(ctx: Ctx, out: OracleResult, hist: Hist) -> None:
    """Connections made on an already connected socket (no host name given): the known_hosts entry that counts is
    the one for the peer's address AND port.  Real loopback TCP; the server records any credential it is sent."""
    import asyncio
    import socket
    import asyncssh
    rng = ctx.subrng('oracle-sock')

    class Srv(asyncssh.SSHServer):
        got: List[str] = []

        def begin_auth(self, username: str) -> bool:
            return True

        def password_auth_supported(self) -> bool:
            return True

        def validate_password(self, username: str, password: str) -> bool:
            Srv.got.append(password)
            return True

    async def one(kind: str) -> Tuple[str, bool, str]:
        Srv.got = []
        k_default = asyncssh.generate_private_key('ssh-ed25519')
        k_port = asyncssh.generate_private_key('ssh-ed25519')
        pub = lambda k: k.export_public_key('openssh').decode().strip()        # noqa: E731
        acceptor = await asyncssh.listen('127.0.0.1', 0, server_factory=Srv,
                                         server_host_keys=[k_port if kind == 'listed-for-port' else k_default])
        port = acceptor.get_port()
        if kind == 'other-key-for-port':
            kh = f'127.0.0.1 {pub(k_default)}\n[127.0.0.1]:{port} {pub(k_port)}\n'
            expect_accept = False
        elif kind == 'revoked-for-port':
            kh = f'127.0.0.1 {pub(k_default)}\n@revoked [127.0.0.1]:{port} {pub(k_default)}\n'
            expect_accept = False
        elif kind == 'only-portless-entry':
            # no entry names the port: the port-less entry applies (asyncssh's documented fallback, C17)
            kh = f'127.0.0.1 {pub(k_default)}\n'
            expect_accept = True
        else:                                       # listed-for-port
            kh = f'127.0.0.1 {pub(k_default)}\n[127.0.0.1]:{port} {pub(k_port)}\n'
            expect_accept = True
        sock = socket.create_connection(('127.0.0.1', port))
        sock.setblocking(False)
        outcome = 'accepted'
        try:
            conn = await asyncio.wait_for(asyncssh.connect(sock=sock, known_hosts=kh.encode(), username='u',
                                                           password='secret-%d' % rng.randrange(1000),
                                                           client_keys=None), 20)
            conn.abort()
        except Exception as e:
            outcome = type(e).__name__
        acceptor.close()
        await asyncio.sleep(0.05)
        return outcome, expect_accept, kh

    async def go() -> List[Tuple[str, str, bool, str, List[str]]]:
        rs = []
        for kind in ['other-key-for-port', 'revoked-for-port', 'only-portless-entry', 'listed-for-port'] * ctx.n(1, 3):
            try:
                o, e, kh = await one(kind)
            except OSError as exc:                   # no loopback networking here: nothing to judge
                out.notes.append(f'sock scenario skipped: {exc}')
                return rs
            rs.append((kind, o, e, kh, list(Srv.got)))
        return rs
    for kind, outcome, expect, kh, got in pair.run(go(), timeout=300):
        out.evaluations += 1
        hist.hit(f'sock:{kind}:{outcome}')
        key = {'kind': 'sock', 'scenario': kind, 'known_hosts': kh}
        if not expect and (outcome == 'accepted' or got):
            out.failures.append(Failure(
                f'untrusted-host-key-accepted:sock-connection:{kind}',
                f'connect(sock=...) to 127.0.0.1 on a non-default port with known_hosts {kh!r}: the server\'s key is '
                f'not the one listed for [127.0.0.1]:port, yet the connection was {outcome} and the server received '
                f'{len(got)} password(s)', key))
        if expect and outcome != 'accepted':
            out.notes.append(f'sock: key listed for [addr]:port refused ({outcome})')
            hist.hit('note:sock-trusted-server-refused')
    out.nontrivial += 4


def replay(ctx: Ctx, rep: Dict[str, Any]) -> List[Failure]:
    case = rep.get('replay', {}).get('case')
    if not case:
        return []
    if rep['replay'].get('keys'):
        L.load_pool(rep['replay']['keys'])
    tmp = ctx.tmpdir()
    r = run_cases([case], tmp)[0]
    return check_safety(case, r, expected_accept(case))
