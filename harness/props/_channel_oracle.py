"""Property predicates of C07 / C08 evaluated directly on what a real run showed (no model involved):
the session callbacks, the operation results and the channel messages on the wire."""
from __future__ import annotations

from typing import Any, Dict, List, Optional, Tuple

from vlib import Failure, unhx

from props import _channel_lib as L

F13_SIG = 'eof-callback-lost:close-overtakes-pending-eof'
F2_SIG = 'send-loop-spins:max-packet-size-0'
F3_SIG = 'window-exceeded-while-paused'
EOF_UNSENT_SIG = 'eof-not-sent:close-overrides-pending-eof'
# audit findings D1..D5 (one signature per root cause)
D1_SIG = 'text-decoder-shared-across-datatypes'
D2_SIG = 'pause-not-honoured:second-session-request'
D2_STREAM_SIG = 'stream-split-between-handlers:second-session-request'
D3_SIG = 'protocol-error-after-local-close:partial-character'
D4_SIG = 'tunnel-stalled:stripped-header-not-returned-to-window'
D5_SIG = 'tunnel-packet-cut-at-window-edge'
CLOSE_STUCK_SIG = 'close-never-sent:dropped-data-not-credited'


def _zero_pktsize(case: Dict[str, Any]) -> bool:
    return bool(case.get('effective_zero')) or any(c['pa'] == 0 or c['pb'] == 0 for c in case['chans'])


def tagged(chunks: List[Tuple[Optional[int], bytes]]) -> List[Tuple[int, Optional[int]]]:
    return [(b, dt) for dt, data in chunks for b in data]


def accepted_writes(case: Dict[str, Any], results: List[str]) -> Dict[Tuple[str, int], List[Tuple[Optional[int], bytes]]]:
    out: Dict[Tuple[str, int], List[Tuple[Optional[int], bytes]]] = {}
    for op, r in zip(case['ops'], results):
        if op[0] == 'app' and op[3] == 'write' and r.startswith('ok '):
            out.setdefault((op[1], op[2]), []).append((op[4], unhx(op[5] or '-')))
    return out


def app_closed(case: Dict[str, Any], results: List[str]) -> Dict[Tuple[str, int], bool]:
    out: Dict[Tuple[str, int], bool] = {}
    for op, _r in zip(case['ops'], results):
        if op[0] == 'app' and op[3] == 'close':
            out[(op[1], op[2])] = True
    return out


def delivered(events: List[Tuple[Any, ...]]) -> Tuple[List[Tuple[Optional[int], Any]], List[str]]:
    """(data chunks — bytes, or str on a text channel —, kinds in order) of one session's callbacks"""
    chunks, kinds = [], []
    for e in events:
        kinds.append(e[0])
        if e[0] == 'd':
            chunks.append((e[1], e[2] if isinstance(e[2], str) else bytes(e[2])))
    return chunks, kinds


def expected_units(writes: List[Tuple[Optional[int], bytes]], text: bool) -> Optional[List[Tuple[Any, Optional[int]]]]:
    """what the receiving application must see, as a stream of units (bytes, or characters on a text channel)
    each tagged with its datatype; None if the bytes written with some data type are not valid UTF-8 (a text
    receiver then fails).  Each data type is a text of its own ("for each data type, the receiving application sees
    exactly the character sequence the sending application wrote"): a character counts as delivered with the
    write that completes it IN ITS data type, whatever was written on other data types in between."""
    if not text:
        return tagged(writes)
    import codecs
    decs: Dict[Optional[int], Any] = {}
    out: List[Tuple[Any, Optional[int]]] = []
    for dt, data in writes:
        dec = decs.setdefault(dt, codecs.getincrementaldecoder('utf-8')('strict'))
        try:
            out += [(ch, dt) for ch in dec.decode(data)]
        except UnicodeDecodeError:
            return None
    return out


def shared_units(writes: List[Tuple[Optional[int], bytes]]) -> Optional[List[Tuple[Any, Optional[int]]]]:
    """what ONE decoder shared by all data types makes of the writes (None = it raises): the behaviour of a channel
    before each data type had its own decoder — used only to NAME that root cause in a failure"""
    import codecs
    dec = codecs.getincrementaldecoder('utf-8')('strict')
    out: List[Tuple[Any, Optional[int]]] = []
    for dt, data in writes:
        try:
            out += [(ch, dt) for ch in dec.decode(data)]
        except UnicodeDecodeError:
            return None
    return out


def sender_finished(case: Dict[str, Any], res: Dict[str, Any], x: str, i: int) -> bool:
    """side x ended its stream on channel i: its application called write_eof() / close(), or the channel did on its
    behalf (eof_received() returned False) — an EOF or CLOSE of x for that channel is on the wire"""
    if any(op[0] == 'app' and op[1] == x and op[2] == i and op[3] in ('eof', 'close') and r.startswith('ok ')
           for op, r in zip(case['ops'], res['results'])):
        return True
    return any(c == i and m in ('E', 'C') for c, m, _k in res.get('wire', {}).get(x, []))


def text_written_valid(case: Dict[str, Any], res: Dict[str, Any], x: str, i: int,
                       writes: List[Tuple[Optional[int], bytes]]) -> bool:
    """is what side x wrote on channel i valid text for a UTF-8 receiver, per data type?  (a text sender always
    writes valid text; a bytes sender may not, and may stop in the middle of a character before EOF / CLOSE)"""
    import codecs
    per: Dict[Optional[int], bytes] = {}
    for dt, data in writes:
        per[dt] = per.get(dt, b'') + data
    final = sender_finished(case, res, x, i)
    for data in per.values():
        try:
            codecs.getincrementaldecoder('utf-8')('strict').decode(data, final)
        except UnicodeDecodeError:
            return False
    return True


def decode_fatal(case: Dict[str, Any], res: Dict[str, Any]) -> List[Failure]:
    """the connection died of a ProtocolError raised by a text decoder.  Legitimate only if a peer really sent
    invalid text on some data type; between honest peers writing valid text it is a failure — named after its root
    cause where the run shows it."""
    writes = accepted_writes(case, res['results'])
    log = res.get('log', [])
    if not log:
        return []
    op = log[-1][0]
    y = 'a' if op[0] == 'burst' else op[1]          # the endpoint whose decoder raised
    x = 'b' if y == 'a' else 'a'
    closed = app_closed(case, res['results'])
    fails: List[Failure] = []
    suspects = []
    for i, cfg in enumerate(case['chans']):
        if not (cfg.get('enc') or cfg.get('decA' if y == 'a' else 'decB')):
            continue
        w = writes.get((x, i), [])
        if not cfg.get('enc') and not text_written_valid(case, res, x, i, w):
            return []           # the peer did send invalid text: the ProtocolError is the documented answer
        suspects.append((i, cfg, w))
    for i, cfg, w in suspects:
        shown = ', '.join(f'write({data!r}' + (f', datatype={dt})' if dt is not None else ')') for dt, data in w[:6])
        if closed.get((y, i)):
            fails.append(Failure(D3_SIG, f'channel {i}: side {x} wrote {shown} (valid text, encoding '
                                 f'{cfg.get("enc") or "utf-8"}), packets cut by the receiver\'s maximum packet size '
                                 f'{cfg["p" + y]}; the application at side {y} called close() after a packet that ended '
                                 f'inside a character; later data was dropped undecoded, and the honest peer\'s '
                                 f'{"EOF" if op[0] == "deliver" else "next message"} made the final decode raise '
                                 f'ProtocolError: the whole connection (every channel on it) was closed',
                                 {'case': case, 'channel': i, 'died_at': op}))
            return fails
        if not cfg.get('enc') and len({dt for dt, _d in w}) > 1 and shared_units(w) is None:
            fails.append(Failure(D1_SIG, f'channel {i}: side {x} (bytes) wrote {shown}: each data type is valid UTF-8, '
                                 f'but a character of one data type was cut by a write on the other; the text '
                                 f'receiver at side {y} decodes all data types with ONE incremental decoder and '
                                 f'raised ProtocolError: the whole connection was closed',
                                 {'case': case, 'channel': i, 'died_at': op}))
            return fails
    if suspects:
        fails.append(Failure('protocol-error-between-honest-peers:decode',
                             'the connection was torn down by a decode error although every data type written was '
                             'valid text', {'case': case, 'died_at': op}))
    return fails


def check_pause(case: Dict[str, Any], res: Dict[str, Any]) -> List[Failure]:
    """flow control towards the application: between ITS pause_reading() and ITS resume_reading() no data callback"""
    fails: List[Failure] = []
    ops = [op for op, _r in res.get('log', [])]
    for side in 'ab':
        for i, v in enumerate(res.get('pause_violations', {}).get(side, [])):
            if not v:
                continue
            k = v[0]
            # a second session request processed on this channel at or before the first violation?
            req_seen = any(op[0] == 'req' and op[2] == i for op in ops[:k + 1])
            at = ops[k] if 0 <= k < len(ops) else None
            if req_seen and side == 'b':
                line = res['log'][k][1] if 0 <= k < len(res['log']) else ''
                fails.append(Failure(D2_SIG, f'channel {i}: the server application had called pause_reading() and not '
                                     f'resume_reading(); the client sent a second "shell" request on the running '
                                     f'channel; the server answered it with SUCCESS, called session_started() again '
                                     f'({res.get("sessions_started", {}).get("b", [0] * (i + 1))[i]} times in all) and '
                                     f'resume_reading(): {len(v)} data_received() calls reached the paused application '
                                     f'(first in operation {k}: {at} -> {line})', {'case': case, 'channel': i}))
            else:
                fails.append(Failure('data-delivered-while-reading-paused', f'channel {i} side {side}: data_received() '
                                     f'called {len(v)} times between the application\'s pause_reading() and its '
                                     f'resume_reading() (first in operation {k}: {at})', {'case': case, 'channel': i}))
    return fails


def show_text(t: str) -> str:
    return ascii(t)


def text_failure(case: Dict[str, Any], i: int, x: str, y: str, writes: List[Tuple[Optional[int], bytes]],
                 chunks: List[Tuple[Optional[int], Any]], dl: List[Any], wr: List[Any]) -> Failure:
    cfg = case['chans'][i]
    enc, errors = cfg['enc'], cfg.get('errors', 'strict')
    k = next((j for j in range(min(len(dl), len(wr))) if dl[j] != wr[j]), min(len(dl), len(wr)))
    wtxt = [(L.show_dt(dt), data.decode('utf-8')) for dt, data in writes]
    got: List[Tuple[str, str]] = []          # callbacks, adjacent ones of one datatype merged, empty ones dropped
    for dt, t in chunks:
        if t and got and got[-1][0] == L.show_dt(dt):
            got[-1] = (got[-1][0], got[-1][1] + t)
        elif t:
            got.append((L.show_dt(dt), t))
    shown_w = ', '.join(f'write({show_text(t)}' + (f', datatype={dt})' if dt != '-' else ')') for dt, t in wtxt)
    shown_g = ', '.join(f'data_received({show_text(t)}' + (f', {dt})' if dt != '-' else ', None)') for dt, t in got)
    extra = ''
    if k < len(dl) and dl[k][0] == '\ufeff' and (k >= len(wr) or wr[k][0] != '\ufeff'):
        extra = ' — a byte order mark (U+FEFF) the sender never wrote: the mark was put on the wire again after the first write'
    return Failure(f'text-not-as-written:{enc}',
                   f'channel {i} direction {x}->{y}, both ends text channels with encoding={enc!r} errors={errors!r}, '
                   f'send window {cfg["wb" if x == "a" else "wa"]} max packet {cfg["pb" if x == "a" else "pa"]}: '
                   f'the sender called {shown_w}; the receiver got (callbacks of one datatype joined) {shown_g}: the text delivered is not a prefix of '
                   f'the text written (first difference at character {k}: '
                   f'got {show_text(dl[k][0]) if k < len(dl) else "nothing"}, '
                   f'written {show_text(wr[k][0]) if k < len(wr) else "nothing"}){extra}',
                   {'case': case, 'encoding': enc, 'errors': errors, 'direction': f'{x}->{y}',
                    'writes': [[dt, t] for dt, t in wtxt], 'received': [[dt, t] for dt, t in got]})


def check_c07(case: Dict[str, Any], res: Dict[str, Any]) -> List[Failure]:
    """bytes delivered == bytes written per channel and datatype (order across datatypes included), nothing
    duplicated or reordered ever, EOF iff signalled and last"""
    fails: List[Failure] = []
    if res.get('error') and _zero_pktsize(case) and 'ChannelOpenError' in str(res['error']):
        return []
    if res.get('error'):
        return [Failure('harness-error:' + str(res['error'])[:60], f'real run failed: {res["error"]}', {'case': case})]
    results = res['results']
    writes = accepted_writes(case, results)
    closed = app_closed(case, results)
    fatal = res.get('dead')
    wire = res['wire']
    if fatal and fatal != 'decode' and case.get('profile') != 'hostile':
        # two honest endpoints: the only legitimate ProtocolError is a decode error of deliberately invalid UTF-8
        fails.append(Failure('protocol-error-between-honest-peers:' + str(fatal),
                             f'the connection was torn down ({fatal}) although both peers followed the protocol: '
                             f'data in flight is lost', {'case': case}))
    if fatal == 'decode' and case.get('profile') != 'hostile':
        fails += decode_fatal(case, res)
    for i in range(len(case['chans'])):
        for x, y in (('a', 'b'), ('b', 'a')):
            enc = case['chans'][i].get('enc')
            text = bool(enc or case['chans'][i].get('decA' if y == 'a' else 'decB'))
            wr = expected_units(writes.get((x, i), []), text)
            chunks, kinds = delivered(res['events'][y][i])
            dl = [(u, dt) for dt, data in chunks for u in data]
            where = f'channel {i} direction {x}->{y}' + (' (text)' if text else '')
            if wr is None:
                continue
            if enc and dl != wr[:len(dl)]:
                # a text channel in a named encoding: say which encoding, what was written, what arrived
                fails.append(text_failure(case, i, x, y, writes.get((x, i), []), chunks, dl, wr))
                continue
            if dl != wr[:len(dl)] and text and len({dt for dt, _d in writes.get((x, i), [])}) > 1:
                sh = shared_units(writes.get((x, i), []))
                if sh is not None and dl == sh[:len(dl)]:
                    k = next((j for j in range(min(len(dl), len(wr))) if dl[j] != wr[j]), min(len(dl), len(wr)))
                    fails.append(Failure(D1_SIG, f'{where}: a character written on one data type was delivered with '
                                         f'the other (unit {k}: got {dl[k] if k < len(dl) else None}, written '
                                         f'{wr[k] if k < len(wr) else None}): the receiver decodes all data types with '
                                         f'ONE incremental decoder', {'case': case, 'channel': i}))
                    continue
            if dl != wr[:len(dl)]:
                k = next((j for j in range(min(len(dl), len(wr))) if dl[j] != wr[j]), min(len(dl), len(wr)))
                kind = 'duplicated-or-extra' if len(dl) > len(wr) and dl[:len(wr)] == wr else 'corrupted-or-reordered'
                fails.append(Failure(f'stream-{kind}', f'{where}: delivered bytes are not a prefix of the bytes written '
                                     f'(first difference at unit {k}; {len(dl)} delivered, {len(wr)} written)',
                                     {'case': case}))
                continue
            sent_eof = any(c == i and m == 'E' for c, m, _k in wire[x])
            sent_close = any(c == i and m == 'C' for c, m, _k in wire[x])
            n_eof = kinds.count('e')
            if n_eof > 1:
                fails.append(Failure('eof-delivered-twice', f'{where}: eof_received called {n_eof} times', {'case': case}))
            if n_eof and not sent_eof:
                fails.append(Failure('eof-without-signal', f'{where}: eof_received although the sender never sent EOF',
                                     {'case': case}))
            if n_eof and 'd' in kinds[kinds.index('e'):]:
                fails.append(Failure('data-after-eof', f'{where}: data_received after eof_received', {'case': case}))
            if 'l' in kinds and kinds.index('l') != len(kinds) - 1:
                fails.append(Failure('callback-after-connection-lost', f'{where}: callbacks after connection_lost',
                                     {'case': case}))
            if fatal or closed.get((y, i)) or not res.get('drained') or _zero_pktsize(case):
                continue        # (a receiver advertising maximum packet size 0 forbids all data)
            if len(dl) != len(wr):
                fails.append(Failure('stream-incomplete', f'{where}: {len(wr) - len(dl)} of {len(wr)} written bytes never '
                                     f'delivered although the reader reads and everything in flight was delivered',
                                     {'case': case}))
            if n_eof and len(dl) != len(wr):
                fails.append(Failure('eof-before-all-data', f'{where}: eof_received before all data', {'case': case}))
            # write_eof() accepted while the send half was still open (neither EOF nor CLOSE on the wire yet)
            signalled = False
            for k, (op, r) in enumerate(zip(case['ops'], results)):
                if op[0] == 'app' and op[1] == x and op[2] == i and op[3] == 'eof' and r.startswith('ok '):
                    closed_before = any(o[0] == 'app' and o[1] == x and o[2] == i and o[3] == 'close'
                                        for o in case['ops'][:k])
                    if not closed_before and not any(c == i and m in ('E', 'C') and j < k for c, m, j in wire[x]):
                        signalled = True
            if signalled and not sent_eof and not _zero_pktsize(case):
                fails.append(Failure(EOF_UNSENT_SIG, f'{where}: the sender called write_eof() and then close() while '
                                     f'data was still waiting for window: all {len(wr)} units were delivered and '
                                     f'the channel closed, but the EOF message was never sent (close() replaces '
                                     f'eof_pending by close_pending) and eof_received() was never called',
                                     {'case': case}))
            if sent_eof and not n_eof:
                if sent_close:
                    fails.append(Failure(F13_SIG, f'{where}: the sender wrote {len(wr)} bytes, signalled EOF and closed; the '
                                         f'session got all the data and connection_lost but eof_received() was never '
                                         f'called (CLOSE arrived while the EOF was still pending: reading paused or not started yet)',
                                         {'case': case}))
                else:
                    fails.append(Failure('eof-not-delivered', f'{where}: EOF was sent and everything drained but '
                                         f'eof_received() was never called', {'case': case}))
    return fails


def check_c08(case: Dict[str, Any], res: Dict[str, Any]) -> List[Failure]:
    """no DATA packet beyond the window the peer granted (as the sender knew it) or its maximum packet size;
    a receiver accepts no more than it advertised; everything written is delivered to a reader that reads"""
    fails: List[Failure] = []
    if res.get('error') == 'spin' or res.get('dead') == 'spin' or res.get('error') == 'spin during setup':
        zero = [i for i, c in enumerate(case['chans']) if c['pa'] == 0 or c['pb'] == 0] or case.get('effective_zero')
        sig = F2_SIG if zero else 'send-loop-spins'
        return [Failure(sig, 'an operation emitted more than %d packets: `_flush_send_buf` does not terminate '
                        '(peer advertised maximum packet size 0: every iteration sends an empty DATA packet)'
                        % L.PACKET_BUDGET, {'case': case})]
    if res.get('error') and _zero_pktsize(case) and 'ChannelOpenError' in str(res['error']):
        return []           # a peer advertising maximum packet size 0 is refused: nothing to check
    if res.get('error'):
        return [Failure('harness-error:' + str(res['error'])[:60], f'real run failed: {res["error"]}', {'case': case})]
    chans = case['chans']
    ops = list(case['ops'])
    win = {}
    maxpkt = {}
    for i, c in enumerate(chans):
        win[('a', i)], maxpkt[('a', i)] = c['wb'], c['pb']      # what a may send: b's window / max packet
        win[('b', i)], maxpkt[('b', i)] = c['wa'], c['pa']
    # ---- sender side, replayed over every operation (script + drain) in the order it happened -----------------
    hostile = case.get('profile') == 'hostile'
    for op, line in res.get('log', []):
        side = 'a' if op[0] == 'burst' else op[1]
        r = L.parse_result(line)
        if r['kind'] != 'ok' or r['ch'] in ('?', '-1'):
            continue
        i = int(r['ch'])
        if r['in'].startswith('A'):
            win[(side, i)] += int(r['in'][1:])
        if hostile and side != case.get('victim'):
            continue
        for m in r['msgs']:
            if m.startswith('D'):
                n = int(m.split(':')[1])
                if n > maxpkt[(side, i)]:
                    fails.append(Failure('data-exceeds-max-packet', f'channel {i} side {side}: DATA packet of {n} bytes, '
                                         f'peer maximum packet size {maxpkt[(side, i)]}', {'case': case}))
                if n > win[(side, i)]:
                    fails.append(Failure('data-exceeds-window', f'channel {i} side {side}: DATA packet of {n} bytes with '
                                         f'only {win[(side, i)]} bytes of window granted', {'case': case}))
                if n == 0:
                    fails.append(Failure('empty-data-packet', f'channel {i} side {side}: empty DATA packet',
                                         {'case': case}))
                win[(side, i)] -= n
    # ---- receiver side against a peer that ignores the window ------------------------------------------------
    if hostile:
        v = case['victim']
        cfg = chans[0]
        advertised = cfg['wa'] if v == 'a' else cfg['wb']
        accepted = 0
        seen_delivered = 0
        counting = True
        for op, line in zip(ops, res['results']):
            r = L.parse_result(line)
            if r['kind'] == 'ok':
                for m in r['msgs']:
                    if m.startswith('A'):
                        advertised += int(m[1:])
                seen_delivered += sum(len(o.split(':', 1)[1]) // 2 for o in r['outs'] if o.startswith('d') and
                                      o.split(':', 1)[1] != '-')
            if op[0] == 'app' and op[3] in ('close',) or op[0] == 'raw' and op[3] in ('close', 'eof'):
                counting = False        # after EOF/CLOSE data is a different protocol error / is dropped
            if op[0] == 'raw' and op[3] == 'data' and counting:
                n = len(unhx(op[5] or '-'))
                bad_type = op[4] is not None and not (v == 'a' and op[4] == 1)
                if r['kind'] == 'ok' and not bad_type and n > 0:
                    if accepted + n > advertised:
                        buffered = accepted - seen_delivered
                        sig = F3_SIG if buffered > 0 or n > 0 and not any(
                            o.startswith('d') for o in r['outs']) else 'window-exceeded-not-rejected'
                        fails.append(Failure(sig, f'side {v}: a DATA packet of {n} bytes was accepted although only '
                                             f'{advertised - accepted} bytes of the advertised window '
                                             f'({advertised} advertised in total, {accepted} accepted, {buffered} of them '
                                             f'still buffered because reading is paused) remained: no '
                                             f'ProtocolError("Window exceeded")', {'case': case}))
                    accepted += n
                elif r['kind'] == 'fatal' and r['err'] == 'windowExceeded' and accepted + n <= advertised:
                    fails.append(Failure('window-false-reject', f'side {v}: {n} bytes rejected with {advertised - accepted} '
                                         f'bytes of advertised window left', {'case': case}))
        return fails
    # ---- the reader's pause is honoured ---------------------------------------------------------------------
    fails += check_pause(case, res)
    # ---- liveness -------------------------------------------------------------------------------------------
    if res.get('dead') == 'decode':
        fails += decode_fatal(case, res)
    if res.get('dead') and res.get('dead') not in ('decode', 'spin'):
        fails.append(Failure('protocol-error-between-honest-peers:' + str(res.get('dead')),
                             f'the connection was torn down ({res.get("dead")}) although both peers followed the '
                             f'protocol', {'case': case}))
    if res.get('dead') or not res.get('drained'):
        if not res.get('dead') and 'drained' in res and res.get('drain_results') is not None and not res.get('drained') \
                and res.get('drain_results'):
            fails.append(Failure('drain-did-not-finish', 'deliveries did not quiesce within the step budget',
                                 {'case': case}))
        return fails
    writes = accepted_writes(case, res['results'])
    closed = app_closed(case, res['results'])
    for i in range(len(chans)):
        for x, y in (('a', 'b'), ('b', 'a')):
            # an application that called close() gets its CLOSE out: whatever it still had to send needs window from
            # the peer, and the peer gives window back for all it receives — delivered to a reader that reads, or
            # (its application closed too) dropped / discarded and credited
            if closed.get((x, i)) and not any(c == i and m == 'C' for c, m, _k in res['wire'][x]) and \
                    (chans[i]['pa'] if y == 'a' else chans[i]['pb']) != 0 and not case.get('effective_zero'):
                both = bool(closed.get((y, i)))
                fails.append(Failure(CLOSE_STUCK_SIG if both else 'close-never-sent',
                                     f'channel {i}: the application at side {x} called close() with data still to '
                                     f'send; everything in flight was delivered, every reader reads, yet its CLOSE was '
                                     f'never sent: its send window is exhausted and is not replenished' +
                                     (f' — side {y} has closed as well and drops what it receives WITHOUT giving the '
                                      f'window back (both ends wait for each other for ever)' if both else ''),
                                     {'case': case, 'channel': i}))
            if closed.get((y, i)):
                continue
            if (chans[i]['pa'] if y == 'a' else chans[i]['pb']) == 0 or case.get('effective_zero'):
                continue        # the receiver forbids all data: nothing can be delivered, by its own configuration
            text = bool(chans[i].get('decA' if y == 'a' else 'decB'))
            wr = expected_units(writes.get((x, i), []), text)
            chunks, _kinds = delivered(res['events'][y][i])
            dl = [(u, dt) for dt, data in chunks for u in data]
            if wr is not None and len(dl) < len(wr):
                fails.append(Failure('stalled:undelivered-data', f'channel {i} {x}->{y}: {len(wr) - len(dl)} written bytes '
                                     f'not delivered although the reader reads and nothing is in flight any more',
                                     {'case': case}))
    return fails
