"""C07 — Channel data arrives complete, in order, once, with EOF last.

Lean: Model/Channel.lean (one endpoint of asyncssh/channel.py SSHChannel), Model/ChannelSys.lean (two endpoints, one
FIFO link per direction, N channels multiplexed), Model/ChannelCodec.lean (UTF-8 layer), Model/ChannelText.lean
(encodings whose codec keeps state across writes: the byte order mark family utf-8-sig / utf-16 / utf-32, as byte
machines over the body codecs UTF-8, UTF-16-LE, UTF-32-LE); Props/C07.lean
(stream_inv, delivered_is_prefix, eof_only_if_signalled, eof_after_all_data, eof_last, eof_delivered_if_sent,
eof_delivered_if_signalled, eof_lost_when_close_overtakes_old / eof_not_sent_when_close_overrides_old (witnesses
for the code before the fixes 024eb80 / d334dad),
channels_independent_prop, utf8_split_ok, text_delivered_is_text_written, text_as_written_every_packetisation,
text_stream_any_chunking, per_write_encoding_breaks_text (witness), text_codec_objects_in_code (tie to write /
set_encoding / _deliver_data), ...).
Correspondence: a real SSHClientConnection / SSHServerConnection pair over the in-memory hub (manual delivery, one
SSH packet at a time, packet tap), raw SSHClientSession / SSHServerSession callback API, scripted by the seeded PRNG:
writes of 0..3 windows on stdin/stdout/stderr, write_eof, close, pause/resume, pausing from inside data_received,
windows and packet sizes down to 1, up to 4 channels, text channels with multi-byte characters cut anywhere, a
burst arriving before the client started reading; the same script drives lean/Drivers/C07.lean; compared per
operation: channel messages put on the wire (kind, datatype, size, adjust value), session callbacks (bytes / text),
API errors, protocol errors.  The text layer separately: the model's incremental encoder / decoder for utf-8-sig,
utf-16, utf-32, utf-16-le, utf-8 against CPython's `codecs` incremental encoder / decoder on generated write
sequences (honest, per-write encoded, mark-less, corrupted) in random packetisations, per chunk.
Text receivers: one decoder PER DATA TYPE (Model/ChannelDecode.lean; theorems text_per_datatype_as_written /
text_per_datatype_end_to_end: text per data type is a function of the bytes per data type, whatever is interleaved;
no_decode_error_after_local_close: after the application's close() no event raises a decode error), with the
behaviour before the repairs 98283c0 / afe8b9e kept as `Variant.preFix` and witness theorems
(shared_decoder_breaks_split_character_preFix, close_midchar_then_eof_fatal_preFix); a second `shell` request
(repair e7dbee0: refused; witness second_session_request_delivered_behind_pause_preFix) and the layer-3 tunnel channel
(Model/ChannelVariants.lean; tun_packet_cut_at_window_edge_loses_bytes is a witness of a defect that is NOT repaired).
The scripted cases include: a bytes sender whose data types are each valid UTF-8 but interleaved in the middle of a
character; a text receiver closing in the middle of a character while the honest peer goes on to EOF / CLOSE; a
second `shell` request in mid-stream (also against a server session written with the stream API); layer-3 tunnel
packets against small windows (props/_channel_audit.py).
Oracle: (also: real two-endpoint TEXT sessions in utf-16, utf-32, utf-8-sig, utf-16-le/-be, utf-32-be, latin-1,
utf-8 errors='replace' — several writes per direction, empty writes between, astral characters, stderr, windows and
packet sizes down to 1, EOF — text received == text written, failure names encoding and writes) bytes delivered == bytes written per channel and datatype (order across datatypes included), nothing ever
duplicated or reordered, eof_received iff EOF was sent, once, after all data.
"""

from __future__ import annotations

import codecs
import random
from typing import Any, Dict, List

import vlib
from vlib import Ctx, CorrResult, OracleResult, Failure, Disagreement, Hist, hx

import translate as T
from props import _channel_audit as A
from props import _channel_gen as G
from props import _channel_lib as L
from props import _channel_oracle as O

PROPERTY = 'C07'
MANIFEST = {
    'text': 'Lean 4 theorems about an executable model of SSHChannel (send half, receive half, two endpoints joined by '
            'FIFO links, N channels multiplexed), over EVERY event sequence and every window / packet size: '
            'delivered ++ receive buffer ++ in flight ++ send buffer = written as byte streams tagged with their datatype '
            '(stream_inv: complete, ordered within and across datatypes, no loss, no duplication), delivered is always a '
            'prefix of written, eof_received only if the sender went through write_eof, only after all data, once and '
            'last, and always once the application called write_eof() before its own close() and its data went out '
            '(eof_delivered_if_signalled; also when close() follows write_eof() with data still buffered — fix d334dad '
            '— and when CLOSE overtakes the EOF at the receiver — fix 024eb80; the old behaviours are kept as witness '
            'theorems about the old functions); UTF-8 decoding independent of packet boundaries (byte-exact incremental decoder, round trip for every '
            'scalar value); the encodings whose codec keeps state across writes (utf-8-sig, utf-16, utf-32; also utf-16-le, '
            'utf-8 in the same frame): one incremental encoder per data type emits the byte order mark once, one '
            'incremental decoder per data type consumes it once — for every sequence of writes and every packetisation the text '
            'delivered is the text written, write by write (text_as_written_every_packetisation), with the witness that '
            'encoding each write on its own delivers U+FEFF in front of every later write; '
            'text receivers keep one decoder per data type: the text delivered with each data type is a function of '
            'the bytes written with it, whatever packets of other data types arrive in between, also in the middle of '
            'a character (text_per_datatype_as_written, text_per_datatype_end_to_end; before repair 98283c0 one '
            'decoder was shared: witness shared_decoder_breaks_split_character_preFix); after the application\'s '
            'close() no event raises a decode error (no_decode_error_after_local_close; before repair afe8b9e the '
            'honest peer\'s EOF did: witness close_midchar_then_eof_fatal_preFix); a second shell / exec / subsystem '
            'request is refused (tie second_session_request_refused, witness for the code before repair e7dbee0); '
            'layer-3 tunnel packets cut at the window edge lose bytes (witness, not repaired: known finding); '
            'per-channel projection of a multiplexed run. The model is tied to the code by the translator '
            '(send-loop arithmetic from the AST) and by a differential run against two real endpoints driven packet by '
            'packet.',
    'note': 'session objects use the raw callback API; stream.py is only the consumer; codecs other than UTF-8, '
            'UTF-16-LE, UTF-32-LE and their mark-framed forms are not modelled (big-endian forms, 8-bit code pages, error '
            'handlers other than strict: exercised by the oracle on real text sessions only); CPython codecs are tied '
            'to the byte machines by the correspondence run, not proved; pause_writing/resume_writing '
            'callbacks are not modelled; of the channel requests only a second shell request on a running channel '
            '(refused, no effect) is; abort() is not modelled; the layer-3 tunnel channel is modelled at one endpoint '
            '(accounting of the stripped address family) and exercised end to end by the oracle only',
    'technique': 'Lean 4 proof (invariants by induction over the event sequence of a two-endpoint transition system) '
                 '+ translator for the integer expressions + differential correspondence on real client/server pairs '
                 '+ end-state oracle',
}
LEAN_PROPS = ['AsyncsshModel.Props.C07']
DRIVER = 'Drivers/C07.lean'
TRUSTED = ['asyncssh transport below the channel layer (packets arrive intact and in order: C01/C02)',
           'CPython codecs (checked against the model for utf-8, utf-8-sig, utf-16, utf-32, utf-16-le by correspondence; '
           'other encodings only through the text-session oracle)',
           'harness/props/_channel_lib.py: the realisation of delivery events on the in-memory hub']
ASSUMPTIONS = ['the receiving application has not called close() (after that, undelivered data is discarded by contract)',
               'window and packet sizes < 2^32; fewer than 2^32 bytes per adjust']


def translate(ctx: Ctx) -> Dict[str, Any]:
    try:
        info = G.generate('C07')
    except T.Untranslatable as e:
        # the code no longer has the shape the translator reads: the generated file keeps its last content and
        # the tie for these expressions falls back to the correspondence run (DESIGN 2.1, T1 fallback)
        ctx.translator_fallbacks.append(f'channel arithmetic: {e}')
        return {'gen_file': 'Gen/C07.lean', 'fallback': str(e)}
    for fb in info.get('fallbacks', []):
        ctx.translator_fallbacks.append('channel arithmetic, baseline text used: ' + fb)
    bad = G.self_test('C07', info, ctx.subrng('selftest'))
    if bad:
        raise RuntimeError('translated expressions disagree with the Python originals: ' + '; '.join(bad[:3]))
    return info


# ---------------------------------------------------------------------------------------------------------
# correspondence


def _nontrivial(case: Dict[str, Any]) -> bool:
    big = False
    for op in case['ops']:
        if op[0] == 'app' and op[3] == 'write' and op[5]:
            cfg = case['chans'][op[2]]
            n = len(op[5]) // 2
            w, p = (cfg['wb'], cfg['pb']) if op[1] == 'a' else (cfg['wa'], cfg['pa'])
            if n > w or n > p:
                big = True
    return big and any(op[0] == 'app' and op[3] in ('pause', 'arm') for op in case['ops'])


def _codec_cases(rng: random.Random, n: int) -> List[List[bytes]]:
    cases = []
    for _ in range(n):
        data = L.gen_text_bytes(rng, rng.randint(0, 40))
        r = rng.random()
        if r < 0.35 and data:
            k = rng.randrange(len(data))
            data = data[:k] + bytes([rng.choice([0x80, 0xbf, 0xc0, 0xc1, 0xed, 0xe0, 0xf0, 0xf4, 0xf5, 0xff, 0xa0,
                                                 0x9f, 0x90, 0x8f])]) + data[k + rng.choice([0, 1]):]
        elif r < 0.45:
            data = bytes(rng.getrandbits(8) for _ in range(rng.randint(1, 12)))
        chunks = []
        while data:
            k = rng.choice([1, 1, 2, 3, 5, len(data)])
            chunks.append(data[:k])
            data = data[k:]
        if rng.random() < 0.2:
            chunks.insert(rng.randint(0, len(chunks)), b'')
        cases.append(chunks or [b''])
    return cases


def _py_decode(chunks: List[bytes]) -> str:
    dec = codecs.getincrementaldecoder('utf-8')('strict')
    out = []
    for c in chunks:
        try:
            t = dec.decode(c)
        except UnicodeDecodeError:
            out.append('err')
            break
        out.append('.'.join(str(ord(ch)) for ch in t) or '-')
    return ' '.join(out)


TEXT_CODECS = ['utf-8-sig', 'utf-16', 'utf-32', 'utf-16-le', 'utf-8']
_TEXT_CPS = [0x41, 0x61, 0x0a, 0x7f, 0x80, 0xe9, 0xff, 0x7ff, 0x800, 0x20ac, 0xd7ff, 0xe000, 0xfeff, 0xfffe, 0xffff,
             0x10000, 0x1f600, 0x10ffff]


def _cut(rng: random.Random, data: bytes) -> List[bytes]:
    chunks = []
    while data:
        k = rng.choice([1, 1, 2, 3, 4, 5, 7, len(data)])
        chunks.append(data[:k])
        data = data[k:]
    if rng.random() < 0.25:
        chunks.insert(rng.randint(0, len(chunks)), b'')
    return chunks or [b'']


def _text_cases(rng: random.Random, n: int) -> List[Dict[str, Any]]:
    """write sequences for the stateful text codecs: what ONE incremental encoder / per-write encoding puts on the
    wire, and what ONE incremental decoder makes of the stream in a random packetisation"""
    import sys
    cases = []
    for _ in range(n):
        codec = rng.choice(TEXT_CODECS)
        writes = []
        for _w in range(rng.randint(0, 5)):
            r = rng.random()
            k = 0 if r < 0.25 else rng.randint(1, 2) if r < 0.7 else rng.randint(3, 8)
            writes.append([rng.choice(_TEXT_CPS + [rng.randrange(0x110000)]) for _c in range(k)])
        writes = [[cp for cp in w if not 0xd800 <= cp < 0xe000] for w in writes]
        r = rng.random()
        kind = 'honest' if r < 0.5 else 'fresh' if r < 0.8 else 'nomark' if r < 0.9 else 'corrupt'
        strs = [''.join(chr(cp) for cp in w) for w in writes]
        if kind == 'fresh':
            per_write = [t.encode(codec) if t else b'' for t in strs]       # the defective variant: `data.encode(encoding)`
        else:
            enc = codecs.getincrementalencoder(codec)('strict')
            per_write = [enc.encode(t) if t else b'' for t in strs]         # `write('')` returns before the encoder
        stream = b''.join(per_write)
        if kind == 'nomark':
            stream = ''.join(strs).encode({'utf-8-sig': 'utf-8', 'utf-16': 'utf-16-le', 'utf-32': 'utf-32-le'}.get(codec, codec))
        elif kind == 'corrupt' and stream:
            k = rng.randrange(len(stream))
            stream = stream[:k] + bytes([rng.choice([0x00, 0xd8, 0xdc, 0xdf, 0xff, 0xfe, 0x80, 0xef, 0xbb, 0x11])]) + \
                stream[k + rng.choice([0, 1]):]
        if sys.byteorder != 'little':
            continue            # CPython's utf-16 / utf-32 encoders use the native order; the model is little endian
        if (codec == 'utf-16' and stream[:2] == b'\xfe\xff') or (codec == 'utf-32' and stream[:4] == b'\x00\x00\xfe\xff'):
            continue            # a big-endian mark switches CPython's decoder to big endian: not modelled
        if codec == 'utf-16' and len(stream) >= 2 and stream[:2] != b'\xff\xfe' and 0xd8 <= stream[1] <= 0xdb:
            continue            # mark-less and starting with a high surrogate: CPython raises "does not start with BOM"
            #                     only once the pair is complete (it judges by bytes consumed), the model after 2 bytes
        cases.append({'codec': codec, 'kind': kind, 'writes': writes, 'per_write': per_write,
                      'chunks': _cut(rng, stream)})
    return cases


def _py_text_decode(codec: str, chunks: List[bytes]) -> str:
    dec = codecs.getincrementaldecoder(codec)('strict')
    out = []
    for c in chunks:
        try:
            t = dec.decode(c)
        except UnicodeError:        # UnicodeDecodeError, or plain UnicodeError ("stream does not start with BOM")
            out.append('err')
            return ' '.join(out)
        out.append('.'.join(str(ord(ch)) for ch in t) or '-')
    try:
        dec.decode(b'', True)
        out.append('clean')
    except UnicodeError:
        out.append('pending')
    return ' '.join(out)


def correspondence(ctx: Ctx) -> CorrResult:
    res = CorrResult()
    hist = Hist()
    plan = [('stream', ctx.n(260, 3000)), ('tiny', ctx.n(110, 1500)), ('multi', ctx.n(90, 1200)),
            ('starting', ctx.n(110, 1500)), ('textclose-dec', ctx.n(60, 800))]
    cases: List[Dict[str, Any]] = [c for c in audit_cases() if not c['chans'][0].get('enc')]
    for prof, n in plan:
        rng = ctx.subrng('corr:' + prof)
        cases += [L.gen_case(rng, prof) for _ in range(n)]
    crng = ctx.subrng('corr:codec')
    codec = _codec_cases(crng, ctx.n(400, 4000))
    enc = [[crng.choice([0, 0x41, 0x7f, 0x80, 0x7ff, 0x800, 0xd7ff, 0xe000, 0xffff, 0x10000, 0x10ffff,
                         crng.randrange(0x110000)]) for _ in range(crng.randint(0, 6))] for _ in range(ctx.n(150, 1500))]
    enc = [[cp for cp in cps if not 0xd800 <= cp < 0xe000] for cps in enc]
    lines: List[str] = []
    index = []
    for c in cases:
        ml = L.model_lines(c)
        index.append((len(lines), len(ml)))
        lines += ml
    c0 = len(lines)
    lines += ['dec ' + ' '.join(hx(x) for x in chunks) for chunks in codec]
    e0 = len(lines)
    lines += ['enc ' + ' '.join(str(cp) for cp in cps) if cps else 'enc' for cps in enc]
    t0 = len(lines)
    tcases = _text_cases(ctx.subrng('corr:textcodec'), ctx.n(500, 5000))
    for tc in tcases:
        ws = ' '.join('.'.join(str(cp) for cp in w) or '-' for w in tc['writes'])
        lines.append(('tfresh ' if tc['kind'] == 'fresh' else 'tenc ') + tc['codec'] + (' ' + ws if ws else ''))
        lines.append('tdec ' + tc['codec'] + ' ' + ' '.join(hx(x) or '-' for x in tc['chunks']))
    out = ctx.model(DRIVER, lines)
    for c, (o, n) in zip(cases, index):
        mres = L.model_results(c, out[o:o + n])
        real = L.run_case(c)
        res.cases += 1
        hist.hit('profile:' + c['profile'])
        hist.hit('channels:%d' % len(c['chans']))
        if real['error']:
            res.disagreements.append(Disagreement({'case': c}, 'n/a', 'harness error: ' + str(real['error']),
                                                  'correspondence:' + c['profile']))
            continue
        for k, (r, m) in enumerate(zip(real['results'], mres)):
            hist.hit('result:' + r.split()[0] + (':' + r.split()[1] if r.split()[0] in ('api', 'fatal') else ''))
            hist.hit('op:' + (c['ops'][k][3] if c['ops'][k][0] == 'app' else c['ops'][k][0]))
            if r != m:
                small = dict(c, ops=c['ops'][:k + 1])
                res.disagreements.append(Disagreement({'case': small, 'op_index': k, 'op': c['ops'][k]}, m, r,
                                                      'correspondence:' + c['profile']))
                break
        if _nontrivial(c):
            res.nontrivial += 1
        if len(res.samples) < 3:
            res.samples.append({'chans': c['chans'], 'ops': c['ops'][:6], 'impl': real['results'][:6]})
    for chunks, m in zip(codec, out[c0:e0]):
        res.cases += 1
        p = _py_decode(chunks)
        hist.hit('codec:' + ('error' if 'err' in p else 'ok'))
        if p != m:
            res.disagreements.append(Disagreement({'chunks': [hx(x) for x in chunks]}, m, p, 'correspondence:utf8-decoder'))
    for k, tc in enumerate(tcases):
        res.cases += 1
        m_enc, m_dec = out[t0 + 2 * k], out[t0 + 2 * k + 1]
        p_enc = ' '.join(hx(b) or '-' for b in tc['per_write']) or '-'
        p_dec = _py_text_decode(tc['codec'], tc['chunks'])
        hist.hit('textcodec:%s:%s' % (tc['codec'], tc['kind']))
        hist.hit('textcodec-result:' + ('error' if 'err' in p_dec else p_dec.split()[-1]))
        if sum(1 for w in tc['writes'] if w) >= 2 and len(tc['chunks']) >= 3:
            res.nontrivial += 1
        shown = {'codec': tc['codec'], 'kind': tc['kind'], 'writes': tc['writes'], 'chunks': [hx(x) for x in tc['chunks']]}
        if p_enc != m_enc:
            res.disagreements.append(Disagreement(shown, m_enc, p_enc, 'correspondence:text-encoder:' + tc['codec']))
        elif p_dec != m_dec:
            res.disagreements.append(Disagreement(shown, m_dec, p_dec, 'correspondence:text-decoder:' + tc['codec']))
    for cps, m in zip(enc, out[e0:t0]):
        res.cases += 1
        p = hx(''.join(chr(cp) for cp in cps).encode('utf-8'))
        if p != m:
            res.disagreements.append(Disagreement({'cps': cps}, m, p, 'correspondence:utf8-encoder'))
    res.histogram = dict(hist)
    res.rule = ('non-trivial channel case = some write larger than the peer window or max packet AND a pause; '
                'codec cases = random chunkings of valid / corrupted UTF-8; text codec case (utf-8-sig, utf-16, utf-32, '
                'utf-16-le, utf-8 against CPython codecs: one incremental encoder over the writes, per-write encoding, '
                'mark-less and corrupted streams, random packetisation) non-trivial = at least two non-empty writes '
                'and three chunks')
    return res


# ---------------------------------------------------------------------------------------------------------
# oracle


def f13_cases() -> List[Dict[str, Any]]:
    base = {'wa': 64, 'pa': 32, 'wb': 64, 'pb': 32, 'keepA': True, 'keepB': True, 'pausedA': 'n',
            'decA': False, 'decB': False}
    paused = {'profile': 'directed', 'chans': [dict(base)], 'ops': [
        ['app', 'a', 0, 'pause'], ['app', 'b', 0, 'write', None, '010203'], ['app', 'b', 0, 'eof'],
        ['app', 'b', 0, 'close'], ['deliver', 'a'], ['deliver', 'a'], ['deliver', 'a'], ['app', 'a', 0, 'resume'],
        ['deliver', 'b']]}
    starting = {'profile': 'directed', 'chans': [dict(base, pausedA='s')], 'ops': [
        ['app', 'b', 0, 'write', None, '010203'], ['app', 'b', 0, 'eof'], ['app', 'b', 0, 'close'], ['burst', 3],
        ['deliver', 'b']]}
    unpaused = {'profile': 'directed', 'chans': [dict(base)], 'ops': [
        ['app', 'b', 0, 'write', None, '010203'], ['app', 'b', 0, 'eof'], ['app', 'b', 0, 'close'],
        ['deliver', 'a'], ['deliver', 'a'], ['deliver', 'a'], ['deliver', 'b']]}
    nodata = {'profile': 'directed', 'chans': [dict(base, pausedA='s')], 'ops': [
        ['app', 'b', 0, 'eof'], ['app', 'b', 0, 'close'], ['burst', 2], ['deliver', 'b']]}
    # sender side: write_eof() then close() while data still waits for window (client window 4)
    unsent = {'profile': 'directed', 'chans': [dict(base, wa=4)], 'ops': [
        ['app', 'b', 0, 'write', None, '0102030405060708'], ['app', 'b', 0, 'eof'], ['app', 'b', 0, 'close']]}
    return [paused, starting, unpaused, nodata, unsent]


def text_cases() -> List[Dict[str, Any]]:
    """directed text sessions in the encodings whose codec keeps state across writes: per direction several
    non-empty writes with an empty one in between, an astral character, stdout and stderr, small window and
    packet size, EOF both ways"""
    out = []
    for enc in ('utf-16', 'utf-32', 'utf-8-sig', 'utf-16-le', 'latin-1', 'utf-8'):
        for wa, pa in ((1 << 21, 32768), (5, 3)):
            def u(t: str) -> str:
                if enc == 'latin-1':
                    t = ''.join(c for c in t if ord(c) < 256)
                return hx(t.encode('utf-8'))
            cfg = {'wa': wa, 'pa': pa, 'wb': wa, 'pb': pa, 'keepA': True, 'keepB': True, 'pausedA': 'n',
                   'decA': False, 'decB': False, 'enc': enc, 'errors': 'replace' if enc == 'utf-8' else 'strict'}
            ops = [['app', 'a', 0, 'write', None, u('one')], ['app', 'a', 0, 'write', None, ''],
                   ['app', 'a', 0, 'write', None, u('tw\U0001f600 é')], ['deliver', 'b'],
                   ['app', 'b', 0, 'write', None, u('out-1 ')], ['app', 'b', 0, 'write', 1, u('err-1 €')],
                   ['deliver', 'a'], ['app', 'b', 0, 'write', None, ''], ['app', 'b', 0, 'write', None, u('out-2\n')],
                   ['app', 'a', 0, 'write', None, u('three')], ['app', 'b', 0, 'write', 1, u('\ufefferr-2')],
                   ['app', 'a', 0, 'eof'], ['app', 'b', 0, 'eof']]
            out.append({'profile': 'textenc', 'chans': [cfg], 'ops': ops})
    return out


def audit_cases() -> List[Dict[str, Any]]:
    """directed cases for the audit findings D1 (decoder shared by stdout and stderr), D3 (close() in the middle of
    a character, then the honest peer's EOF / CLOSE), D2 (second shell request while the server application has
    paused reading)"""
    base = {'wa': 1 << 21, 'pa': 32768, 'wb': 1 << 21, 'pb': 32768, 'keepA': True, 'keepB': True, 'pausedA': 'n',
            'decA': False, 'decB': False}
    euro3 = hx('€€€'.encode('utf-8'))
    out = []
    # D1: bytes server (a process' pipes relayed), text client: stdout "€\n" cut after E2 82, stderr "E" in between
    out.append({'profile': 'directed', 'chans': [dict(base, decA=True)], 'ops': [
        ['app', 'b', 0, 'write', None, 'e282'], ['app', 'b', 0, 'write', 1, '45'], ['app', 'b', 0, 'write', None, 'ac0a'],
        ['deliver', 'a'], ['deliver', 'a'], ['deliver', 'a'], ['app', 'b', 0, 'eof'], ['deliver', 'a']]})
    out.append({'profile': 'directed', 'chans': [dict(base, decA=True)], 'ops': [
        ['app', 'b', 0, 'write', 1, 'f09f'], ['app', 'b', 0, 'write', None, '6f6b0a'], ['app', 'b', 0, 'write', 1, '9880'],
        ['deliver', 'a'], ['deliver', 'a'], ['deliver', 'a']]})
    # D3: the client advertises maximum packet size 4: "€€€" travels as E2 82 AC E2 | 82 AC E2 82 | AC; the
    # application closes after the first packet; the server goes on and sends EOF (or closes)
    for ending in (['eof'], ['close'], ['eof', 'close']):
        for cfg in (dict(base, pa=4, enc='utf-8', errors='strict'), dict(base, pa=4, decA=True)):
            out.append({'profile': 'directed', 'chans': [dict(cfg)], 'ops': [
                ['app', 'b', 0, 'write', None, euro3], ['deliver', 'a'], ['app', 'a', 0, 'close'], ['deliver', 'a'],
                ['deliver', 'a'], ['deliver', 'b']] + [['app', 'b', 0, e] for e in ending] +
                [['deliver', 'a'], ['deliver', 'a'], ['deliver', 'a'], ['deliver', 'b']]})
    # ... the same towards the server (stdin), and with a second, innocent channel on the connection
    out.append({'profile': 'directed', 'chans': [dict(base, pb=4, decB=True), dict(base)], 'ops': [
        ['app', 'a', 0, 'write', None, euro3], ['deliver', 'b'], ['app', 'b', 0, 'close'], ['deliver', 'b'],
        ['deliver', 'b'], ['deliver', 'a'], ['app', 'a', 0, 'eof'], ['deliver', 'b'], ['deliver', 'b'],
        ['app', 'a', 1, 'write', None, '6f6e650a'], ['deliver', 'b']]})
    # D2: the server application pauses, 10 bytes arrive and wait; the client sends a second shell request
    out.append({'profile': 'directed', 'chans': [dict(base, wb=100, pb=32)], 'ops': [
        ['app', 'b', 0, 'pause'], ['app', 'a', 0, 'write', None, '30313233343536373839'], ['deliver', 'b'],
        ['req', 'a', 0], ['deliver', 'b'], ['app', 'a', 0, 'write', None, '6162636465'], ['deliver', 'b'],
        ['deliver', 'a']]})
    return out


def order_failures(fails: List[Failure]) -> List[Failure]:
    """the first failure of every signature first (the runner prints the first few), then the rest"""
    first, rest, seen = [], [], set()
    for f in fails:
        if f.signature in seen:
            rest.append(f)
        else:
            seen.add(f.signature)
            first.append(f)
    return first + rest


def oracle(ctx: Ctx) -> OracleResult:
    res = OracleResult()
    hist = Hist()
    todo: List[Dict[str, Any]] = []
    for s in ctx.suspects:
        if isinstance(s, dict) and 'case' in s and 'chans' in s['case']:
            todo.append(s['case'])
    todo += f13_cases()
    todo += text_cases()
    todo += audit_cases()
    for prof, n in [('stream', ctx.n(160, 2500)), ('tiny', ctx.n(80, 1200)), ('multi', ctx.n(60, 900)),
                    ('starting', ctx.n(80, 1200)), ('textenc', ctx.n(150, 2500)), ('textclose', ctx.n(60, 900))]:
        rng = ctx.subrng('oracle:' + prof)
        todo += [L.gen_case(rng, prof) for _ in range(n)]
    # other session kinds: layer-3 tunnel channels; a stream-API server session and a second shell request
    arng = ctx.subrng('oracle:audit')
    scen = A.tun_cases() + A.second_shell_cases() + [A.gen_tun(arng) for _ in range(ctx.n(25, 400))] + \
        [A.gen_second_shell(arng) for _ in range(ctx.n(15, 250))]
    seen = set()
    for case in scen:
        out = A.run_scenario(case)
        res.evaluations += 1
        hist.hit('profile:' + case['kind'])
        fails = A.check_scenario(PROPERTY, case, out)
        for f in fails:
            hist.hit('failure:' + f.signature)
            if f.signature not in seen and case['kind'] == 'tun':
                seen.add(f.signature)
                f.replay['case'] = A.shrink_tun(PROPERTY, f.replay['case'], f.signature)
            res.failures.append(f)
        if not out.get('error') and (out.get('got') or out.get('handlers')):
            res.nontrivial += 1
    for case in todo:
        real = L.run_case(case, drain=True)
        res.evaluations += 1
        hist.hit('profile:' + case.get('profile', '?'))
        if case['chans'][0].get('enc'):
            hist.hit('encoding:%s/%s' % (case['chans'][0]['enc'], case['chans'][0].get('errors', 'strict')))
        hist.hit('outcome:' + ('fatal:' + str(real.get('dead')) if real.get('dead') else
                               'drained' if real.get('drained') else 'error' if real.get('error') else 'other'))
        fails = O.check_c07(case, real)
        for f in fails:
            hist.hit('failure:' + f.signature)
            if f.signature not in seen:
                seen.add(f.signature)
                f.replay['case'] = shrink(f.replay['case'], f.signature)
            res.failures.append(f)
        if real.get('drained') and any(real['events'][s][i] for s in 'ab' for i in range(len(case['chans']))):
            res.nontrivial += 1
        if len(res.samples) < 3 and real.get('drained'):
            res.samples.append({'chans': case['chans'], 'ops': case['ops'][:5],
                                'delivered': {s: [len(e) for e in real['events'][s]] for s in 'ab'}})
    res.failures = order_failures(res.failures)
    res.histogram = dict(hist)
    res.rule = ('non-trivial = drained run in which some session received callbacks; tunnel / stream-session scenario '
                'in which the reading application received data')
    return res


def shrink(case: Dict[str, Any], signature: str) -> Dict[str, Any]:
    def still(c: Dict[str, Any]) -> bool:
        try:
            return any(f.signature == signature for f in O.check_c07(c, L.run_case(c, drain=True)))
        except Exception:
            return False
    try:
        return L.shrink_case(case, still, budget=40)
    except Exception:
        return case


def replay(ctx: Ctx, rep: Dict[str, Any]) -> List[Failure]:
    case = rep.get('replay', {}).get('case') or rep.get('case')
    if not case:
        for d in rep.get('disagreements', []):
            if isinstance(d.get('case'), dict) and 'case' in d['case']:
                case = d['case']['case']
                break
    if not case:
        return []
    if 'kind' in case:
        return A.check_scenario(PROPERTY, case, A.run_scenario(case))
    return O.check_c07(case, L.run_case(case, drain=True))
