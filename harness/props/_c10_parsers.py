"""C10 leg (iii): robustness of the parsers fed with untrusted bytes.

Every target takes one byte string and must return a value or raise its *documented* error; anything
else is a failure with signature `undocumented-exception:<function>:<ExceptionClass>`.  Inputs are
mutations of valid artefacts (keys of every type in every export format, certificates, trust files, SSHSIG
signatures, agent replies) plus grammar-aware generation (deep DER nesting, huge lengths, regex
metacharacters in PEM headers).  Cases are generated from (seed, target, index) only, so a case can be
regenerated anywhere.  The functions here are run inside worker processes by `_c10_pool`.
"""

from __future__ import annotations

import asyncio
import base64
import binascii
import random
import struct
from typing import Any, Callable, Dict, List, Optional, Tuple

import asyncssh
from asyncssh import asn1 as asn1mod
from asyncssh import packet as packetmod
from asyncssh import public_key as pkmod
from asyncssh import pbe as pbemod
from asyncssh import agent as agentmod
from asyncssh import sshsig as sshsigmod

U32MAX = 0xffffffff
EXTREMES32 = [0, 1, 2, 0x7f, 0x80, 0xff, 0x100, 0x7fff, 0xffff, 0x7fffffff, 0x80000000, U32MAX - 1, U32MAX]

# ---------------------------------------------------------------------------
# valid artefacts (generated once per process)

_ART: Dict[str, Any] = {}

KEY_ALGS = [('ssh-rsa', dict(key_size=1024)), ('ssh-dss', {}), ('ecdsa-sha2-nistp256', {}),
            ('ecdsa-sha2-nistp384', {}), ('ecdsa-sha2-nistp521', {}), ('ssh-ed25519', {}), ('ssh-ed448', {})]
PRIV_FORMATS = ['openssh', 'pkcs1-der', 'pkcs1-pem', 'pkcs8-der', 'pkcs8-pem']
PUB_FORMATS = ['openssh', 'rfc4716', 'pkcs1-der', 'pkcs1-pem', 'pkcs8-der', 'pkcs8-pem']


def artefacts() -> Dict[str, Any]:
    if _ART:
        return _ART
    keys = []
    for alg, kw in KEY_ALGS:
        try:
            keys.append(asyncssh.generate_private_key(alg, comment='c10 ' + alg, **kw))
        except Exception:       # algorithm not available in this build
            continue
    priv: List[Tuple[str, bytes]] = []
    privenc: List[Tuple[str, bytes]] = []
    pub: List[Tuple[str, bytes]] = []
    blobs: List[Tuple[str, bytes]] = []
    certs: List[Tuple[str, bytes]] = []
    certblobs: List[Tuple[str, bytes]] = []
    for k in keys:
        alg = k.get_algorithm()
        for f in PRIV_FORMATS:
            try:
                priv.append((f'{alg}:{f}', k.export_private_key(f)))
            except Exception:
                pass
        for f, ciph in (('pkcs8-pem', 'aes256-cbc'), ('pkcs8-der', 'aes128-cbc'), ('pkcs1-pem', 'aes256-cbc'),
                        ('pkcs8-pem', 'des3-cbc')):
            try:
                privenc.append((f'{alg}:{f}:{ciph}', k.export_private_key(f, passphrase='pw', cipher_name=ciph)))
            except Exception:
                pass
        for f in PUB_FORMATS:
            try:
                pub.append((f'{alg}:{f}', k.export_public_key(f)))
            except Exception:
                pass
        blobs.append((alg, k.public_data))
        ca = keys[0]
        for kind in ('user', 'host'):
            try:
                if kind == 'user':
                    c = ca.generate_user_certificate(k, 'id-' + alg, principals=['alice', 'bob'],
                                                     force_command='true', permit_pty=False,
                                                     source_address=['10.0.0.0/8'])
                else:
                    c = ca.generate_host_certificate(k, 'host-' + alg, principals=['h.example.com'])
                certs.append((f'{alg}:{kind}:openssh', c.export_certificate('openssh')))
                certs.append((f'{alg}:{kind}:rfc4716', c.export_certificate('rfc4716')))
                certblobs.append((f'{alg}:{kind}', c.public_data))
            except Exception:
                pass
    # security-key public keys (public blobs only: no authenticator here)
    ed = [k for k in keys if k.get_algorithm() == 'ssh-ed25519']
    if ed:
        raw = packetmod.SSHPacket(ed[0].public_data)
        raw.get_string()
        edpub = raw.get_string()
        blobs.append(('sk-ssh-ed25519@openssh.com',
                      packetmod.String('sk-ssh-ed25519@openssh.com') + packetmod.String(edpub) +
                      packetmod.String('ssh:')))
    ec = [k for k in keys if k.get_algorithm() == 'ecdsa-sha2-nistp256']
    if ec:
        raw = packetmod.SSHPacket(ec[0].public_data)
        raw.get_string()
        curve = raw.get_string()
        point = raw.get_string()
        blobs.append(('sk-ecdsa-sha2-nistp256@openssh.com',
                      packetmod.String('sk-ecdsa-sha2-nistp256@openssh.com') + packetmod.String(curve) +
                      packetmod.String(point) + packetmod.String('ssh:')))
    for name, blob in list(blobs):
        if name.startswith('sk-'):
            pub.append((f'{name}:openssh', name.encode() + b' ' + base64.b64encode(blob) + b' sk\n'))
    # trust files
    publines = [d for (n, d) in pub if n.endswith(':openssh')]
    kh = b''
    for i, l in enumerate(publines):
        host = [b'host%d.example.com' % i, b'*.example.org,!bad.example.org', b'[h%d]:2222,10.0.0.%d' % (i, i),
                b'|1|' + base64.b64encode(b'saltsaltsaltsaltsalt') + b'|' + base64.b64encode(b'hashhashhashhashhash')][i % 4]
        marker = [b'', b'', b'@cert-authority ', b'@revoked '][i % 4]
        kh += marker + host + b' ' + l
    kh += b'# comment\n\n'
    ak = b''
    for i, l in enumerate(publines):
        opts = [b'', b'command="echo \\"hi\\"",no-pty ', b'from="10.0.0.0/8,*.example.com",environment="A=b" ',
                b'cert-authority,principals="alice,bob" ', b'permitopen="localhost:80",expiry-time="20300101" '][i % 5]
        ak += opts + l
    signers = b''
    for i, l in enumerate(publines[:6]):
        signers += [b'alice@example.com ', b'*@example.com,!eve@example.com namespaces="file,git" ',
                    b'bob cert-authority valid-after="20200101",valid-before="20400101" '][i % 3] + l
    # SSHSIG signatures
    sigs: List[Tuple[str, bytes, bytes]] = []
    for k in keys:
        try:
            s = asyncssh.create_sshsig(k, b'message', namespace='file')
            sigs.append((k.get_algorithm(), s, k.export_public_key('openssh')))
        except Exception:
            pass
    # agent replies
    agent_ids = packetmod.Byte(agentmod.SSH_AGENT_IDENTITIES_ANSWER) + packetmod.UInt32(len(blobs)) + \
        b''.join(packetmod.String(b) + packetmod.String(n.encode()) for n, b in blobs)
    agent_sign = packetmod.Byte(agentmod.SSH_AGENT_SIGN_RESPONSE) + \
        packetmod.String(packetmod.String('ssh-ed25519') + packetmod.String(b'\x11' * 64))
    agent_ext = packetmod.Byte(agentmod.SSH_AGENT_SUCCESS) + packetmod.String('query') + \
        packetmod.String('session-bind@openssh.com')
    _ART.update(keys=keys, priv=priv, privenc=privenc, pub=pub, blobs=blobs, certs=certs, certblobs=certblobs,
                known_hosts=kh, authorized_keys=ak, allowed_signers=signers, sigs=sigs,
                agent=[('identities', agent_ids), ('sign', agent_sign), ('extensions', agent_ext),
                       ('failure', packetmod.Byte(agentmod.SSH_AGENT_FAILURE)),
                       ('success', packetmod.Byte(agentmod.SSH_AGENT_SUCCESS))])
    return _ART


# ---------------------------------------------------------------------------
# mutation

REGEX_META = [b'(', b')', b'[', b']', b'*', b'+', b'?', b'\\', b'{', b'}', b'|', b'^', b'$', b'.', b'(?P<', b'\\1',
              b'[z-a]', b'(?i', b'\\x']


def mutate(rng: random.Random, data: bytes, others: Optional[List[bytes]] = None) -> bytes:
    b = bytearray(data)
    for _ in range(rng.choice([1, 1, 1, 2, 2, 3, 5])):
        n = len(b)
        r = rng.random()
        if n == 0:
            b += bytes([rng.randrange(256)])
        elif r < 0.18:
            b[rng.randrange(n)] ^= 1 << rng.randrange(8)
        elif r < 0.30:
            b[rng.randrange(n)] = rng.choice([0, 1, 0x7f, 0x80, 0x81, 0xff, 0x30, 0x84, 0x1f, 0x2d, 0x0a])
        elif r < 0.40:
            del b[rng.randrange(n):]
        elif r < 0.50:
            i = rng.randrange(n)
            del b[i:i + rng.choice([1, 1, 2, 4, 8, 16])]
        elif r < 0.58:
            i = rng.randrange(n)
            j = min(n, i + rng.choice([1, 2, 4, 8, 32]))
            b[i:i] = b[i:j]
        elif r < 0.66:
            i = rng.randrange(n + 1)
            b[i:i] = bytes(rng.randrange(256) for _ in range(rng.choice([1, 1, 2, 4, 16])))
        elif r < 0.80 and n >= 4:
            # overwrite a (likely) 32-bit field with an extreme
            i = rng.randrange(n - 3)
            b[i:i + 4] = struct.pack('>I', rng.choice(EXTREMES32))
        elif r < 0.86 and n >= 2:
            # DER-ish: long-form length with an extreme
            i = rng.randrange(n - 1)
            k = rng.choice([1, 2, 3, 4, 8, 126, 127])
            b[i + 1:i + 2] = bytes([0x80 | k]) + bytes([0xff] * min(k, 8))
        elif r < 0.92 and others:
            o = rng.choice(others)
            if o:
                i = rng.randrange(n + 1)
                j = rng.randrange(len(o))
                b[i:i + rng.choice([0, 4, 16])] = o[j:j + rng.choice([4, 16, 64])]
        else:
            i = rng.randrange(n)
            b[i:i + 1] = bytes([b[i]]) * rng.choice([2, 16, 300])
    return bytes(b)


def mutate_text(rng: random.Random, data: bytes, others: Optional[List[bytes]] = None) -> bytes:
    """Mutation aware of the armour of text formats: edit the base64 payload as binary, or edit the text."""
    r = rng.random()
    lines = data.split(b'\n')
    if r < 0.45:
        # re-encode a mutated payload
        body_idx = [i for i, l in enumerate(lines) if l and not l.startswith(b'-') and b':' not in l and b' ' not in l]
        if body_idx:
            try:
                raw = binascii.a2b_base64(b''.join(lines[i] for i in body_idx))
                enc = binascii.b2a_base64(mutate(rng, raw, others))[:-1]
                first = body_idx[0]
                new = [l for i, l in enumerate(lines) if i not in body_idx[1:]]
                new[first] = enc
                return b'\n'.join(new)
            except binascii.Error:
                pass
        parts = data.split(b' ')
        for i, p in enumerate(parts):
            if len(p) > 40:
                try:
                    raw = binascii.a2b_base64(p)
                    parts[i] = binascii.b2a_base64(mutate(rng, raw, others))[:-1]
                    return b' '.join(parts)
                except binascii.Error:
                    continue
    if r < 0.65 and lines:
        # header / footer / option text edits
        i = rng.randrange(len(lines))
        l = bytearray(lines[i])
        pos = rng.randrange(len(l) + 1)
        ins = rng.choice(REGEX_META + [b'\xff', b'\xc3', b'\x00', b'"', b'\\"', b',', b'=', b':', b' ', b'\t', b'\r',
                                       b'-----', b'BEGIN ', b'END ', b'\xe2\x80\xa8', b'A' * 300])
        l[pos:pos] = ins
        lines[i] = bytes(l)
        return b'\n'.join(lines)
    if r < 0.75 and len(lines) > 1:
        i = rng.randrange(len(lines))
        op = rng.random()
        if op < 0.4:
            del lines[i]
        elif op < 0.7:
            lines.insert(i, lines[rng.randrange(len(lines))])
        else:
            lines[i] = lines[i][::-1]
        return b'\n'.join(lines)
    return mutate(rng, data, others)


# ---------------------------------------------------------------------------
# grammar-aware DER generation

def der_len(n: int) -> bytes:
    if n < 128:
        return bytes([n])
    s = n.to_bytes((n.bit_length() + 7) // 8, 'big')
    return bytes([0x80 | len(s)]) + s


def der_tlv(ident: bytes, content: bytes) -> bytes:
    return ident + der_len(len(content)) + content


def nested_der(depth: int, kind: str = 'seq', leaf: bytes = b'\x05\x00') -> bytes:
    ident = {'seq': b'\x30', 'set': b'\x31', 'tagged': b'\xa0', 'app': b'\x60'}
    d = leaf
    kinds = list(ident) if kind == 'mix' else [kind]
    for i in range(depth):
        d = der_tlv(ident[kinds[i % len(kinds)]], d)
    return d


def gen_der(rng: random.Random, depth: int = 0) -> bytes:
    r = rng.random()
    if depth > 6 or r < 0.35:
        k = rng.random()
        if k < 0.12:
            return b'\x05\x00'
        if k < 0.22:
            return b'\x01\x01' + rng.choice([b'\x00', b'\xff', b'\x01'])
        if k < 0.40:
            v = rng.choice([0, 1, -1, 127, 128, -128, -129, 65537, 2 ** 64, -2 ** 64, rng.getrandbits(rng.choice([8, 64, 512]))])
            return asn1mod.der_encode(v)
        if k < 0.52:
            return der_tlv(b'\x04', bytes(rng.randrange(256) for _ in range(rng.choice([0, 1, 5, 40]))))
        if k < 0.62:
            s = rng.choice([b'', b'abc', b'\xc3\xa9', b'\xff', b'\xc3', b'\xed\xa0\x80', b'\xf4\x90\x80\x80', b'\xc0\x80'])
            return der_tlv(b'\x0c', s)
        if k < 0.72:
            return der_tlv(b'\x03', rng.choice([b'', b'\x00', b'\x00\xaa', b'\x07\x80', b'\x07\xff', b'\x08\x00', b'\x01',
                                                 b'\x03\x08', b'\xff\x00']))
        if k < 0.84:
            comps = rng.choice([b'', b'\x2a', b'\x2a\x86\x48', b'\x2a\x80\x01', b'\x2a\x86', b'\x88\x37', b'\x7f',
                                b'\x2b' + b'\xff' * rng.choice([1, 8, 64]) + b'\x7f'])
            return der_tlv(b'\x06', comps)
        if k < 0.90:
            return der_tlv(b'\x16', b'ia5 \xff')
        # raw / high tag numbers / non-universal
        ident = rng.choice([b'\x80', b'\x9f\x1f', b'\x5f\x81\x00', b'\xdf' + b'\xff' * rng.choice([1, 9, 40]) + b'\x01',
                            b'\x1f\x1f', b'\x1f', b'\x13', b'\x17', b'\x0a'])
        return der_tlv(ident, b'x' * rng.choice([0, 1, 3]))
    n = rng.choice([0, 1, 1, 2, 2, 3, 5])
    content = b''.join(gen_der(rng, depth + 1) for _ in range(n))
    ident = rng.choice([b'\x30', b'\x30', b'\x30', b'\x31', b'\xa0', b'\xa1', b'\x61', b'\xbf\x1f', b'\x10', b'\x11',
                        b'\x25', b'\x21', b'\x2c', b'\x23', b'\x26', b'\x36'])
    return der_tlv(ident, content)


def gen_der_hostile(rng: random.Random) -> bytes:
    r = rng.random()
    if r < 0.18:
        depth = rng.choice([2, 10, 60, 100, 200, 300, 400, 450, 480, 495, 500, 520, 600, 1000, 3000])
        return nested_der(depth, rng.choice(['seq', 'seq', 'set', 'tagged', 'app', 'mix']),
                          rng.choice([b'\x05\x00', b'', b'\x02\x01\x00', b'\x30']))
    if r < 0.26:
        # huge / inconsistent lengths
        k = rng.choice([1, 2, 3, 4, 5, 8, 16, 126, 127])
        return rng.choice([b'\x30', b'\x04', b'\x02', b'\x0c', b'\xa0']) + bytes([0x80 | k]) + \
            bytes(rng.choice([0xff, 0x00, 0x7f, 0x01]) for _ in range(rng.choice([k, max(0, k - 1), k + 2]))) + \
            b'\x00' * rng.choice([0, 1, 300])
    if r < 0.32:
        n = rng.choice([10, 200, 2000])
        return der_tlv(b'\x30', b'\x05\x00' * n)
    if r < 0.70:
        return mutate(rng, gen_der(rng))
    return gen_der(rng)


# ---------------------------------------------------------------------------
# targets

class Budget(BaseException):
    """raised by the per-case timer"""


def _txt(b: bytes, rng_bit: int) -> str:
    return b.decode('latin-1') if rng_bit else b.decode('utf-8', errors='replace')


def t_der_decode(data: bytes) -> Any:
    return asn1mod.der_decode(data)


def t_import_private_key(data: bytes) -> Any:
    return asyncssh.import_private_key(data)


def t_import_private_key_pw(data: bytes) -> Any:
    return asyncssh.import_private_key(data, passphrase='pw')


def t_import_public_key(data: bytes) -> Any:
    return asyncssh.import_public_key(data)


def t_import_certificate(data: bytes) -> Any:
    return asyncssh.import_certificate(data)


def t_decode_ssh_public_key(data: bytes) -> Any:
    return pkmod.decode_ssh_public_key(data)


def t_decode_ssh_certificate(data: bytes) -> Any:
    return pkmod.decode_ssh_certificate(data)


def t_import_known_hosts(data: bytes) -> Any:
    kh = asyncssh.import_known_hosts(_txt(data[1:], data[:1] == b'L'))
    # a lookup walks every entry (patterns, hashed hosts) and therefore the lazily parsed parts too
    return kh.match('host1.example.com', '10.0.0.1', 22)


def t_import_authorized_keys(data: bytes) -> Any:
    ak = asyncssh.import_authorized_keys(_txt(data[1:], data[:1] == b'L'))
    keys = artefacts()['keys']
    return ak.validate(keys[0].convert_to_public(), 'alice', '10.0.0.1', '10.0.0.1') if keys else None


def t_import_allowed_signers(data: bytes) -> Any:
    s = sshsigmod.import_allowed_signers(_txt(data[1:], data[:1] == b'L'))
    keys = artefacts()['keys']
    return s.validate(keys[0].convert_to_public(), 'alice@example.com', 'file') if keys else None


def t_validate_sshsig(data: bytes) -> Any:
    # layout: 1 byte selecting the signer's public key, then the signature
    sigs = artefacts()['sigs']
    _alg, _sig, pub = sigs[data[0] % len(sigs)] if data else sigs[0]
    allowed = b'alice@example.com ' + pub
    return asyncssh.validate_sshsig(b'message', data[1:], 'alice@example.com', allowed)


class _FakeAgentStream:
    def __init__(self, reply: bytes):
        self.buf = reply
        self.closed = False

    async def readexactly(self, n: int) -> bytes:
        if n > len(self.buf):
            part, self.buf = self.buf, b''
            raise asyncio.IncompleteReadError(part, n)
        out, self.buf = self.buf[:n], self.buf[n:]
        return out

    def write(self, data: bytes) -> None:
        pass

    def close(self) -> None:
        self.closed = True

    async def wait_closed(self) -> None:
        pass


class _FakeAgentPath:
    def __init__(self, reply: bytes):
        self.s = _FakeAgentStream(reply)

    async def open_agent_connection(self) -> Any:
        return self.s, self.s


def t_agent(data: bytes) -> Any:
    """layout: 1 byte selecting the request, then the raw reply stream the agent sends (length-framed)"""
    op = data[0] % 4 if data else 0
    reply = data[1:]

    async def go() -> Any:
        agent = agentmod.SSHAgentClient(_FakeAgentPath(reply))
        try:
            if op == 0:
                ks = await agent.get_keys()
                return [(k.algorithm, len(k.public_data)) for k in ks]
            if op == 1:
                return await agent.sign(b'blob', b'data')
            if op == 2:
                return await agent.query_extensions()
            return await agent.remove_all()
        finally:
            agent.close()
    loop = asyncio.new_event_loop()
    try:
        return loop.run_until_complete(go())
    finally:
        loop.close()


GETTERS = ['get_byte', 'get_boolean', 'get_uint16', 'get_uint32', 'get_uint64', 'get_string', 'get_mpint',
           'get_namelist', 'check_end']


class GetterMismatch(Exception):
    """an SSHPacket getter returned something else than the bytes in front of it say"""


def _ref_getter(name: str, body: bytes, idx: int) -> Tuple[Any, int]:
    """reference semantics of one getter on body[idx:] (returns value, new index; raises IndexError when the
    field does not fit)"""
    def need(k: int) -> bytes:
        if idx + k > len(body):
            raise IndexError
        return body[idx:idx + k]
    if name == 'get_byte':
        return need(1)[0], idx + 1
    if name == 'get_boolean':
        return need(1)[0] != 0, idx + 1
    if name in ('get_uint16', 'get_uint32', 'get_uint64'):
        k = {'get_uint16': 2, 'get_uint32': 4, 'get_uint64': 8}[name]
        return int.from_bytes(need(k), 'big'), idx + k
    if name in ('get_string', 'get_mpint', 'get_namelist'):
        n = int.from_bytes(need(4), 'big')
        if idx + 4 + n > len(body):
            raise IndexError
        sv = body[idx + 4:idx + 4 + n]
        if name == 'get_string':
            return sv, idx + 4 + n
        if name == 'get_mpint':
            return int.from_bytes(sv, 'big', signed=True), idx + 4 + n
        return (sv.split(b',') if sv else []), idx + 4 + n
    if name == 'check_end':
        if idx != len(body):
            raise IndexError
        return None, idx
    raise KeyError(name)


def t_ssh_packet(data: bytes) -> Any:
    """layout: first byte n, then n getter selectors, then the packet.  Every getter result is compared with a
    reference reading of the same bytes: a value where the reference says "does not fit" is an over-read."""
    if not data:
        return None
    n = data[0] % 12
    sel = data[1:1 + n]
    body = data[1 + n:]
    pkt = packetmod.SSHPacket(body)
    out = []
    idx = 0
    for s in sel:
        name = GETTERS[s % len(GETTERS)]
        try:
            want, nidx = _ref_getter(name, body, idx)
            fits = True
        except IndexError:
            want, nidx, fits = None, idx, False
        try:
            got = getattr(pkt, name)()
        except packetmod.PacketDecodeError:
            if fits:
                raise GetterMismatch(f'{name} raised PacketDecodeError although the field fits (offset {idx})')
            raise
        if not fits:
            raise GetterMismatch(f'{name} returned {got!r:.60} although only {len(body) - idx} bytes remained '
                                 f'(offset {idx})')
        if (list(got) if name == 'get_namelist' else got) != want:
            raise GetterMismatch(f'{name} returned {got!r:.60}, the bytes say {want!r:.60}')
        idx = nidx
        if len(pkt.get_remaining_payload()) != len(body) - idx:
            raise GetterMismatch(f'{name} left {len(pkt.get_remaining_payload())} unread bytes, expected {len(body) - idx}')
        out.append(got)
    return out


KeyImportError = asyncssh.KeyImportError
KeyEncryptionError = pbemod.KeyEncryptionError

# name -> (function, documented exception classes, exact?)   exact: subclasses of the documented class that are
# themselves different documented-elsewhere errors do not count (ASN1EncodeError is not ASN1DecodeError)
TARGETS: Dict[str, Tuple[Callable[[bytes], Any], Tuple[type, ...]]] = {
    'der_decode': (t_der_decode, (asn1mod.ASN1DecodeError,)),
    'import_private_key': (t_import_private_key, (KeyImportError,)),
    'import_private_key:passphrase': (t_import_private_key_pw, (KeyImportError, KeyEncryptionError)),
    'import_public_key': (t_import_public_key, (KeyImportError,)),
    'import_certificate': (t_import_certificate, (KeyImportError,)),
    'decode_ssh_public_key': (t_decode_ssh_public_key, (KeyImportError,)),
    'decode_ssh_certificate': (t_decode_ssh_certificate, (KeyImportError,)),
    'import_known_hosts': (t_import_known_hosts, (ValueError,)),
    'import_authorized_keys': (t_import_authorized_keys, (ValueError,)),
    'import_allowed_signers': (t_import_allowed_signers, (ValueError,)),
    'validate_sshsig': (t_validate_sshsig, (ValueError,)),
    'agent_client': (t_agent, (ValueError,)),
    'SSHPacket': (t_ssh_packet, (packetmod.PacketDecodeError,)),
}

# text parsers whose documented error is ValueError: these subclasses are *not* what the caller was promised
NOT_DOCUMENTED_SUBCLASSES = (UnicodeError,)


def gen_case(target: str, rng: random.Random) -> bytes:
    art = artefacts()
    others = [d for _n, d in art['blobs']] + [d for _n, d in art['certblobs']]

    def pick(pool: List[Tuple[str, bytes]]) -> bytes:
        return rng.choice(pool)[1]

    r = rng.random()
    if target == 'der_decode':
        if r < 0.25:
            ders = [d for n, d in art['priv'] + art['pub'] if n.endswith('-der')]
            return mutate(rng, rng.choice(ders), others)
        return gen_der_hostile(rng)
    if target in ('import_private_key', 'import_private_key:passphrase'):
        pool = art['priv'] + (art['privenc'] * 2 if target.endswith('passphrase') or r < 0.2 else [])
        d = pick(pool)
        if r < 0.10:
            return gen_der_hostile(rng)
        if r < 0.16:
            body = gen_der_hostile(rng)
            name = rng.choice([b'', b'RSA ', b'EC ', b'DSA ', b'ENCRYPTED ', b'OPENSSH ', b'X '])
            return b'-----BEGIN ' + name + b'PRIVATE KEY-----\n' + base64.encodebytes(body) + \
                b'-----END ' + name + b'PRIVATE KEY-----\n'
        if r < 0.20:
            meta = rng.choice(REGEX_META)
            name = rng.choice([b'RSA', b'EC', b''])
            return b'-----BEGIN ' + meta + name + b' PRIVATE KEY-----\n' + base64.encodebytes(d[:60]) + \
                b'-----END ' + meta + name + b' PRIVATE KEY-----\n'
        return mutate_text(rng, d, others) if d[:1] == b'-' else mutate(rng, d, others)
    if target == 'import_public_key':
        d = pick(art['pub'] + art['priv'][:6])
        if r < 0.08:
            return gen_der_hostile(rng)
        if r < 0.14:
            meta = rng.choice(REGEX_META)
            return b'-----BEGIN ' + meta + b' PUBLIC KEY-----\n' + base64.encodebytes(d[:60]) + \
                b'-----END ' + meta + b' PUBLIC KEY-----\n'
        return mutate_text(rng, d, others) if (d[:1] == b'-' or b' ' in d[:40]) else mutate(rng, d, others)
    if target == 'import_certificate':
        d = pick(art['certs'] + art['pub'][:4])
        if r < 0.08:
            return gen_der_hostile(rng)
        if r < 0.16:
            body = gen_der_hostile(rng)
            name = rng.choice([b'', b'TRUSTED ', b'X509 ', rng.choice(REGEX_META) + b' '])
            return b'-----BEGIN ' + name + b'CERTIFICATE-----\n' + base64.encodebytes(body) + \
                b'-----END ' + name + b'CERTIFICATE-----\n'
        if r < 0.22:
            return b'x509v3-ssh-rsa ' + base64.b64encode(gen_der_hostile(rng)) + b' c\n'
        return mutate_text(rng, d, others)
    if target == 'decode_ssh_public_key':
        return mutate(rng, pick(art['blobs']), others)
    if target == 'decode_ssh_certificate':
        return mutate(rng, pick(art['certblobs']), others)
    if target in ('import_known_hosts', 'import_authorized_keys', 'import_allowed_signers'):
        base = art[target[len('import_'):]]
        mode = b'L' if rng.random() < 0.5 else b'U'
        lines = base.split(b'\n')
        k = rng.randrange(len(lines))
        if r < 0.7:
            lines[k] = mutate_text(rng, lines[k] + b'\n', others).rstrip(b'\n')
        else:
            lines[k] = mutate(rng, lines[k], others)
        if rng.random() < 0.3:
            lines = lines[max(0, k - 1):k + 2]
        return mode + b'\n'.join(lines)
    if target == 'validate_sshsig':
        sigs = art['sigs']
        i = rng.randrange(len(sigs))
        _alg, sig, _pub = sigs[i]
        sel = bytes([i if rng.random() < 0.8 else rng.randrange(256)])
        if r < 0.5:
            return sel + mutate_text(rng, sig, others)
        try:
            raw = binascii.a2b_base64(b''.join(sig.split(b'\n')[1:-2]))
        except binascii.Error:
            raw = sig
        return sel + mutate(rng, raw, others)
    if target == 'agent_client':
        name, reply = rng.choice(art['agent'])
        op = {'identities': 0, 'sign': 1, 'extensions': 2}.get(name, rng.randrange(4))
        if rng.random() < 0.15:
            op = rng.randrange(4)
        m = mutate(rng, reply, others) if r < 0.8 else reply
        framed = struct.pack('>I', len(m) if rng.random() < 0.85 else rng.choice(EXTREMES32)) + m
        if r > 0.9:
            framed = mutate(rng, framed, others)
        return bytes([op]) + framed
    if target == 'SSHPacket':
        n = rng.randrange(12)
        sel = bytes(rng.randrange(len(GETTERS)) for _ in range(n))
        body = b''
        for s in sel:
            g = GETTERS[s]
            if g in ('get_byte', 'get_boolean'):
                body += bytes([rng.randrange(256)])
            elif g == 'get_uint16':
                body += struct.pack('>H', rng.randrange(65536))
            elif g == 'get_uint32':
                body += struct.pack('>I', rng.choice(EXTREMES32))
            elif g == 'get_uint64':
                body += struct.pack('>Q', rng.getrandbits(64))
            elif g != 'check_end':
                sv = bytes(rng.randrange(256) for _ in range(rng.choice([0, 1, 3, 20])))
                body += struct.pack('>I', len(sv)) + sv
        return bytes([n]) + sel + (mutate(rng, body) if r < 0.7 else body)
    raise KeyError(target)


def classify(target: str, exc: BaseException) -> Tuple[str, Optional[str]]:
    """(histogram key, failure signature or None)"""
    _fn, documented = TARGETS[target]
    import re as _re
    name = 're.error' if isinstance(exc, _re.error) else type(exc).__name__
    fn_name = target.split(':')[0]
    if isinstance(exc, GetterMismatch):
        return 'getter-mismatch', 'c10:getter-overread-or-mismatch:SSHPacket'

    if isinstance(exc, Budget):
        return 'budget', f'spins:{fn_name}'
    if isinstance(exc, documented) and not isinstance(exc, NOT_DOCUMENTED_SUBCLASSES):
        if documented == (asn1mod.ASN1DecodeError,) or KeyImportError in documented:
            # exact classes only: ASN1EncodeError / plain ValueError are not the documented import errors
            if type(exc) in documented:
                return 'documented:' + name, None
        else:
            return 'documented:' + name, None
    return 'undocumented:' + name, f'undocumented-exception:{fn_name}:{name}'


def run_case(target: str, data: bytes) -> Tuple[str, Optional[str], str]:
    """Returns (histogram key, failure signature | None, detail)."""
    fn, _doc = TARGETS[target]
    try:
        fn(data)
        return 'value', None, ''
    except BaseException as e:          # noqa: B902 - classification is the point
        if isinstance(e, (KeyboardInterrupt, SystemExit)):
            raise
        key, sig = classify(target, e)
        detail = ''
        if sig:
            import traceback
            tb = traceback.extract_tb(e.__traceback__)
            where = [f'{fr.filename.split("/")[-1]}:{fr.name}' for fr in tb if '/asyncssh/' in fr.filename][-2:]
            detail = f'{type(e).__name__}: {str(e)[:120]} @ {" > ".join(where)}'
        return key, sig, detail
