"""C10 legs (i) and (ii): hostile packets / byte streams against a real server and a real client.

Cleartext phases use a *raw peer*: the target is a real SSHServerConnection / SSHClientConnection whose peer
is the harness itself (version line, optionally a genuine recorded KEXINIT, then the hostile bytes).
Encrypted phases use a real peer as the hostile sender (`force_send`), which needs no knowledge of the keys.

Per injected input the harness measures
  * event-loop rounds until quiescence (bounded by ROUND_BUDGET),
  * bytes the target wrote in response (bounded by OUT_A + OUT_B * len(input); the bound is enforced in the
    in-memory transport, so a spinning sender is interrupted instead of filling memory),
  * exceptions that reached the loop's exception handler,
  * whether the target carried on or closed, and what its owner was told.
A wall-clock alarm interrupts callbacks that never return.
"""

from __future__ import annotations

import asyncio
import os
import random
import signal
import struct
import time
import traceback
from typing import Any, Callable, Dict, List, Optional, Tuple

import asyncssh
from asyncssh import constants as K
from asyncssh.packet import Boolean, Byte, MPInt, NameList, String, UInt32, UInt64

import pair

U32 = 0xffffffff
EXTREMES = [0, 1, U32]
MORE_EXTREMES = [0, 1, 2, 0x7fff, 0x8000, 0xffff, 0x7fffffff, 0x80000000, U32 - 1, U32]

ROUND_BUDGET = 400      # event-loop rounds allowed per input: ROUND_BUDGET + ROUND_B * len(input)
ROUND_B = 6             # a 1-byte window makes every byte cost a round trip (DATA, WINDOW_ADJUST)
OUT_A = 16384           # constant part: a KEXINIT + kex reply + disconnect fit comfortably
OUT_B = 24              # per input byte: a 16-byte packet may be answered by one ~100-byte packet + IGNORE
ALARM_S = 4.0

PHASES_CLEAR = ['pre-kex', 'in-kex']
PHASES_ENC = ['pre-auth', 'post-auth']
PHASES = PHASES_CLEAR + PHASES_ENC
ROLES = ['server', 'client']           # which endpoint is the target


class Spin(BaseException):
    """raised inside the target to break a non-terminating callback (output budget or wall clock)"""


def _alarm(_s: int, _f: Any) -> None:
    raise Spin('wall-clock budget exceeded inside one callback')


class Watch:
    """SIGALRM guard around one case (main thread only)."""

    def __init__(self, seconds: float = ALARM_S):
        self.seconds = seconds

    def __enter__(self) -> 'Watch':
        self.old = signal.signal(signal.SIGALRM, _alarm)
        # repeating: an exception raised inside a destructor or a weakref callback is swallowed by the
        # interpreter, so one shot is not enough to get out of a spinning loop
        signal.setitimer(signal.ITIMER_REAL, self.seconds, 0.2)
        return self

    def rearm(self) -> None:
        signal.setitimer(signal.ITIMER_REAL, self.seconds, 0.2)

    def __exit__(self, *a: Any) -> None:
        signal.setitimer(signal.ITIMER_REAL, 0)
        signal.signal(signal.SIGALRM, self.old)


# ---------------------------------------------------------------------------
# owners that record what they are told

class RecServer(asyncssh.SSHServer):
    def __init__(self, box: Dict[str, Any], hold_auth: bool = False):
        self.box = box
        self.hold_auth = hold_auth

    def connection_lost(self, exc: Optional[Exception]) -> None:
        self.box.setdefault('server_lost', []).append(exc)

    def begin_auth(self, username: str) -> Any:
        if not self.hold_auth:
            return False
        return True

    def session_requested(self) -> Any:
        f = self.box.get('session_factory')
        return f() if f else False

    def password_auth_supported(self) -> bool:
        return True

    def validate_password(self, username: str, password: str) -> bool:
        return False


class RecClient(asyncssh.SSHClient):
    def __init__(self, box: Dict[str, Any], hold_auth: bool = False):
        self.box = box
        self.hold_auth = hold_auth

    def connection_lost(self, exc: Optional[Exception]) -> None:
        self.box.setdefault('client_lost', []).append(exc)

    def password_auth_requested(self) -> Any:
        if not self.hold_auth:
            return None
        fut = asyncio.get_event_loop().create_future()     # never completes: the client stays in pre-auth
        self.box['held'] = fut
        return fut


class Sink(asyncio.Protocol):
    """the harness end of a raw-peer link"""

    def __init__(self) -> None:
        self.data = bytearray()
        self.lost = False

    def data_received(self, data: bytes) -> None:
        self.data += data

    def connection_lost(self, exc: Optional[Exception]) -> None:
        self.lost = True


class RawTunnel:
    """tunnel for asyncssh.connect(): only the client is real"""

    def __init__(self, hub: pair.Hub):
        self.hub = hub
        self.cconn: Any = None
        self.sink = Sink()

    async def create_connection(self, session_factory: Callable[[], Any], host: str, port: int) -> Tuple[Any, Any]:
        cconn = session_factory()
        self.cconn = cconn
        ct = pair.MemTransport(self.hub, 'client')
        st = pair.MemTransport(self.hub, 'server')
        ct.proto = cconn
        st.proto = self.sink
        self.hub.attach(ct, st)
        cconn.connection_made(ct)
        return ct, cconn

    def close(self) -> None:
        pass

    async def wait_closed(self) -> None:
        pass


# ---------------------------------------------------------------------------
# framing

def frame(payload: bytes, bs: int = 8, rng: Optional[random.Random] = None) -> bytes:
    """cleartext RFC 4253 frame"""
    padlen = -(5 + len(payload)) % bs
    if padlen < 4:
        padlen += bs
    body = bytes([padlen]) + payload + (b'\0' * padlen)
    return struct.pack('>I', len(body)) + body


def raw_frame(pktlen: int, body: bytes) -> bytes:
    return struct.pack('>I', pktlen & U32) + body


# ---------------------------------------------------------------------------
# structured packet generator: every message type 1..100 with schema-aware mutation

def _s(rng: random.Random, kind: str = 'name') -> bytes:
    r = rng.random()
    if r < 0.5:
        return {'name': b'ssh-connection', 'text': b'hello', 'lang': b'', 'user': b'user'}.get(kind, b'x')
    if r < 0.6:
        return b''
    if r < 0.7:
        return b'\xff\xfe\xc3'
    if r < 0.8:
        return b'A' * rng.choice([255, 256, 1023, 1024, 1025, 8192, 40000])
    if r < 0.9:
        return bytes(rng.randrange(256) for _ in range(rng.choice([1, 4, 32])))
    return rng.choice([b'\x00', b'a,b,,c', b',', b'*', b'../..', b'\xe2\x80\xa8', b'%n%s', b'\r\n'])


def _u(rng: random.Random, usual: int = 0) -> int:
    r = rng.random()
    if r < 0.35:
        return usual
    if r < 0.8:
        return rng.choice(EXTREMES)
    return rng.choice(MORE_EXTREMES)


CHAN_TYPES = [b'session', b'direct-tcpip', b'forwarded-tcpip', b'x11', b'auth-agent@openssh.com',
              b'direct-streamlocal@openssh.com', b'forwarded-streamlocal@openssh.com', b'tun@openssh.com',
              b'unknown', b'', b'\xff']
CHAN_REQS = [b'pty-req', b'env', b'exec', b'shell', b'subsystem', b'window-change', b'signal', b'exit-status',
             b'exit-signal', b'xon-xoff', b'break', b'x11-req', b'auth-agent-req@openssh.com', b'eow@openssh.com',
             b'unknown', b'', b'\xff']
GLOBAL_REQS = [b'tcpip-forward', b'cancel-tcpip-forward', b'streamlocal-forward@openssh.com',
               b'cancel-streamlocal-forward@openssh.com', b'keepalive@openssh.com', b'hostkeys-00@openssh.com',
               b'hostkeys-prove-00@openssh.com', b'no-more-sessions@openssh.com', b'unknown', b'', b'\xff']
AUTH_METHODS = [b'none', b'password', b'publickey', b'keyboard-interactive', b'hostbased', b'gssapi-with-mic',
                b'gssapi-keyex', b'unknown', b'']


def gen_fields(rng: random.Random, t: int, chans: List[int]) -> List[Tuple[str, Any]]:
    """valid-ish field list for message type t (fields: ('u32',n) ('u64',n) ('str',b) ('bool',b) ('byte',n)
    ('mpint',n) ('names',[..]) ('raw',b))"""
    chan = rng.choice(chans) if chans and rng.random() < 0.8 else rng.choice([0, 1, 7, U32])
    s, u = (lambda k='name': _s(rng, k)), (lambda usual=0: _u(rng, usual))
    if t == 1:
        return [('u32', u(11)), ('str', s('text')), ('str', s('lang'))]
    if t == 2:
        return [('str', s('text'))]
    if t == 3:
        return [('u32', u())]
    if t == 4:
        return [('bool', rng.random() < 0.5), ('str', s('text')), ('str', s('lang'))]
    if t in (5, 6):
        return [('str', rng.choice([b'ssh-userauth', b'ssh-connection', s()]))]
    if t == 7:
        n = rng.choice([0, 1, 2, 3])
        f: List[Tuple[str, Any]] = [('u32', n if rng.random() < 0.7 else u())]
        for _ in range(n):
            f += [('str', rng.choice([b'server-sig-algs', b'global-requests-ok', b'delay-compression', s()])),
                  ('str', rng.choice([b'rsa-sha2-256,ssh-ed25519', String('zlib') + String('zlib'), s()]))]
        return f
    if t == 8:
        return []
    if t == 20:
        lists = [('names', rng.choice([[b'curve25519-sha256', b'ext-info-c'], [b'diffie-hellman-group14-sha256'],
                                       [], [b'\xff'], [b'a'] * 500, [b'kex-strict-c-v00@openssh.com'],
                                       [b'gss-group14-sha256-toWM5Slw5Ew8Mqkay+al2g==']])),
                 ('names', rng.choice([[b'ssh-ed25519'], [b'rsa-sha2-256', b'ssh-rsa'], [], [b'null']])),
                 ('names', rng.choice([[b'aes128-ctr'], [b'chacha20-poly1305@openssh.com'], [], [b'none']])),
                 ('names', rng.choice([[b'aes128-ctr'], [b'aes256-gcm@openssh.com'], []])),
                 ('names', rng.choice([[b'hmac-sha2-256'], [], [b'none']])),
                 ('names', rng.choice([[b'hmac-sha2-256'], []])),
                 ('names', rng.choice([[b'none'], [b'zlib'], [b'zlib@openssh.com'], []])),
                 ('names', rng.choice([[b'none'], [b'zlib'], []])),
                 ('names', []), ('names', [])]
        return [('raw', bytes(rng.randrange(256) for _ in range(16)))] + lists + \
            [('bool', rng.random() < 0.2), ('u32', u())]
    if t == 21:
        return []
    if 30 <= t <= 49:
        r = rng.random()
        if r < 0.3:
            return [('str', bytes(rng.randrange(256) for _ in range(rng.choice([0, 1, 32, 33, 65, 133]))))]
        if r < 0.5:
            return [('str', s()), ('str', bytes(32)), ('str', s())]
        if r < 0.7:
            return [('mpint', rng.choice([0, 1, -1, 2 ** 2048 - 1, 2 ** 8192, rng.getrandbits(2048)]))]
        if r < 0.85:
            return [('u32', u(2048)), ('u32', u(2048)), ('u32', u(8192))]
        return [('mpint', rng.getrandbits(2048)), ('mpint', rng.choice([0, 1, 2, 5]))]
    if t == 50:
        m = rng.choice(AUTH_METHODS)
        f = [('str', rng.choice([b'user', b'user', s('user'), b'u' * 1023, b'u' * 1024, b'\xc3\x28', b'\xe2\x80\xa8'])),
             ('str', rng.choice([b'ssh-connection', b'ssh-connection', s()])), ('str', m)]
        if m == b'password':
            f += [('bool', rng.random() < 0.2), ('str', s('text'))]
            if rng.random() < 0.2:
                f += [('str', s('text'))]
        elif m == b'publickey':
            f += [('bool', rng.random() < 0.5), ('str', rng.choice([b'ssh-ed25519', b'ssh-rsa', b'rsa-sha2-256', s()])),
                  ('str', rng.choice([String('ssh-ed25519') + String(bytes(32)), s(), String('ssh-rsa') + MPInt(4) + MPInt(0)]))]
            if rng.random() < 0.5:
                f += [('str', rng.choice([String('ssh-ed25519') + String(bytes(64)), s()]))]
        elif m == b'keyboard-interactive':
            f += [('str', s('lang')), ('str', s())]
        elif m == b'hostbased':
            f += [('str', b'ssh-ed25519'), ('str', String('ssh-ed25519') + String(bytes(32))), ('str', b'host.'),
                  ('str', b'user'), ('str', s())]
        elif m.startswith(b'gssapi'):
            f += [('u32', u(1)), ('str', rng.choice([b'\x06\x09\x2a\x86\x48\x86\xf7\x12\x01\x02\x02', s(), b'\x06\x82']))]
        return f
    if t == 51:
        return [('names', rng.choice([[b'password', b'publickey'], [], [b'\xff'], [b'x'] * 300])), ('bool', rng.random() < 0.3)]
    if t == 52:
        return []
    if t == 53:
        return [('str', s('text')), ('str', s('lang'))]
    if 60 <= t <= 79:
        r = rng.random()
        if r < 0.3:
            return [('str', s()), ('str', s())]
        if r < 0.6:
            n = rng.choice([0, 1, 2])
            f = [('str', s('text')), ('str', s('text')), ('str', s('lang')), ('u32', n if rng.random() < 0.6 else u())]
            for _ in range(n):
                f += [('str', s('text')), ('bool', rng.random() < 0.5)]
            return f
        if r < 0.8:
            n = rng.choice([0, 1, 2])
            return [('u32', n if rng.random() < 0.6 else u())] + [('str', s('text')) for _ in range(n)]
        return [('str', s())]
    if t == 80:
        name = rng.choice(GLOBAL_REQS)
        f = [('str', name), ('bool', rng.random() < 0.7)]
        if b'tcpip' in name:
            f += [('str', rng.choice([b'localhost', b'', b'0.0.0.0', s()])), ('u32', u(0))]
        elif b'streamlocal' in name:
            f += [('str', rng.choice([b'/nonexistent/c10.sock', s()]))]
        elif b'hostkeys' in name:
            # host key rotation: the key the client trusts (possibly several times), well-formed keys it has never
            # seen, and junk, in any mixture
            trusted = pair.host_key().public_data
            f += [('str', rng.choice([trusted, trusted, String('ssh-ed25519') + String(bytes(32)),
                                      String('ssh-ed25519') + String(bytes([rng.randrange(256)]) * 32), s()]))
                  for _ in range(rng.choice([0, 1, 2, 3]))]
        return f
    if t in (81, 82):
        return [] if rng.random() < 0.6 else [('u32', u())]
    if t == 90:
        ct = rng.choice(CHAN_TYPES)
        f = [('str', ct), ('u32', u(0)), ('u32', u(2097152)), ('u32', u(32768))]
        if ct in (b'direct-tcpip', b'forwarded-tcpip'):
            f += [('str', rng.choice([b'localhost', s()])), ('u32', u(80)), ('str', rng.choice([b'127.0.0.1', s()])), ('u32', u(1234))]
        elif ct == b'x11':
            f += [('str', b'127.0.0.1'), ('u32', u(6000))]
        elif b'streamlocal' in ct:
            f += [('str', rng.choice([b'/nonexistent/c10.sock', s()])), ('str', b'')]
            if ct.startswith(b'direct'):
                f += [('u32', 0)]
        elif ct == b'tun@openssh.com':
            f += [('u32', u(1)), ('u32', u(0))]
        return f
    if t == 91:
        return [('u32', chan), ('u32', u(0)), ('u32', u(2097152)), ('u32', u(32768))]
    if t == 92:
        return [('u32', chan), ('u32', u(1)), ('str', s('text')), ('str', s('lang'))]
    if t == 93:
        return [('u32', chan), ('u32', u(1024))]
    if t == 94:
        return [('u32', chan), ('str', rng.choice([b'data', b'', b'x' * 32768, b'x' * 32769, b'\xff' * 100, s()]))]
    if t == 95:
        return [('u32', chan), ('u32', u(1)), ('str', rng.choice([b'err', b'', s()]))]
    if t in (96, 97, 99, 100):
        return [('u32', chan)]
    if t == 98:
        name = rng.choice(CHAN_REQS)
        f = [('u32', chan), ('str', name), ('bool', rng.random() < 0.6)]
        if name == b'pty-req':
            f += [('str', rng.choice([b'xterm', s()])), ('u32', u(80)), ('u32', u(24)), ('u32', u(0)), ('u32', u(0)),
                  ('str', rng.choice([b'\x00', b'', b'\x01\x00\x00\x00\x03\x00', b'\x80\x00\x00\x96\x00\x00', b'\x01\x00',
                                      b'\xa0\xff\xff\xff\xff', s()]))]
        elif name == b'env':
            f += [('str', s()), ('str', s('text'))]
        elif name in (b'exec', b'subsystem'):
            f += [('str', rng.choice([b'true', b'sftp', s('text')]))]
        elif name == b'window-change':
            f += [('u32', u(80)), ('u32', u(24)), ('u32', u(0)), ('u32', u(0))]
        elif name == b'signal':
            f += [('str', rng.choice([b'INT', b'KILL', s()]))]
        elif name == b'exit-status':
            f += [('u32', u(0))]
        elif name == b'exit-signal':
            f += [('str', b'TERM'), ('bool', False), ('str', s('text')), ('str', s('lang'))]
        elif name == b'xon-xoff':
            f += [('bool', True)]
        elif name == b'break':
            f += [('u32', u(500))]
        elif name == b'x11-req':
            f += [('bool', False), ('str', b'MIT-MAGIC-COOKIE-1'), ('str', rng.choice([b'00' * 16, s()])), ('u32', u(0))]
        return f
    # unassigned message numbers: arbitrary content
    return [('raw', bytes(rng.randrange(256) for _ in range(rng.choice([0, 1, 4, 9, 64]))))]


def enc_field(kind: str, v: Any) -> bytes:
    if kind == 'u32':
        return struct.pack('>I', v & U32)
    if kind == 'u64':
        return struct.pack('>Q', v & (2 ** 64 - 1))
    if kind == 'str':
        return struct.pack('>I', len(v)) + v
    if kind == 'bool':
        return b'\x01' if v else b'\x00'
    if kind == 'byte':
        return bytes([v & 0xff])
    if kind == 'mpint':
        return MPInt(v)
    if kind == 'names':
        j = b','.join(v)
        return struct.pack('>I', len(j)) + j
    return bytes(v)


def gen_payload(rng: random.Random, t: int, chans: List[int]) -> Tuple[bytes, str]:
    """(payload after the type byte, description of the mutation)"""
    fields = gen_fields(rng, t, chans)
    r = rng.random()
    if r < 0.35 or not fields:
        return b''.join(enc_field(k, v) for k, v in fields), 'structured'
    if r < 0.55:
        # extreme value in one numeric field, or extreme *length prefix* on one string field
        i = rng.randrange(len(fields))
        k, v = fields[i]
        parts = [enc_field(a, b) for a, b in fields]
        if k in ('u32', 'u64'):
            parts[i] = enc_field(k, rng.choice(EXTREMES))
            return b''.join(parts), f'extreme:{k}#{i}'
        if k in ('str', 'names'):
            body = parts[i][4:]
            parts[i] = struct.pack('>I', rng.choice([0, 1, len(body) + 1, U32, 0x7fffffff, max(0, len(body) - 1)])) + body
            return b''.join(parts), f'length-lie:{k}#{i}'
        return b''.join(parts), 'structured'
    if r < 0.70:
        whole = b''.join(enc_field(k, v) for k, v in fields)
        cut = rng.randrange(len(whole) + 1)
        return whole[:cut], 'truncated'
    if r < 0.80:
        whole = b''.join(enc_field(k, v) for k, v in fields)
        return whole + bytes(rng.randrange(256) for _ in range(rng.choice([1, 4, 100]))), 'trailing'
    if r < 0.90:
        i = rng.randrange(len(fields))
        del fields[i]
        return b''.join(enc_field(k, v) for k, v in fields), f'dropped-field#{i}'
    whole = bytearray(b''.join(enc_field(k, v) for k, v in fields))
    for _ in range(rng.choice([1, 2, 4])):
        if whole:
            whole[rng.randrange(len(whole))] = rng.randrange(256)
    return bytes(whole), 'byte-noise'


# ---------------------------------------------------------------------------
# a genuine KEXINIT of each role, recorded once per process

_RECORDED: Dict[str, bytes] = {}


async def recorded_kexinit(role: str) -> bytes:
    """frame of the KEXINIT a real `role` endpoint sends (used by the raw peer to get a target into key exchange)"""
    if not _RECORDED:
        c, s, hub = await pair.make_pair()
        _RECORDED['client'] = hub.writes[pair.C2S][1]
        _RECORDED['server'] = hub.writes[pair.S2C][1]
        c.abort()
        s.abort()
        await pair.settle(5)
    return _RECORDED[role]


# ---------------------------------------------------------------------------
# target set-up

class Case:
    """one target endpoint in a chosen phase, plus the means to send it bytes"""

    def __init__(self) -> None:
        self.box: Dict[str, Any] = {}
        self.hub: Optional[pair.Hub] = None
        self.role = ''
        self.phase = ''
        self.target: Any = None
        self.hostile: Any = None           # real peer connection (encrypted phases) or None
        self.connect_task: Optional[asyncio.Task] = None
        self.chans_target: List[int] = []  # channel numbers valid at the target
        self.budget_base = 0
        self.budget = 0
        self.spin = False
        self.extra: Dict[str, Any] = {}

    # direction of bytes travelling *to* the target / written *by* the target
    @property
    def to_target(self) -> str:
        return pair.C2S if self.role == 'server' else pair.S2C

    @property
    def from_target(self) -> str:
        return pair.S2C if self.role == 'server' else pair.C2S

    def target_transport(self) -> pair.MemTransport:
        assert self.hub is not None
        return self.hub.trans[self.role]

    def closed(self) -> bool:
        t = self.target_transport()
        return t.closing or t.lost

    def lost_reports(self) -> List[Any]:
        return self.box.get(self.role + '_lost', [])

    def arm_output_budget(self, input_len: int) -> None:
        assert self.hub is not None
        self.budget_base = len(self.hub.log[self.from_target])
        self.budget = OUT_A + OUT_B * input_len
        self.spin = False
        hub = self.hub
        case = self
        direction = self.from_target

        def flt(d: str, data: bytes) -> bytes:
            if d == direction and len(hub.log[d]) - case.budget_base > case.budget:
                case.spin = True
                raise Spin(f'output budget exceeded: {len(hub.log[d]) - case.budget_base} bytes written for '
                           f'{input_len} bytes of input')
            return data
        hub.filter = flt

    def out_bytes(self) -> int:
        assert self.hub is not None
        return len(self.hub.log[self.from_target]) - self.budget_base


async def session_handler(process: Any) -> None:
    """server application of the post-auth phase: writes a little, then reads until EOF"""
    try:
        process.stdout.write(b'ready\n')
        while True:
            data = await process.stdin.read(4096)
            if not data:
                break
    except BaseException:           # noqa: B902 - whatever the connection under test does to its application
        pass
    try:
        process.exit(0)
    except BaseException:           # noqa: B902
        pass


async def wait_until(pred: Callable[[], bool], seconds: float = 8.0) -> bool:
    """spin the loop (with tiny real sleeps, so executor-backed steps of connect() can finish) until pred()"""
    end = time.time() + seconds
    i = 0
    while not pred():
        i += 1
        await asyncio.sleep(0 if i % 20 else 0.001)
        if time.time() > end:
            return False
    return True


async def setup_clear(role: str, phase: str) -> Case:
    """raw peer: the target has received our version line (and, for in-kex, a genuine KEXINIT)"""
    case = Case()
    case.role, case.phase = role, phase
    loop = asyncio.get_event_loop()
    hub = pair.Hub(loop)
    case.hub = hub
    if role == 'server':
        sconn = await pair.make_server_conn(loop, lambda: RecServer(case.box))
        st = pair.MemTransport(hub, 'server')
        ct = pair.MemTransport(hub, 'client')
        st.proto = sconn
        ct.proto = Sink()
        hub.attach(ct, st)
        sconn.connection_made(st)
        case.target = sconn
    else:
        tunnel = RawTunnel(hub)

        async def conn() -> None:
            try:
                c = await asyncssh.connect('memhost', tunnel=tunnel, known_hosts=None, username='user',
                                           client_keys=None, agent_path=None, config=None, x509_trusted_certs=None,
                                           client_factory=lambda: RecClient(case.box))
                case.box['connected'] = c
            except BaseException as e:       # noqa: B902
                case.box['connect_exc'] = e
        case.connect_task = asyncio.ensure_future(conn())
        await wait_until(lambda: tunnel.cconn is not None and bool(hub.trans))
        if tunnel.cconn is None:
            raise RuntimeError('setup failed: client connection was not created')
        case.target = tunnel.cconn
    await pair.settle(3)
    if phase == 'in-kex':
        peer_role = 'client' if role == 'server' else 'server'
        kexinit = await recorded_kexinit(peer_role)
        hub.inject(case.to_target, b'SSH-2.0-C10peer\r\n' + kexinit)
        await pair.settle(8)
    elif phase == 'pre-kex':
        hub.inject(case.to_target, b'SSH-2.0-C10peer\r\n')
        await pair.settle(4)
    return case


async def setup_enc(role: str, phase: str, server_opts: Optional[Dict[str, Any]] = None,
                    client_opts: Optional[Dict[str, Any]] = None, raw_session: Any = None) -> Case:
    case = Case()
    if raw_session is not None:
        case.box['session_factory'] = raw_session
    case.role, case.phase = role, phase
    hold = (phase == 'pre-auth')
    sopts: Dict[str, Any] = dict(process_factory=session_handler, encoding=None)
    if raw_session is not None:
        sopts = {}
    sopts.update(server_opts or {})
    copts: Dict[str, Any] = dict(client_factory=lambda: RecClient(case.box, hold))
    copts.update(client_opts or {})
    coro, sconn, hub = await pair.make_pair(server_factory=lambda: RecServer(case.box, hold), server_opts=sopts,
                                            client_opts=copts, connect=False)
    case.hub = hub

    async def conn() -> None:
        try:
            case.box['connected'] = await coro
        except BaseException as e:       # noqa: B902
            case.box['connect_exc'] = e
    case.connect_task = asyncio.ensure_future(conn())
    await wait_until(lambda: ('held' in case.box) if hold else ('connected' in case.box) or 'connect_exc' in case.box)
    if 'connect_exc' in case.box:
        raise RuntimeError(f'setup failed: {case.box["connect_exc"]!r}')
    if not (('held' in case.box) if hold else ('connected' in case.box)):
        raise RuntimeError('setup did not reach the phase')
    tunnel_client = hub.trans['client'].proto
    case.target = sconn if role == 'server' else tunnel_client
    case.hostile = tunnel_client if role == 'server' else sconn
    if phase == 'post-auth':
        c = case.box['connected']
        proc = await asyncio.wait_for(c.create_process('cmd', encoding=None), 10)
        case.extra['proc'] = proc
        await pair.settle(5)
        case.chans_target = [0]
    return case


def force_send(conn: Any, pkttype: int, payload: bytes) -> None:
    """Make a real endpoint emit an arbitrary packet whatever its own protocol state (the sender plays the hostile
    peer; its deferral rules for not-yet-allowed message types are switched off around the call)."""
    saved = (conn._auth_complete, conn._kex_complete)
    conn._auth_complete = True
    conn._kex_complete = True
    try:
        conn.send_packet(pkttype, payload)
    finally:
        conn._auth_complete, conn._kex_complete = saved


def round_budget(input_len: int) -> int:
    return ROUND_BUDGET + ROUND_B * max(0, input_len)


async def quiesce(case: Case, budget: int = ROUND_BUDGET) -> int:
    """run the loop until nothing moves for a few rounds; returns rounds used (budget+1 = did not settle)"""
    hub = case.hub
    assert hub is not None
    idle = 0
    last = (-1, -1, -1)
    for i in range(budget):
        await asyncio.sleep(0)
        cur = (hub.steps, len(hub.log[pair.C2S]), len(hub.log[pair.S2C]))
        busy = any(hub.queues[d] and not hub.receiver(d).lost and not hub.receiver(d).paused for d in (pair.C2S, pair.S2C))
        if cur == last and not busy:
            idle += 1
            if idle >= 4:
                return i + 1
        else:
            idle = 0
        last = cur
    return budget + 1


def documented_close(exc: Optional[BaseException]) -> bool:
    """what an owner may be told: nothing (clean close), an asyncssh error (DisconnectError family, incl.
    ConnectionLost) or an OSError from the transport"""
    return exc is None or isinstance(exc, (asyncssh.Error, OSError))


def exc_where(exc: Optional[BaseException]) -> str:
    """innermost asyncssh frame outside the generic field getters of packet.py"""
    if exc is None or exc.__traceback__ is None:
        return '?'
    frames = [f for f in traceback.extract_tb(exc.__traceback__) if '/asyncssh/' in f.filename]
    pref = [f for f in frames if os.path.basename(f.filename) != 'packet.py' and
            not f.name.startswith(('_parse_', 'get_', 'decode'))] or frames
    return f'{os.path.basename(pref[-1].filename)}:{pref[-1].name}' if pref else '?'


def loop_error_sig(err: Dict[str, Any]) -> Tuple[str, str]:
    exc = err.get('exception')
    name = type(exc).__name__ if exc is not None else 'message'
    where = '?'
    if exc is not None and exc.__traceback__ is not None:
        frames = [f for f in traceback.extract_tb(exc.__traceback__) if '/asyncssh/' in f.filename]
        if frames:
            where = f'{os.path.basename(frames[-1].filename)}:{frames[-1].name}'
    return name, where


def teardown(case: Case) -> None:
    for obj in (case.target, case.hostile, case.box.get('connected')):
        try:
            if obj is not None:
                obj.abort()
        except BaseException:       # noqa: B902
            pass
    if case.hub is not None:
        case.hub.filter = None
        for t in case.hub.trans.values():
            t.closing = True
    if case.connect_task is not None and not case.connect_task.done():
        case.connect_task.cancel()
    fut = case.box.get('held')
    if fut is not None and not fut.done():
        fut.cancel()


async def measure(case: Case, send: Callable[[], int], label: str) -> Dict[str, Any]:
    """Send one hostile input (send() returns its length), then observe."""
    errs_before = len(pair.LOOP_ERRORS)
    out: Dict[str, Any] = {'label': label, 'phase': case.phase, 'role': case.role}
    t0 = time.time()
    try:
        n = send()
    except Spin as e:
        n = -1
        out['spin_in_send'] = str(e)
    except Exception as e:           # the *sender* could not build/emit it (not a finding about the target)
        out['not_injected'] = f'{type(e).__name__}: {e}'
        return out
    out['input_len'] = n
    budget = round_budget(max(n, 0))
    try:
        rounds = await quiesce(case, budget)
    except Spin as e:
        rounds = budget + 1
        out['spin_in_loop'] = str(e)
    out['rounds'] = rounds
    out['round_budget'] = budget
    out['out_bytes'] = case.out_bytes()
    out['wall'] = round(time.time() - t0, 3)
    out['closed'] = case.closed()
    reports = case.lost_reports()
    out['reports'] = [type(r).__name__ if r is not None else 'clean' for r in reports]
    out['reason'] = (str(getattr(reports[0], 'reason', reports[0]))[:80] if reports and reports[0] is not None else '')
    out['report_documented'] = [documented_close(r) for r in reports]
    out['report_where'] = [exc_where(r) for r in reports]
    errs = pair.LOOP_ERRORS[errs_before:]
    out['loop_errors'] = [loop_error_sig(e) for e in errs]
    out['spin'] = bool(case.spin or 'spin_in_send' in out or 'spin_in_loop' in out or
                       any(n_ == 'Spin' for n_, _w in out['loop_errors']))
    return out


def outcome_of(o: Dict[str, Any]) -> str:
    if 'not_injected' in o:
        return 'not-injected'
    if o.get('spin'):
        return 'spins'
    real = [e for e in o.get('loop_errors', []) if e[0] != 'Spin']
    if real:
        return 'exception-escaped:' + real[0][0]
    if o.get('rounds', 0) > o.get('round_budget', ROUND_BUDGET):
        return 'spins'
    if o.get('closed'):
        rep = o.get('reports') or ['unreported']
        return 'closes:' + rep[0]
    return 'carries-on'


def failures_of(o: Dict[str, Any]) -> List[Tuple[str, str]]:
    """[(signature, what)] — violations of the C10 statement visible in one observation"""
    res: List[Tuple[str, str]] = []
    tag = f'{o.get("phase")}/{o.get("role")} {o.get("label")}'
    if 'not_injected' in o:
        return res
    if o.get('spin'):
        why = o.get('spin_in_send') or o.get('spin_in_loop') or 'output/time budget exceeded'
        res.append((f'c10:spins:{o.get("kind", "packet")}', f'{tag}: {why}'))
    elif o.get('rounds', 0) > o.get('round_budget', ROUND_BUDGET):
        res.append((f'c10:loop-not-quiescent:{o.get("kind", "packet")}',
                    f'{tag}: event loop still busy after {o.get("round_budget")} rounds'))
    for name, where in o.get('loop_errors', []):
        if name != 'Spin':
            res.append((f'c10:exception-escaped-to-loop:{name}:{where}', f'{tag}: {name} reached the event loop from {where}'))
    for op, desc in o.get('undocumented', []):
        cls, _, where = desc.partition(':')
        fn = 'start_sftp_client' if op == 'start_sftp_client' else 'sftp_client'
        res.append((f'undocumented-exception:{fn}:{cls}',
                    f'{tag}: SFTP client call {op} raised {cls} (from {where}) on a hostile server reply'))
    if o.get('closed') and not o.get('spin'):
        if len(o.get('reports', [])) == 0:
            res.append(('c10:closed-without-report', f'{tag}: target closed its transport but its owner was not told'))
        elif len(o['reports']) > 1:
            res.append(('c10:closed-reported-twice', f'{tag}: owner.connection_lost called {len(o["reports"])} times'))
        elif not o.get('report_documented', [True])[0]:
            res.append((f'c10:closed-with-internal-error:{o["reports"][0]}:{o.get("report_where", ["?"])[0]}',
                        f'{tag}: connection closed through the uncaught-exception path; owner was told '
                        f'{o["reports"][0]}({o.get("reason")}) raised in {o.get("report_where", ["?"])[0]} '
                        f'instead of a protocol error'))
    return res


# ---------------------------------------------------------------------------
# leg (i): one structured packet (or a short burst) per case

async def packet_case(phase: str, role: str, seed: str, explicit: Optional[List[Tuple[int, bytes]]] = None) -> Dict[str, Any]:
    rng = random.Random(seed)
    pkts: List[Tuple[int, bytes]] = []
    desc = 'explicit'
    copts: Optional[Dict[str, Any]] = None
    if role == 'client' and phase == 'post-auth':
        # a client that verifies host keys and has asked to be told about host key rotation: the
        # hostkeys-00@openssh.com handler is reachable by the server
        copts = dict(known_hosts=([pair.host_key().convert_to_public()], [], []),
                     server_host_keys_handler=lambda added, removed, retained, revoked: None)
    case = await (setup_clear(role, phase) if phase in PHASES_CLEAR else setup_enc(role, phase, client_opts=copts))
    try:
        if explicit is not None:
            pkts = explicit
        else:
            t = rng.randrange(1, 101)
            payload, desc = gen_payload(rng, t, case.chans_target)
            pkts = [(t, payload)]
            if rng.random() < 0.15:            # short burst: the same message several times
                pkts = pkts * rng.choice([2, 5, 20])
                desc += '*burst'
        label = f'type={pkts[0][0]} {desc}'
        total = sum(len(p) + 1 for _t, p in pkts)
        case.arm_output_budget(total)

        def send() -> int:
            assert case.hub is not None
            if phase in PHASES_CLEAR:
                data = b''.join(frame(bytes([t]) + p) for t, p in pkts)
                case.hub.inject(case.to_target, data)
                return len(data)
            before = len(case.hub.log[case.to_target])
            for t, p in pkts:
                force_send(case.hostile, t, p)
            n = len(case.hub.log[case.to_target]) - before
            if n == 0:
                raise RuntimeError('sender wrote nothing')
            return n
        with Watch() as w:
            o = await measure(case, send, label)
            # post-auth: let the target's application write as well (flow-control paths)
            if phase == 'post-auth' and not o.get('closed') and not o.get('spin') and role == 'client':
                proc = case.extra.get('proc')
                try:
                    w.rearm()
                    proc.stdin.write(b'x' * 100)
                    r2 = await quiesce(case, round_budget(100))
                    if case.spin or r2 > round_budget(100):
                        o['spin'] = True
                except Spin as e:
                    o['spin'] = True
                    o['spin_in_send'] = str(e)
                except BaseException:       # noqa: B902
                    pass
        o['kind'] = 'packet'
        o['packets'] = [(t, p.hex()) for t, p in pkts[:3]]
        o['npackets'] = len(pkts)
        return o
    finally:
        teardown(case)
        await pair.settle(6)


# ---------------------------------------------------------------------------
# leg (i) continued: numeric extremes through the channel-open parameters (public API options on the hostile side)

async def window_case(role: str, window: int, pktsize: int, nbytes: int = 300, dropbear: bool = False) -> Dict[str, Any]:
    """The hostile peer advertises (window, max packet size); the target's application then writes nbytes.
    `dropbear`: the peer's identification names dropbear and compression is on, so the target applies its
    work-around `max packet size -= 1` (an advertised 0 becomes -1, an advertised 1 becomes 0)."""
    label = f'open window={window} max_pktsize={pktsize}{" (peer says dropbear, zlib)" if dropbear else ""} ' \
            f'then target writes {nbytes} bytes'
    extra_s: Dict[str, Any] = {}
    extra_c: Dict[str, Any] = {}
    if dropbear:
        extra_s = dict(compression_algs=['zlib'])
        extra_c = dict(compression_algs=['zlib'])
        (extra_c if role == 'server' else extra_s)['client_version' if role == 'server' else 'server_version'] = \
            'dropbear_2022.83'
    if role == 'server':
        # hostile client opens the session; the server application writes
        async def handler(process: Any) -> None:
            try:
                process.stdout.write(b'y' * nbytes)
                await asyncio.sleep(3600)
            except BaseException:       # noqa: B902
                pass
        case = await setup_enc('server', 'post-auth-open', server_opts=dict(process_factory=handler, **extra_s),
                               client_opts=extra_c or None)
    else:
        case = await setup_enc('client', 'post-auth-open',
                               server_opts=dict(window=window, max_pktsize=pktsize, **extra_s),
                               client_opts=extra_c or None)
    try:
        case.phase = 'channel-open'
        case.arm_output_budget(nbytes * 8)
        c = case.box['connected']
        holder: Dict[str, Any] = {}

        def send() -> int:
            if role == 'server':
                holder['task'] = asyncio.ensure_future(c.create_process('cmd', encoding=None, window=window,
                                                                        max_pktsize=pktsize))
            else:
                async def go() -> None:
                    proc = await c.create_process('cmd', encoding=None)
                    proc.stdin.write(b'y' * nbytes)
                holder['task'] = asyncio.ensure_future(go())
            return nbytes
        with Watch():
            o = await measure(case, send, label)
        t = holder.get('task')
        if t is not None:
            if t.done() and not t.cancelled() and t.exception() is not None and isinstance(t.exception(), Spin):
                o['spin'] = True
            if not t.done():
                t.cancel()
        o['kind'] = 'channel-open-params'
        o['window'], o['pktsize'] = window, pktsize
        o['target_id'] = id(case.target)
        return o
    finally:
        teardown(case)
        await pair.settle(6)


# ---------------------------------------------------------------------------
# leg (ii): whole-connection byte streams

STREAM_KINDS = ['random', 'zeros', 'ff', 'newlines', 'ssh-junk', 'huge-length', 'tiny-frames', 'long-banner-line',
                'many-banner-lines', 'version-long', 'zero-length-frames', 'ignore-flood', 'half-frames', 'text']


def gen_stream(rng: random.Random, kind: str, role: str) -> bytes:
    n = rng.choice([1, 7, 64, 500, 4000, 20000])
    if kind == 'random':
        return bytes(rng.getrandbits(8) for _ in range(n))
    if kind == 'zeros':
        return b'\0' * n
    if kind == 'ff':
        return b'\xff' * n
    if kind == 'newlines':
        return rng.choice([b'\n', b'\r\n', b'x\n']) * n
    if kind == 'ssh-junk':
        return rng.choice([b'SSH-', b'SSH-1.5-x\r\n', b'SSH-2.0', b'SSH-2.0-\r\n', b'SSH-1.99-x\n', b'SSH-9.9-x\n',
                           b'SSH-2.0-' + b'v' * 300 + b'\n', b'ssh-2.0-x\n', b'\nSSH-2.0-x\n',
                           b'SSH-2.0-caf\xc3\xa9\r\n', b'SSH-2.0-' + bytes(rng.getrandbits(8) | 0x80 for _ in range(5)) + b'\n',
                           b'SSH-1.99-\xff\n', b'SSH-2.0-x y\x00z\r\n']) + \
            bytes(rng.getrandbits(8) for _ in range(rng.choice([0, 5, 100])))
    if kind == 'huge-length':
        return raw_frame(rng.choice([U32, 0x7fffffff, 0x80000000, 35001, 262145]), bytes(rng.choice([4, 100, 5000])))
    if kind == 'tiny-frames':
        return frame(b'\x02' + String(b'')) * rng.choice([1, 10, 300, 2000])
    if kind == 'long-banner-line':
        return b'b' * rng.choice([8190, 8191, 8192, 8193, 20000]) + rng.choice([b'\n', b''])
    if kind == 'many-banner-lines':
        return rng.choice([b'\n', b'hello\n', b'hello\r\n']) * rng.choice([1023, 1024, 1025, 1026, 3000]) + \
            rng.choice([b'', b'SSH-2.0-late\r\n'])
    if kind == 'version-long':
        return b'SSH-2.0-' + b'v' * rng.choice([246, 247, 248, 300, 8000]) + b'\r\n'
    if kind == 'zero-length-frames':
        return raw_frame(rng.choice([0, 1, 2, 3, 4]), bytes(rng.choice([4, 8, 12, 64]))) * rng.choice([1, 3, 50])
    if kind == 'ignore-flood':
        return frame(b'\x02' + String(b'x' * rng.choice([0, 10, 1000]))) * rng.choice([5, 100, 1000])
    if kind == 'half-frames':
        f = frame(b'\x02' + String(b'abc'))
        return f * rng.choice([0, 1, 3]) + f[:rng.randrange(1, len(f))]
    return (b'GET / HTTP/1.1\r\nHost: x\r\n\r\n' * rng.choice([1, 50]))[:n]


async def stream_case(phase: str, role: str, seed: str, explicit: Optional[Tuple[bytes, List[int]]] = None) -> Dict[str, Any]:
    """phase: 'start' (before any version line), 'pre-kex', 'in-kex' (raw peer) or 'pre-auth'/'post-auth'
    (bytes injected into the encrypted stream)."""
    rng = random.Random(seed)
    if phase == 'start':
        case = await setup_clear(role, 'start')
    elif phase in PHASES_CLEAR:
        case = await setup_clear(role, phase)
    else:
        enc, mac = rng.choice([('chacha20-poly1305@openssh.com', None), ('aes128-gcm@openssh.com', None),
                               ('aes256-ctr', 'hmac-sha2-256-etm@openssh.com'), ('aes128-ctr', 'hmac-sha2-256'),
                               ('aes128-cbc', 'hmac-sha1')])
        algs: Dict[str, Any] = dict(encryption_algs=[enc])
        if mac:
            algs['mac_algs'] = [mac]
        case = await setup_enc(role, phase, server_opts=dict(algs), client_opts=dict(algs))
        case.extra['cipher'] = enc
        # the real peer goes silent; only the hostile stream reaches the target from now on
        assert case.hub is not None
        case.hub.cut[case.to_target] = True
    try:
        if explicit is not None:
            data, cuts = explicit
            kind = 'explicit'
        else:
            kind = rng.choice(STREAM_KINDS)
            data = gen_stream(rng, kind, role)
            ncuts = rng.choice([0, 0, 1, 3, 10])
            cuts = sorted(rng.randrange(len(data) + 1) for _ in range(ncuts))
        chunks = [data[a:b] for a, b in zip([0] + cuts, cuts + [len(data)])]
        chunks = [c for c in chunks if c]
        agg: Dict[str, Any] = {'label': f'stream {kind} {len(data)} bytes in {len(chunks)} chunks', 'phase': phase,
                               'role': role, 'kind': 'stream', 'input_len': len(data), 'rounds': 0, 'out_bytes': 0,
                               'loop_errors': [], 'spin': False, 'closed': False, 'reports': [], 'reason': ''}
        with Watch() as w:
            for ch in chunks:
                case.arm_output_budget(len(ch))
                w.rearm()

                def send(ch: bytes = ch) -> int:
                    assert case.hub is not None
                    case.hub.queues[case.to_target] += ch
                    case.hub.kick()
                    return len(ch)
                o = await measure(case, send, agg['label'])
                agg['rounds'] = max(agg['rounds'], o.get('rounds', 0))
                agg['out_bytes'] += o.get('out_bytes', 0)
                agg['loop_errors'] += o.get('loop_errors', [])
                agg['spin'] = agg['spin'] or o.get('spin', False)
                agg['closed'] = o.get('closed', False)
                agg['reports'] = o.get('reports', [])
                agg['report_documented'] = o.get('report_documented', [])
                agg['report_where'] = o.get('report_where', [])
                agg['reason'] = o.get('reason', '')
                if o.get('spin') or o.get('closed'):
                    break
        agg['data'] = data[:4096].hex()
        agg['data_len'] = len(data)
        agg['cuts'] = cuts
        agg['stream_kind'] = kind
        return agg
    finally:
        teardown(case)
        await pair.settle(6)
