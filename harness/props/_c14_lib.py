"""Helpers for the C14 check: token formats shared with lean/Drivers/C14.lean, generators, a scripted
application-level SFTPServer stub for the real server handler, and a scripted raw SFTP server for the real client.
"""

from __future__ import annotations

import asyncio
import errno
import os
from typing import Any, Dict, List, Optional, Sequence, Tuple

import asyncssh
from asyncssh import sftp as S
from asyncssh.packet import (Byte, String, UInt32, UInt64, SSHPacket, PacketDecodeError)

import pair
from vlib import hx, unhx

VERSIONS = [3, 4, 5, 6]

# ---------------------------------------------------------------------------------------------------
# attribute records <-> driver tokens

NUM_FIELDS = [('size', 'size'), ('alloc', 'alloc_size'), ('uid', 'uid'), ('gid', 'gid')]
ORDER = [('n', 'size', 'size'), ('n', 'alloc', 'alloc_size'), ('n', 'uid', 'uid'), ('n', 'gid', 'gid'),
         ('s', 'owner', 'owner'), ('s', 'group', 'group'), ('n', 'perm', 'permissions'),
         ('n', 'atime', 'atime'), ('n', 'atime_ns', 'atime_ns'), ('n', 'crtime', 'crtime'),
         ('n', 'crtime_ns', 'crtime_ns'), ('n', 'mtime', 'mtime'), ('n', 'mtime_ns', 'mtime_ns'),
         ('n', 'ctime', 'ctime'), ('n', 'ctime_ns', 'ctime_ns'), ('b', 'acl', 'acl'),
         ('n', 'bits', 'attrib_bits'), ('n', 'valid', 'attrib_valid'), ('n', 'hint', 'text_hint'),
         ('s', 'mime', 'mime_type'), ('n', 'nlink', 'nlink'), ('b', 'untrans', 'untrans_name')]


def attrs_tokens(a: Any) -> List[str]:
    """canonical token list of an SFTPAttrs (same order as `showAttrsToks` in the Lean driver)"""
    toks = [f'type:{a.type}']
    for kind, key, field in ORDER:
        v = getattr(a, field)
        if v is None:
            continue
        if kind == 'n':
            toks.append(f'{key}:{int(v)}')
        elif kind == 's':
            toks.append(f'{key}:{hx(v.encode("utf-8") if isinstance(v, str) else bytes(v))}')
        else:
            toks.append(f'{key}:{hx(bytes(v))}')
    ext = list(a.extended or ())
    if ext:
        toks.append('ext:' + '+'.join(f'{hx(bytes(k))}={hx(bytes(d))}' for k, d in ext))
    return toks


def name_tokens(n: Any) -> List[str]:
    toks = ['fn:' + hx(n.filename if isinstance(n.filename, bytes) else n.filename.encode())]
    if n.longname is not None:
        ln = n.longname if isinstance(n.longname, bytes) else n.longname.encode()
        toks.append('ln:' + hx(ln))
    return toks + attrs_tokens(n.attrs)


def decode_err(e: BaseException) -> str:
    if isinstance(e, PacketDecodeError):
        return 'err trailing' if 'Unexpected data' in str(e) else 'err short'
    if isinstance(e, S.SFTPOwnerInvalid):
        return 'err owner'
    if isinstance(e, S.SFTPGroupInvalid):
        return 'err group'
    if isinstance(e, S.SFTPBadMessage):
        msg = str(e.reason)
        if msg.startswith('Unsupported attribute flags: 0x'):
            return 'err badflags:%d' % int(msg.split('0x')[1], 16)
        if 'MIME' in msg:
            return 'err badmime'
        return 'err badmsg:' + msg
    return 'exc:' + type(e).__name__


def impl_encode(a: Any, v: int) -> str:
    try:
        return hx(a.encode(v))
    except (OverflowError, ValueError, TypeError, UnicodeEncodeError):
        return 'raise'


def impl_decode(b: bytes, v: int) -> str:
    p = SSHPacket(b)
    try:
        a = S.SFTPAttrs.decode(p, v)
    except Exception as e:
        return decode_err(e)
    return 'ok ' + hx(p.get_remaining_payload()) + ' ' + ' '.join(attrs_tokens(a))


def impl_decode_name(b: bytes, v: int) -> str:
    p = SSHPacket(b)
    try:
        n = S.SFTPName.decode(p, v)
    except Exception as e:
        return decode_err(e)
    return 'ok ' + hx(p.get_remaining_payload()) + ' ' + ' '.join(name_tokens(n))


def impl_roundtrip(a: Any, v: int) -> bool:
    """decode(encode(a)) == a on the real code (field by field, nothing left over)"""
    try:
        b = a.encode(v)
    except (OverflowError, ValueError, TypeError, UnicodeEncodeError):
        return False
    p = SSHPacket(b)
    try:
        d = S.SFTPAttrs.decode(p, v)
    except Exception:
        return False
    return (not p.get_remaining_payload()) and attrs_tokens(d) == attrs_tokens(a)


# ---------------------------------------------------------------------------------------------------
# generators

FLAG_BITS = {3: [0, 1, 2, 3, 31], 4: [0, 2, 3, 4, 5, 6, 7, 8, 31], 5: [0, 2, 3, 4, 5, 6, 7, 8, 9, 31],
             6: [0, 2, 3, 4, 5, 6, 7, 8, 9, 10, 11, 12, 13, 14, 15, 31]}

TEXTS = ['', 'root', 'user', 'wheel', 'é', 'naïve', '日本', 'a' * 40, '\U0001f600', 'text/plain', 'x y', '0', '1000']
BLOBS = [b'', b'a', b'\x00', b'\xff\xfe', b'acl-data', b'\xc3\xa9', b'x' * 33, bytes(range(7))]


def gen_u(rng: Any, bits: int) -> int:
    r = rng.random()
    if r < 0.25:
        return rng.choice([0, 1, 2 ** bits - 1, 2 ** (bits - 1), 255, 256, 65535, 65536])% (2 ** bits)
    if r < 0.6:
        return rng.randrange(0, 1 << min(bits, 16))
    return rng.randrange(0, 1 << bits)


def gen_perm(rng: Any, v: int) -> int:
    if v == 3:
        return rng.choice([0o100000, 0o040000, 0o120000, 0o140000, 0o020000, 0o060000, 0o010000, 0, 0o050000,
                           0o170000]) | rng.randrange(0, 0o10000)
    return rng.randrange(0, 0o10000)


def gen_ext(rng: Any) -> List[Tuple[bytes, bytes]]:
    return [(rng.choice(BLOBS), rng.choice(BLOBS)) for _ in range(rng.randint(1, 3))]


def attrs_for_flags(rng: Any, v: int, bits: Sequence[int], time_bits: int = 64) -> Any:
    """an SFTPAttrs whose encoding in version v sets exactly the flag bits `bits` (carryable by construction
    except for the sub-second bit without any time field)"""
    a = S.SFTPAttrs()
    bits = set(bits)
    if 0 in bits:
        a.size = gen_u(rng, 64)
    if 2 in bits:
        a.permissions = gen_perm(rng, v)
    if 31 in bits:
        a.extended = gen_ext(rng)
    if v == 3:
        if 1 in bits:
            a.uid, a.gid = gen_u(rng, 32), gen_u(rng, 32)
        if 3 in bits:
            a.atime, a.mtime = gen_u(rng, 32), gen_u(rng, 32)
        a.type = S._stat_mode_to_filetype(a.permissions) if a.permissions is not None else S.FILEXFER_TYPE_UNKNOWN
        return a
    a.type = rng.randrange(0, 6) if v == 4 else rng.choice([0, 1, 2, 3, 4, 5, 6, 7, 8, 9, 10, 200, 255])
    sub = 8 in bits
    times = [(3, 'atime'), (4, 'crtime'), (5, 'mtime')] + ([(15, 'ctime')] if v >= 6 else [])
    some_time = False
    for bit, name in times:
        if bit in bits:
            some_time = True
            setattr(a, name, gen_u(rng, time_bits))
            if sub:
                setattr(a, name + '_ns', gen_u(rng, 32))
    if sub and not some_time:
        a.atime_ns = gen_u(rng, 32)          # flag set, nothing to carry it: not carryable
    if 6 in bits:
        a.acl = rng.choice(BLOBS)
    if 7 in bits:
        a.owner, a.group = rng.choice(TEXTS), rng.choice(TEXTS)
    if 9 in bits:
        a.attrib_bits, a.attrib_valid = gen_u(rng, 32), gen_u(rng, 32)
    if 10 in bits:
        a.alloc_size = gen_u(rng, 64)
    if 11 in bits:
        a.text_hint = rng.randrange(0, 256)
    if 12 in bits:
        a.mime_type = rng.choice(TEXTS)
    if 13 in bits:
        a.nlink = gen_u(rng, 32)
    if 14 in bits:
        a.untrans_name = rng.choice(BLOBS)
    return a


ALL_FIELDS = ['size', 'alloc_size', 'uid', 'gid', 'owner', 'group', 'permissions', 'atime', 'atime_ns', 'crtime',
              'crtime_ns', 'mtime', 'mtime_ns', 'ctime', 'ctime_ns', 'acl', 'attrib_bits', 'attrib_valid',
              'text_hint', 'mime_type', 'nlink', 'untrans_name']


def perturb_attrs(rng: Any, a: Any, v: int) -> Any:
    """make a record the version may not be able to carry: foreign fields, half pairs, out-of-range numbers"""
    b = S.SFTPAttrs(**{k: getattr(a, k) for k in a.__slots__})
    for _ in range(rng.randint(1, 3)):
        f = rng.choice(ALL_FIELDS + ['type'])
        r = rng.random()
        if f == 'type':
            b.type = rng.choice([0, 1, 4, 5, 6, 9, 255, 256, 300])
        elif r < 0.3:
            setattr(b, f, None)
        elif f in ('owner', 'group', 'mime_type'):
            setattr(b, f, rng.choice(TEXTS))
        elif f in ('acl', 'untrans_name'):
            setattr(b, f, rng.choice(BLOBS))
        else:
            setattr(b, f, rng.choice([0, 1, 7, 255, 256, 4095, 4096, 65535, 65536, 2 ** 32 - 1, 2 ** 32,
                                      2 ** 64 - 1, 2 ** 64, 12345]))
    return b


def mutate_bytes(rng: Any, b: bytes) -> bytes:
    r = rng.random()
    if r < 0.3 and b:
        return b[:rng.randrange(0, len(b))]
    if r < 0.45:
        return b + bytes(rng.randrange(256) for _ in range(rng.randint(1, 6)))
    if r < 0.8 and b:
        i = rng.randrange(0, min(len(b), 12) if rng.random() < 0.6 else len(b))
        return b[:i] + bytes([b[i] ^ (1 << rng.randrange(8))]) + b[i + 1:]
    if r < 0.9 and len(b) >= 4:
        flags = rng.choice([0x8000ffff, 0xffffffff, 0x20, 0x28, 0x2, 0x400, 0x100, 0x80, 0x1000, 0x80000000, 0])
        return flags.to_bytes(4, 'big') + b[4:]
    return bytes(rng.randrange(256) for _ in range(rng.randint(0, 24)))


def gen_utf8ish(rng: Any) -> bytes:
    r = rng.random()
    if r < 0.4:
        return rng.choice(TEXTS).encode('utf-8')
    if r < 0.7:
        s = ''.join(chr(rng.choice([rng.randrange(0, 0x80), rng.randrange(0x80, 0x800), rng.randrange(0x800, 0xd800),
                                    rng.randrange(0xe000, 0x10000), rng.randrange(0x10000, 0x110000)]))
                    for _ in range(rng.randint(0, 5)))
        b = s.encode('utf-8')
        if rng.random() < 0.5 and b:
            i = rng.randrange(len(b))
            b = b[:i] + bytes([rng.randrange(256)]) + b[i + 1:]
        elif rng.random() < 0.3 and b:
            b = b[:rng.randrange(len(b))]
        return b
    pool = [0x00, 0x7f, 0x80, 0xbf, 0xc0, 0xc1, 0xc2, 0xdf, 0xe0, 0xa0, 0x9f, 0xed, 0xee, 0xef, 0xf0, 0x90, 0x8f,
            0xf4, 0xf5, 0xff, 0x41]
    return bytes(rng.choice(pool) for _ in range(rng.randint(0, 6)))


def is_utf8(b: bytes) -> bool:
    try:
        b.decode('utf-8')
        return True
    except UnicodeDecodeError:
        return False


# ---------------------------------------------------------------------------------------------------
# the protocol's own reply table (SFTP drafts / OpenSSH PROTOCOL), independent of the code under test

FXP = dict(INIT=1, VERSION=2, OPEN=3, CLOSE=4, READ=5, WRITE=6, LSTAT=7, FSTAT=8, SETSTAT=9, FSETSTAT=10,
           OPENDIR=11, READDIR=12, REMOVE=13, MKDIR=14, RMDIR=15, REALPATH=16, STAT=17, RENAME=18, READLINK=19,
           SYMLINK=20, LINK=21, BLOCK=22, UNBLOCK=23, STATUS=101, HANDLE=102, DATA=103, NAME=104, ATTRS=105,
           EXTENDED=200, EXTENDED_REPLY=201)
SPEC_REPLY = {3: 102, 5: 103, 7: 105, 8: 105, 11: 102, 12: 104, 16: 104, 17: 105, 19: 104,
              b'statvfs@openssh.com': 201, b'fstatvfs@openssh.com': 201, b'limits@openssh.com': 201,
              b'ranges@asyncssh.com': 201}
EXT_NAMES = [b'posix-rename@openssh.com', b'statvfs@openssh.com', b'fstatvfs@openssh.com', b'hardlink@openssh.com',
             b'fsync@openssh.com', b'lsetstat@openssh.com', b'limits@openssh.com', b'copy-data',
             b'ranges@asyncssh.com']
KNOWN_HANDLERS = set(range(3, 24)) | set(EXT_NAMES)
FX_BAD_MESSAGE, FX_OP_UNSUPPORTED, FX_FAILURE, FX_EOF, FX_OK = 5, 8, 4, 1, 0


def legal_reply_types(key: Any) -> List[int]:
    return [101] + ([SPEC_REPLY[key]] if key in SPEC_REPLY else [])


def key_token(key: Any) -> str:
    return ('n%d' % key) if isinstance(key, int) else 'x' + key.hex()


# ---------------------------------------------------------------------------------------------------
# scripted application server for the real SFTPServerHandler


class Script:
    """what the application-level server does for the next request"""

    def __init__(self, exc: Optional[Tuple[str, int]] = None, data: bytes = b'abc', size: int = 3,
                 names: Optional[List[Any]] = None, attrs: Any = None, path: bytes = b'/p',
                 stat_exc: bool = False):
        self.exc, self.data, self.size, self.names = exc, data, size, names or []
        self.attrs = attrs if attrs is not None else S.SFTPAttrs(size=1)
        self.path, self.stat_exc = path, stat_exc

    def fire(self) -> None:
        if self.exc:
            kind, n = self.exc
            if kind == 'os':
                raise OSError(n, os.strerror(n))
            if kind == 'sftp':
                raise S.SFTPError(n, 'scripted')
            if kind == 'notimpl':
                raise NotImplementedError
            raise ZeroDivisionError('scripted')


class FileObj:
    """stand-in for an open file; dense up to 100 bytes for SEEK_DATA/SEEK_HOLE"""

    def seek(self, pos: int, whence: int = 0) -> int:
        if whence == getattr(os, 'SEEK_DATA', 3):
            if pos >= 100:
                raise OSError(errno.ENXIO, 'no data')
            return pos
        if whence == getattr(os, 'SEEK_HOLE', 4):
            return 100
        return pos


class DirIter:
    def __init__(self, owner: 'StubServer'):
        self.owner = owner
        self.queue: List[Any] = []
        self.armed = False

    def __aiter__(self) -> 'DirIter':
        if not self.armed:          # a new readdir request: take what the script provides now
            self.owner.script.fire()
            self.queue = list(self.owner.script.names)
        self.armed = True
        return self

    async def __anext__(self) -> Any:
        if self.queue:
            return self.queue.pop(0)
        self.armed = False
        raise StopAsyncIteration


class StubServer(S.SFTPServer):
    """every application callback obeys `self.script`"""

    current: Optional['StubServer'] = None

    def __init__(self, chan: Any):
        super().__init__(chan)
        self.script = Script()
        self.calls: List[str] = []
        StubServer.current = self

    def _do(self, name: str) -> None:
        self.calls.append(name)
        self.script.fire()

    def format_longname(self, name: Any) -> None:
        name.longname = b'L:' + bytes(name.filename)

    def open(self, path: bytes, pflags: int, attrs: Any) -> Any:
        self._do('open')
        return FileObj()

    def open56(self, path: bytes, desired_access: int, flags: int, attrs: Any) -> Any:
        self._do('open56')
        return FileObj()

    def close(self, file_obj: Any) -> None:
        self._do('close')

    def read(self, file_obj: Any, offset: int, size: int) -> bytes:
        self._do('read')
        return self.script.data

    def write(self, file_obj: Any, offset: int, data: bytes) -> int:
        self._do('write')
        return len(data)

    def lstat(self, path: bytes) -> Any:
        self._do('lstat')
        return self.script.attrs

    def fstat(self, file_obj: Any) -> Any:
        self._do('fstat')
        if self.calls[-2:-1] == ['read']:
            return S.SFTPAttrs(size=self.script.size)
        return self.script.attrs

    def stat(self, path: bytes) -> Any:
        self.calls.append('stat')
        if self.calls[-2:-1] == ['realpath']:
            if self.script.stat_exc:
                raise OSError(errno.ENOENT, 'scripted stat failure')
            return self.script.attrs
        self.script.fire()
        return self.script.attrs

    def setstat(self, path: bytes, attrs: Any) -> None:
        self._do('setstat')

    def lsetstat(self, path: bytes, attrs: Any) -> None:
        self._do('lsetstat')

    def fsetstat(self, file_obj: Any, attrs: Any) -> None:
        self._do('fsetstat')

    def scandir(self, path: bytes) -> Any:
        return DirIter(self)

    def remove(self, path: bytes) -> None:
        self._do('remove')

    def mkdir(self, path: bytes, attrs: Any) -> None:
        self._do('mkdir')

    def rmdir(self, path: bytes) -> None:
        self._do('rmdir')

    def realpath(self, path: bytes) -> bytes:
        self._do('realpath')
        return self.script.path

    def rename(self, oldpath: bytes, newpath: bytes) -> None:
        self._do('rename')

    def readlink(self, path: bytes) -> bytes:
        self._do('readlink')
        return self.script.path

    def symlink(self, oldpath: bytes, newpath: bytes) -> None:
        self._do('symlink')

    def link(self, oldpath: bytes, newpath: bytes) -> None:
        self._do('link')

    def lock(self, file_obj: Any, offset: int, length: int, flags: int) -> None:
        self._do('lock')

    def unlock(self, file_obj: Any, offset: int, length: int) -> None:
        self._do('unlock')

    def posix_rename(self, oldpath: bytes, newpath: bytes) -> None:
        self._do('posix_rename')

    def statvfs(self, path: bytes) -> Any:
        self._do('statvfs')
        return S.SFTPVFSAttrs(1, 2, 3, 4, 5, 6, 7, 8, 9, 10, 11)

    def fstatvfs(self, file_obj: Any) -> Any:
        self._do('fstatvfs')
        return S.SFTPVFSAttrs(1, 2, 3, 4, 5, 6, 7, 8, 9, 10, 11)

    def fsync(self, file_obj: Any) -> None:
        self._do('fsync')

    def exit(self) -> None:
        pass


def frame(pkt: bytes) -> bytes:
    return len(pkt).to_bytes(4, 'big') + pkt


class RawSession:
    """a raw SFTP subsystem channel to a real asyncssh SFTP server: write framed packets, read framed replies"""

    def __init__(self, conn: Any):
        self.conn = conn
        self.w: Any = None
        self.r: Any = None
        self.stub: Optional[StubServer] = None
        self.version = 0
        self.ended = False
        self.silent = False

    async def start(self, version: int) -> bool:
        StubServer.current = None
        self.w, self.r, _e = await self.conn.open_session(subsystem='sftp', encoding=None)
        self.w.write(frame(Byte(1) + UInt32(version)))
        rep = await self.read_packet()
        if rep is None or rep[0] != 2:
            return False
        self.version = int.from_bytes(rep[1:5], 'big')
        for _ in range(20):
            if StubServer.current is not None:
                break
            await asyncio.sleep(0)
        self.stub = StubServer.current
        return self.stub is not None

    async def read_packet(self, timeout: float = 5.0) -> Optional[bytes]:
        try:
            hdr = await asyncio.wait_for(self.r.readexactly(4), timeout)
            n = int.from_bytes(hdr, 'big')
            return await asyncio.wait_for(self.r.readexactly(n), timeout)
        except (asyncio.IncompleteReadError, asyncssh.Error, ConnectionError):
            self.ended = True
            return None

    async def request(self, pkt: bytes, script: Optional[Script] = None, timeout: float = 3.0) -> Optional[bytes]:
        """send one framed packet and read one reply packet (`None`: the session ended or nothing came).
        A second reply to the same request shows up as the reply read for the next request (wrong id)."""
        assert self.stub is not None
        self.stub.script = script or Script()
        self.stub.calls = []
        try:
            self.w.write(frame(pkt))
        except (BrokenPipeError, ConnectionError, asyncssh.Error):
            self.ended = True
            return None
        try:
            return await self.read_packet(timeout)
        except asyncio.TimeoutError:
            self.silent = True
            return None

    def close(self) -> None:
        try:
            self.w.close()
        except Exception:
            pass


def parse_reply(pkt: bytes) -> Tuple[int, int, bytes]:
    return pkt[0], int.from_bytes(pkt[1:5], 'big'), pkt[5:]


def reply_desc(pkt: bytes) -> str:
    """canonical description of a server reply, same shape as the Lean driver's `sreq` output"""
    if len(pkt) < 5:
        return 'malformed-reply ' + pkt.hex()
    t, i, body = parse_reply(pkt)
    if t == 101:
        return f'reply {t} {i} status {int.from_bytes(body[:4], "big")}'
    if t == 102:
        n = int.from_bytes(body[:4], 'big')
        return f'reply {t} {i} handle {hx(body[4:4 + n])}'
    if t == 103:
        return f'reply {t} {i} data {hx(body)}'
    if t == 104:
        return f'reply {t} {i} names {hx(body)}'
    if t == 105:
        return f'reply {t} {i} attrs {hx(body)}'
    if t == 201:
        return f'reply {t} {i} ext'
    return f'reply {t} {i} unknown {hx(body)}'


# ---------------------------------------------------------------------------------------------------
# request bodies for the real server: one valid body per handler and version


def _time_bits() -> int:
    """`_process_open/setstat/fsetstat/lsetstat` format the attributes for a debug message eagerly
    (`hide_empty(attrs)` -> `time.ctime`); in a tree where that raises for times beyond the platform's calendar
    range (observation O1, reported by C14.oracle_big_times) generated times stay below 2^40, otherwise they use
    all 64 bits."""
    try:
        str(S.SFTPAttrs(atime=2 ** 63, mtime=2 ** 60, crtime=2 ** 64 - 1))
        return 64
    except (OverflowError, OSError, ValueError):
        return 40


TIME_BITS = _time_bits()


def valid_attrs_bytes(rng: Any, v: int) -> bytes:
    """attributes inside a request body (times: see `_time_bits`)"""
    bits = [b for b in FLAG_BITS[v] if rng.random() < 0.3]
    return attrs_for_flags(rng, v, bits, time_bits=TIME_BITS).encode(v)


def valid_body(rng: Any, key: Any, v: int, fh: bytes, dh: bytes) -> bytes:
    """body (after type+id, and after the name for extended requests) the handler accepts in version v"""
    p = rng.choice([b'/a', b'/dir/f', b'x', b''])
    q = rng.choice([b'/b', b'y'])
    if key == 3:
        if v >= 5:
            return String(p) + UInt32(rng.choice([0x1, 0x3, 0x81, 0x187, 0x10000])) + UInt32(rng.choice([0, 3, 8, 4, 0x10])) + \
                valid_attrs_bytes(rng, v)
        return String(p) + UInt32(rng.choice([1, 2, 0x1a])) + valid_attrs_bytes(rng, v)
    if key == 4:
        return String(fh)
    if key == 5:
        return String(fh) + UInt64(rng.choice([0, 1, 50, 2 ** 40])) + UInt32(rng.choice([1, 3, 100]))
    if key == 6:
        return String(fh) + UInt64(rng.choice([0, 7])) + String(rng.choice([b'', b'data', b'\x00' * 9]))
    if key in (7, 17):
        return String(p) + (UInt32(rng.choice([0, 0xfd, 0xffffffff])) if v >= 4 else b'')
    if key == 8:
        return String(fh) + (UInt32(0xfd) if v >= 4 else b'')
    if key in (9, 14):
        return String(p) + valid_attrs_bytes(rng, v)
    if key == 10:
        return String(fh) + valid_attrs_bytes(rng, v)
    if key in (11, 13, 15, 19):
        return String(p)
    if key == 12:
        return String(dh)
    if key == 16:
        if v >= 6:
            return String(p) + Byte(rng.choice([1, 1, 2, 3])) + b''.join(String(x) for x in
                                                                         [q][:rng.randint(0, 1)])
        return String(p)
    if key == 18:
        return String(p) + String(q) + (UInt32(rng.choice([0, 1, 2])) if v >= 5 else b'')
    if key == 20:
        return String(p) + String(q)
    if key == 21:
        return String(p) + String(q) + Byte(rng.choice([0, 1]))
    if key == 22:
        return String(fh) + UInt64(0) + UInt64(10) + UInt32(rng.choice([1, 0x40]))
    if key == 23:
        return String(fh) + UInt64(0) + UInt64(10)
    if key in (b'posix-rename@openssh.com', b'hardlink@openssh.com'):
        return String(p) + String(q)
    if key == b'statvfs@openssh.com':
        return String(p)
    if key in (b'fstatvfs@openssh.com', b'fsync@openssh.com'):
        return String(fh)
    if key == b'lsetstat@openssh.com':
        return String(p) + valid_attrs_bytes(rng, v)
    if key == b'limits@openssh.com':
        return b''
    if key == b'copy-data':
        return String(fh) + UInt64(0) + UInt64(rng.choice([0, 2, 3, 10])) + String(fh) + UInt64(5)
    if key == b'ranges@asyncssh.com':
        return String(fh) + UInt64(rng.choice([0, 10, 100, 200])) + UInt64(rng.choice([0, 5, 1000]))
    raise KeyError(key)


def request_packet(key: Any, pktid: int, body: bytes) -> bytes:
    if isinstance(key, int):
        return Byte(key) + UInt32(pktid) + body
    return Byte(200) + UInt32(pktid) + String(key) + body


def first_string(body: bytes) -> Optional[bytes]:
    if len(body) < 4:
        return None
    n = int.from_bytes(body[:4], 'big')
    if len(body) < 4 + n:
        return None
    return body[4:4 + n]


def compact_attrs(a: Any) -> str:
    return ','.join(attrs_tokens(a))


def compact_name(n: Any) -> str:
    return ','.join(name_tokens(n))


def app_token(key: Any, v: int, body: bytes, script: Script) -> str:
    """the `app=` argument of the driver's `sreq`: what the scripted application does for this request"""
    if key == b'ranges@asyncssh.com':
        # answered from the file object itself (dense 0..100), never from the scripted callbacks
        fs = first_string(body)
        if fs is not None and len(body) >= 4 + len(fs) + 16:
            off = int.from_bytes(body[4 + len(fs):12 + len(fs)], 'big')
            ln = int.from_bytes(body[12 + len(fs):20 + len(fs)], 'big')
            return 'app=ext' if (ln > 0 and off < 100) else 'app=raise:sftp:1'
        return 'app=ext'
    if script.exc:
        kind, n = script.exc
        return 'app=raise:' + (f'{kind}:{n}' if kind in ('os', 'sftp') else kind)
    if key == 5:
        return f'app=data:{hx(script.data)}:{script.size}'
    if key == 12:
        return 'app=names=' + ';'.join(compact_name(n) for n in script.names)
    if key in (7, 8, 17):
        return 'app=attrs=' + compact_attrs(script.attrs)
    if key == 19:
        return 'app=path=' + hx(script.path)
    if key == 16:
        if script.stat_exc:
            # stat fails: fatal only for FXRP_STAT_ALWAYS (3)
            fs = first_string(body)
            check = body[4 + len(fs)] if (v >= 6 and fs is not None and len(body) > 4 + len(fs)) else 1
            if check == 3:
                return f'app=raise:os:{errno.ENOENT}'
            return 'app=path=' + hx(script.path)
        return 'app=path=' + hx(script.path) + '|' + compact_attrs(script.attrs)
    if key in (b'statvfs@openssh.com', b'fstatvfs@openssh.com', b'limits@openssh.com'):
        return 'app=ext'
    return 'app=unit'


OS_ERRNOS = [errno.ENOENT, errno.EACCES, errno.EEXIST, errno.EROFS, errno.ENOSPC, errno.EDQUOT, errno.ENOTEMPTY,
             errno.ENOTDIR, errno.ENAMETOOLONG, errno.EILSEQ, errno.ELOOP, errno.EINVAL, errno.EISDIR,
             errno.EPERM, errno.EIO, errno.EBADF, errno.EBUSY, errno.EXDEV, errno.EMFILE, errno.ENXIO, 0, 999]


def gen_script(rng: Any, v: int, key: Any) -> Script:
    r = rng.random()
    exc = None
    if r < 0.12:
        exc = ('os', rng.choice(OS_ERRNOS))
    elif r < 0.22:
        exc = ('sftp', rng.choice(list(range(0, 33)) + [100, 2 ** 31]))
    elif r < 0.25:
        exc = ('notimpl', 0)
    elif r < 0.28:
        exc = ('other', 0)
    data = rng.choice([b'abc', b'', b'x' * 10, b'\x00'])
    size = rng.choice([len(data), len(data) + 50, 3, 0])
    names = []
    for _ in range(rng.choice([0, 1, 1, 2, 3])):
        a = attrs_for_flags(rng, v, [b for b in FLAG_BITS[v] if rng.random() < 0.25])
        if rng.random() < 0.1:
            a = perturb_attrs(rng, a, v)
        names.append(S.SFTPName(rng.choice([b'f', b'.', b'name with space', b'\xff']), b'-rw- longname', a))
    a = attrs_for_flags(rng, v, [b for b in FLAG_BITS[v] if rng.random() < 0.3])
    if rng.random() < 0.15:
        a = perturb_attrs(rng, a, v)
    return Script(exc=exc, data=data, size=size, names=names, attrs=a, path=rng.choice([b'/real', b'', b'l\xffnk']),
                  stat_exc=rng.random() < 0.3)


# ---------------------------------------------------------------------------------------------------
# scripted raw SFTP server for the real client


class ScriptedPeer(asyncssh.SSHServerSession):
    """server side of one SFTP session (a raw SSH session answering the `sftp` subsystem), operated by the
    harness: it answers INIT with VERSION itself and queues every later packet for the scenario"""

    def __init__(self, version: int, extensions: Sequence[Tuple[bytes, bytes]] = ()):
        self.version = version
        self.extensions = list(extensions)
        self.requests: 'asyncio.Queue[Optional[bytes]]' = asyncio.Queue()
        self.chan: Any = None
        self.buf = b''
        self.inited = False
        self.gone = False

    def connection_made(self, chan: Any) -> None:
        self.chan = chan

    def subsystem_requested(self, subsystem: str) -> bool:
        return subsystem == 'sftp'

    def shell_requested(self) -> bool:
        return False

    def exec_requested(self, command: str) -> bool:
        return False

    def data_received(self, data: Any, datatype: Any) -> None:
        self.buf += bytes(data)
        while len(self.buf) >= 4:
            n = int.from_bytes(self.buf[:4], 'big')
            if len(self.buf) < 4 + n:
                break
            pkt, self.buf = self.buf[4:4 + n], self.buf[4 + n:]
            if not self.inited:
                self.inited = True
                ver = UInt32(self.version) + b''.join(String(k) + String(d) for k, d in self.extensions)
                self.chan.write(frame(Byte(2) + ver))
            else:
                self.requests.put_nowait(pkt)

    def eof_received(self) -> bool:
        self.requests.put_nowait(None)
        return False

    def connection_lost(self, exc: Any) -> None:
        self.gone = True
        self.requests.put_nowait(None)

    def send(self, pkt: bytes) -> None:
        if not self.gone:
            try:
                self.chan.write(frame(pkt))
            except (OSError, asyncssh.Error):
                self.gone = True        # the client already closed the channel

    def end(self) -> None:
        if not self.gone:
            self.gone = True
            try:
                self.chan.exit(0)
            except (OSError, asyncssh.Error):
                pass

    async def next_request(self, timeout: float = 5.0) -> Optional[bytes]:
        return await asyncio.wait_for(self.requests.get(), timeout)


class PeerHub:
    """session_factory handing each new session to the ScriptedPeer prepared for it"""

    def __init__(self) -> None:
        self.pending: List[ScriptedPeer] = []

    def server_factory(self) -> Any:
        hub = self

        class Srv(asyncssh.SSHServer):
            def begin_auth(self, username: str) -> bool:
                return False

            def session_requested(self) -> Any:
                return hub.pending.pop(0) if hub.pending else False
        return Srv


def canon_exc(e: BaseException) -> str:
    if isinstance(e, S.SFTPError):
        return f'sftp {e.code}'
    if isinstance(e, PacketDecodeError):
        return 'pd'
    if isinstance(e, asyncio.TimeoutError):
        return 'hang'
    return 'exc ' + type(e).__name__


CLIENT_KINDS = ['stat', 'remove', 'readlink', 'open', 'statvfs']
KIND_KEY = {'stat': 17, 'remove': 13, 'readlink': 19, 'open': 3, 'statvfs': b'statvfs@openssh.com', 'read': 5}


async def client_call(sftp: Any, kind: str, tag: int, fobj: Any = None) -> str:
    """issue one request through the public client API; canonical outcome"""
    path = b'/p%d' % tag
    try:
        if kind == 'stat':
            r = await sftp.stat(path)
            return 'ok attrs ' + ','.join(attrs_tokens(r))
        if kind == 'remove':
            r = await sftp.remove(path)
            return 'ok none'
        if kind == 'readlink':
            r = await sftp.readlink(path)
            return 'ok bytes ' + hx(r)
        if kind == 'open':
            f = await sftp.open(path, 'rb')
            return 'ok handle ' + hx(f.handle)
        if kind == 'statvfs':
            r = await sftp.statvfs(path)
            return 'ok vfs ' + hx(r.encode(3))
        if kind == 'read':
            r = await fobj.read(4, tag)
            return 'ok bytes ' + hx(r)
        raise KeyError(kind)
    except Exception as e:
        return canon_exc(e)


def expected_from_outcome(kind: str, outcome: str) -> str:
    """what the public wrapper returns for the model's `fin` outcome of the underlying request"""
    ws = outcome.split(' ')
    if ws[0] == 'sftp':
        if kind == 'read' and ws[1] == '1':
            return 'ok bytes -'
        return outcome
    if ws[0] == 'badmsg':
        return 'sftp 5'
    if ws[0] == 'pd':
        return 'sftp 5'         # _make_request reports a reply it cannot decode as SFTPBadMessage (repair b69e8f1)
    if ws[0] == 'none':
        return 'ok none'
    if ws[0] == 'attrs':
        return 'ok attrs ' + ws[1]
    if ws[0] == 'handle':
        return 'ok handle ' + ws[1]
    if ws[0] == 'data':
        return 'ok bytes ' + ws[1]
    if ws[0] == 'names':
        if ws[2] == '-':
            return 'sftp 5'     # exactly one name is expected (repair b69e8f1; an empty list used to raise IndexError)
        names = ws[2].split(';')
        if len(names) > 1:
            return 'sftp 5'
        fn = [t for t in names[0].split(',') if t.startswith('fn:')][0][3:]
        return 'ok bytes ' + fn
    if ws[0] == 'ext':
        payload = unhx(ws[1])
        if len(payload) == 88:
            return 'ok vfs ' + hx(payload)
        return 'sftp 5'
    return 'unmapped ' + outcome
