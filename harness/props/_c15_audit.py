"""C15 oracle legs added after the model-faithfulness audit: behaviour of layers the Lean model keeps abstract
(per-algorithm codecs, PBE key derivation, the file writer) judged from the property text on the real code,
with OpenSSH (ssh-keygen) and PyCA as the independent implementations.

Signatures (one per root cause):
  ec-public-key:compressed-point:exported-public-key-differs
      an EC public key read from a SubjectPublicKeyInfo whose point is compressed keeps the compressed point:
      public_data / fingerprint / export_public_key('openssh') differ from the same key read uncompressed
      (and ssh-keygen and PyCA reject the exported line)
  passphrase-bytes-vs-str-differ:<kdf class>
      a bytes passphrase and the str it is the UTF-8 encoding of do not open the same file
      (kdf class 'pkcs12-pbe' = the PBES1 ciphers using the PKCS#12 KDF: des3-cbc, des2-cbc, rc4-40, rc4-128)
  interop:ssh-keygen-rejects:openssh:nul-in-comment
      an OpenSSH private key exported with a NUL inside the comment cannot be loaded by ssh-keygen
  import:private:unexpected-exception:<Class>
      import_private_key lets an exception other than KeyImportError / KeyEncryptionError escape on a
      well-framed OpenSSH container with corner-case key parameters (RSA p = 1: ZeroDivisionError)
  private-key-file:readable-by-others:<write_private_key|append_private_key>
      the library's own writer creates the private key file group/world readable: OpenSSH refuses to use it
  interop:ssh-keygen-rejects:public-rfc4716:long-comment-line
      the Comment header of the RFC 4716 export is written on one line whatever its length; above 1 KB
      ssh-keygen -i refuses the file
  comment-lost:public-from-private:openssh
      import_public_key of an OpenSSH private key file returns the key without its comment
"""

from __future__ import annotations

import os
import stat
from typing import Any, Dict, List, Optional, Tuple

import asyncssh
from asyncssh import pbe
from asyncssh import public_key as pkmod
from asyncssh.packet import MPInt, String, UInt32
from asyncssh.misc import wrap_base64

from vlib import Failure

P12_CIPHERS = ('des3-cbc', 'des2-cbc', 'rc4-40', 'rc4-128')


def _M() -> Any:
    from props import C15 as M
    return M


# ---------------------------------------------------------------------------
# EC public keys with a compressed point (SubjectPublicKeyInfo)

EC_OIDS = {'secp256r1': '1.2.840.10045.3.1.7', 'secp384r1': '1.3.132.0.34', 'secp521r1': '1.3.132.0.35'}


def ec_spki(pub: Any, form: str) -> bytes:
    from cryptography.hazmat.primitives.serialization import Encoding, PublicFormat
    from asyncssh.asn1 import der_encode, ObjectIdentifier, BitString
    fmt = PublicFormat.CompressedPoint if form == 'compressed' else PublicFormat.UncompressedPoint
    return der_encode(((ObjectIdentifier('1.2.840.10045.2.1'), ObjectIdentifier(EC_OIDS[pub.curve.name])),
                       BitString(pub.public_bytes(Encoding.X962, fmt))))


def check_ec_public_point_forms(d: str, privs: Optional[List[Any]] = None) -> Tuple[List[Failure], int]:
    """the same EC public key read from SPKI with the point uncompressed and compressed (openssl ec -pubout
    -conv_form compressed): same key, same public_data / fingerprint, and an exported line others accept"""
    from cryptography.hazmat.primitives.asymmetric import ec
    from cryptography.hazmat.primitives import serialization as S
    M = _M()
    fails: List[Failure] = []
    n = 0
    if privs is None:
        privs = [ec.generate_private_key(c) for c in (ec.SECP256R1(), ec.SECP384R1(), ec.SECP521R1())]
    for priv in privs:
        pub = priv.public_key()
        curve = pub.curve.name
        ref = None
        for form in ('uncompressed', 'compressed'):
            for enc in ('der', 'pem'):
                n += 1
                der = ec_spki(pub, form)
                data = der if enc == 'der' else wrap_base64(der, b'PUBLIC KEY', wrap=64)
                rep = {'kind': 'ec-point-form', 'curve': curve, 'form': form, 'container': 'spki-' + enc,
                       'der': der.hex()}
                try:
                    k = asyncssh.import_public_key(data)
                    blob = k.public_data
                    line = k.export_public_key('openssh')
                    fp = k.get_fingerprint()
                except Exception as e:      # noqa: BLE001
                    fails.append(Failure(f'ec-public-key:{form}-point:import-fails:{type(e).__name__}',
                                         f'{curve} SubjectPublicKeyInfo ({enc}) with {form} point: {e}', rep))
                    continue
                if ref is None:
                    ref = (blob, fp)
                problems = []
                if (blob, fp) != ref:
                    problems.append('public_data has %d bytes and fingerprint %s, the same key read from the '
                                    'uncompressed form has %d bytes and %s' % (len(blob), fp, len(ref[0]), ref[1]))
                try:
                    o = S.load_ssh_public_key(line)
                    if o.public_numbers() != pub.public_numbers():
                        problems.append('PyCA reads another key from the exported OpenSSH line')
                except Exception as e:      # noqa: BLE001
                    problems.append('PyCA rejects the exported OpenSSH line (%s: %s)' % (type(e).__name__, e))
                if M.have_ssh_keygen():
                    path = M.write_file(os.path.join(d, f'ecpub-{curve}-{form}-{enc}.pub'), line, 0o644)
                    rc, _o, err = M.run_kg(['-l', '-f', path])
                    if rc != 0:
                        problems.append('ssh-keygen -l rejects the exported OpenSSH line (%r)' % err[:60])
                if problems:
                    fails.append(Failure(f'ec-public-key:{form}-point:exported-public-key-differs',
                                         f'{curve} public key (SubjectPublicKeyInfo, {enc}) whose point is {form}: '
                                         + '; '.join(problems), rep))
    return fails, n


# ---------------------------------------------------------------------------
# bytes and str passphrases


def kdf_class(fmt: str, cipher: str, version: int) -> str:
    if fmt.startswith('pkcs8') and version == 1 and cipher in P12_CIPHERS:
        return 'pkcs12-pbe'
    return fmt + ('-pbes%d' % version if fmt.startswith('pkcs8') else '')


def other_type(passphrase: Any) -> Optional[Any]:
    """the same passphrase in the other Python type (bytes = UTF-8 encoding of the str), if there is one"""
    if isinstance(passphrase, str):
        try:
            return passphrase.encode('utf-8')
        except UnicodeEncodeError:
            return None
    try:
        return passphrase.decode('utf-8')
    except UnicodeDecodeError:
        return None


def check_passphrase_types(key: Any, lab: str, fmt: str, passphrase: Any, cipher: str, hash_name: str,
                           version: int, data: Optional[bytes] = None) -> List[Failure]:
    """a file protected with passphrase P opens with P given as str or as its UTF-8 bytes alike; for the
    combinations PyCA knows, PyCA (which takes bytes only) opens it with the UTF-8 bytes too"""
    M = _M()
    other = other_type(passphrase)
    if other is None:
        return []
    if data is None:
        try:
            data = key.export_private_key(fmt, passphrase, cipher, hash_name, version)
        except (pkmod.KeyExportError, pbe.KeyEncryptionError):
            return []
    cls = kdf_class(fmt, cipher, version)
    rep = {'kind': 'passphrase-types', 'key_type': lab, 'key_pkcs8_der': M.key_blob(key), 'format': fmt,
           'passphrase': M._pp(passphrase), 'cipher': cipher, 'hash': hash_name, 'pbe_version': version}
    what = '%s key, format %s, cipher %s, hash %s, PBES%d' % (lab, fmt, cipher, hash_name, version)
    problems = []
    try:
        k2 = asyncssh.import_private_key(data, other)
        if k2 != key or k2.public_data != key.public_data:
            problems.append('import with %r gives another key' % (other,))
    except Exception as e:      # noqa: BLE001
        problems.append('exported with %r, import with %r raises %s (%s)' % (passphrase, other, type(e).__name__, e))
    as_bytes = passphrase if isinstance(passphrase, bytes) else other
    if fmt == 'pkcs8-der' and as_bytes and ((version == 1 and cipher == 'des3-cbc' and hash_name == 'sha1') or
                                            (version == 2 and cipher.startswith('aes') and hash_name != 'md5')):
        from cryptography.hazmat.primitives import serialization as S
        try:
            # PyCA reads the str export; whether it reads the bytes export is the question
            o = S.load_der_private_key(data, as_bytes)
            if o.public_key().public_bytes(S.Encoding.DER, S.PublicFormat.SubjectPublicKeyInfo) != M.spki(key):
                problems.append('PyCA reads another key')
        except Exception as e:      # noqa: BLE001
            problems.append('exported with %r, PyCA load_der_private_key(%r) raises %s'
                            % (passphrase, as_bytes, type(e).__name__))
    if problems:
        return [Failure('passphrase-bytes-vs-str-differ:' + cls, '; '.join(problems) + ': ' + what, rep)]
    return []


# ---------------------------------------------------------------------------
# comments handed to ssh-keygen


KEYGEN_COMMENTS = [b'a\x00b', b'\x00lead', b'mid\x00\x00dle x', b'\xff\xfe', b'tab\there', b'\x1b[31mred', b'c' * 1200]


def check_keygen_comment(key: Any, lab: str, comment: bytes, d: str, idx: int) -> Tuple[List[Failure], int]:
    """whatever comment the OpenSSH private key export accepts, ssh-keygen loads the file (same key, same comment)"""
    M = _M()
    if not M.have_ssh_keygen() or lab in ('ed448',):
        return [], 0
    k = M.fresh_copy(key)
    k.set_comment(comment)
    rep = {'kind': 'keygen-comment', 'key_type': lab, 'key_pkcs8_der': M.key_blob(key), 'comment': comment.hex()}
    try:
        data = k.export_private_key('openssh')
    except pkmod.KeyExportError:
        if b'\0' in comment or b'\n' in comment:
            return [], 1            # a clean refusal: the exporter reports that it cannot write this comment
        return [Failure('private-export-refused:openssh',
                        'export_private_key("openssh") refused comment %r' % comment[:40], rep)], 1
    path = M.write_file(os.path.join(d, 'kgc_%d_%s' % (idx, lab)), data)
    rc, out, err = M.run_kg(['-y', '-P', '', '-f', path])
    interior_nul = b'\0' in comment[:-1]
    if rc != 0:
        sig = ('interop:ssh-keygen-rejects:openssh:nul-in-comment' if interior_nul
               else 'interop:ssh-keygen-rejects:openssh:comment')
        return [Failure(sig, 'ssh-keygen -y cannot load the OpenSSH private key export of a %s key with comment %r '
                             '(asyncssh wrote it without complaint): %s' % (lab, comment[:40], err[:120]),
                        dict(rep, data=data.hex()))], 1
    parts = out.rstrip(b'\n').split(b' ', 2)
    fails = []
    if len(parts) < 2 or M.binascii.a2b_base64(parts[1]) != k.public_data:
        fails.append(Failure('interop:ssh-keygen-reads-different-key:openssh',
                             'ssh-keygen -y derived a different public key (%s, comment %r)' % (lab, comment[:40]),
                             dict(rep, data=data.hex())))
    got = parts[2] if len(parts) > 2 else b''
    if b'\0' not in comment and got != comment:
        fails.append(Failure('interop:ssh-keygen-reads-different-comment:openssh',
                             'ssh-keygen -y shows comment %r for a key exported with comment %r' % (got[:60], comment[:60]),
                             dict(rep, data=data.hex())))
    return fails, 1


# ---------------------------------------------------------------------------
# OpenSSH containers with corner-case key parameters


def openssh_container(alg: bytes, body: bytes, comment: bytes = b'c', pub: bytes = b'') -> bytes:
    sec = b'\1\2\3\4' * 2 + String(alg) + body + String(comment)
    pad = len(sec) % 8
    if pad:
        sec += bytes(range(1, 9 - pad))
    raw = b'openssh-key-v1\0' + String(b'none') + String(b'none') + String(b'') + UInt32(1) + String(pub) + String(sec)
    return wrap_base64(raw, b'OPENSSH PRIVATE KEY')


def rsa_body(n: int, e: int, d: int, iqmp: int, p: int, q: int) -> bytes:
    return b''.join(MPInt(x) for x in (n, e, d, iqmp, p, q))


RSA_CORNERS = [(15, 3, 3, 1, 1, 15), (15, 3, 3, 1, 15, 1), (1, 3, 3, 1, 1, 1), (0, 0, 0, 0, 0, 0), (15, 3, 3, 2, 0, 5),
               (15, 3, 3, 2, 3, 5), (15, 3, 3, 2, -3, -5), (15, 3, 0, 2, 2, 2), (15, 3, 3, 2, 2, 1)]


def check_container_corners(rng: Any, count: int) -> Tuple[List[Failure], int]:
    """well-framed OpenSSH containers whose key parameters are impossible: the import reports KeyImportError
    (via replay_text: anything but the documented exception classes is a failing input)"""
    M = _M()
    fails: List[Failure] = []
    cases = [openssh_container(b'ssh-rsa', rsa_body(*c)) for c in RSA_CORNERS]
    small = [0, 1, 2, 3, 5, 15, -1, 255, 256, 65537]
    for _ in range(count):
        cases.append(openssh_container(b'ssh-rsa', rsa_body(*[rng.choice(small) for _i in range(6)]),
                                       rng.choice([b'', b'c', b'\xff'])))
        cases.append(openssh_container(b'ssh-dss', b''.join(MPInt(rng.choice(small)) for _i in range(5))))
    for t in cases:
        fails += M.replay_text(t)
    return fails, len(cases)


# ---------------------------------------------------------------------------
# the library's own file writer


def check_writer_modes(key: Any, lab: str, d: str, idx: int, fmt: str = 'openssh') -> Tuple[List[Failure], int]:
    """write_private_key / append_private_key create a file that only its owner can read (what ssh-keygen does
    for its own files, and what ssh/ssh-keygen insist on before they use a private key); judged under the usual
    umask 022 and, where ssh-keygen reads the format, by ssh-keygen -y on the file exactly as the library left it"""
    M = _M()
    fails: List[Failure] = []
    n = 0
    old = os.umask(0o022)
    try:
        for api in ('write_private_key', 'append_private_key'):
            path = os.path.join(d, 'wm_%d_%s_%s' % (idx, api, lab))
            if os.path.exists(path):
                os.unlink(path)
            try:
                getattr(key, api)(path, fmt)
            except pkmod.KeyExportError:
                continue
            n += 1
            mode = stat.S_IMODE(os.stat(path).st_mode)
            rep = {'kind': 'writer-mode', 'key_type': lab, 'key_pkcs8_der': M.key_blob(key), 'api': api, 'format': fmt}
            if mode & 0o077:
                extra = ''
                if M.have_ssh_keygen() and fmt == 'openssh' and lab != 'ed448':
                    rc, _o, err = M.run_kg(['-y', '-P', '', '-f', path])
                    extra = '; ssh-keygen -y on that file: rc=%d %s' % (
                        rc, b' '.join(l for l in err.split(b'\n') if b'Permissions' in l or b'ignored' in l)[:160])
                fails.append(Failure('private-key-file:readable-by-others:' + api,
                                     '%s(%r) created the private key file with mode %04o under umask 022%s'
                                     % (api, fmt, mode, extra), rep))
            elif M.have_ssh_keygen() and fmt == 'openssh' and lab != 'ed448':
                rc, out, err = M.run_kg(['-y', '-P', '', '-f', path])
                if rc != 0 or M.line_blob(out)[1] != key.public_data:
                    fails.append(Failure('interop:ssh-keygen-rejects:file-written-by-' + api,
                                         'ssh-keygen -y rc=%d on the file %s wrote: %s' % (rc, api, err[:160]), rep))
            # the public key writers are not restricted: a public key file is meant to be readable
            os.unlink(path)
    finally:
        os.umask(old)
    return fails, n


# ---------------------------------------------------------------------------
# RFC 4716 with a long comment


def check_rfc4716_long_comment(key: Any, lab: str, length: int, d: str, idx: int, fill: bytes = b'c') -> Tuple[List[Failure], int]:
    """a comment of any length: the RFC 4716 export is read back by asyncssh and by ssh-keygen -i"""
    M = _M()
    if lab == 'ed448':
        return [], 0
    k = M.fresh_copy(key)
    comment = (fill * length)[:length]
    k.set_comment(comment)
    rep = {'kind': 'rfc4716-long-comment', 'key_type': lab, 'key_pkcs8_der': M.key_blob(key), 'length': length,
           'fill': fill.hex()}
    try:
        text = k.export_public_key('rfc4716')
    except pkmod.KeyExportError as e:
        return [Failure('public-export-refused:rfc4716', 'refused a %d-byte comment: %s' % (length, e), rep)], 1
    fails: List[Failure] = []
    try:
        k2 = asyncssh.import_public_key(text)
        if k2.public_data != k.public_data:
            fails.append(Failure('public-roundtrip:rfc4716:key-differs', '%d-byte comment' % length, rep))
        elif (k2.get_comment_bytes() or b'') != comment:
            fails.append(Failure('comment-lost:public:rfc4716', 'a %d-byte comment came back as %r…'
                                 % (length, (k2.get_comment_bytes() or b'')[:40]), rep))
    except Exception as e:      # noqa: BLE001
        fails.append(Failure('public-roundtrip:rfc4716:import-raises', '%d-byte comment: %s' % (length, e), rep))
    if M.have_ssh_keygen():
        path = M.write_file(os.path.join(d, 'rfcl_%d_%s' % (idx, lab)), text, 0o644)
        rc, out, err = M.run_kg(['-i', '-m', 'RFC4716', '-f', path])
        longest = max(len(l) for l in text.split(b'\n'))
        if rc != 0:
            fails.append(Failure('interop:ssh-keygen-rejects:public-rfc4716:long-comment-line',
                                 'ssh-keygen -i -m RFC4716 cannot read the RFC 4716 export of a %s key with a %d-byte '
                                 'comment (longest line written: %d bytes; RFC 4716 3.3 limits lines to 72 and '
                                 'continues longer header values with a backslash): %s' % (lab, length, longest, err[:80]),
                                 rep))
        elif M.line_blob(out)[1] != k.public_data:
            fails.append(Failure('interop:ssh-keygen-reads-different-key:public-rfc4716',
                                 '%d-byte comment' % length, rep))
    return fails, 1


# ---------------------------------------------------------------------------
# public key out of an OpenSSH private key file


def check_public_from_private(key: Any, lab: str, comment: bytes) -> Tuple[List[Failure], int]:
    """import_public_key on an (unencrypted) OpenSSH private key file: same public key, same comment as
    import_private_key(...).convert_to_public() (and as ssh-keygen -y prints)"""
    M = _M()
    k = M.fresh_copy(key)
    k.set_comment(comment)
    rep = {'kind': 'public-from-private', 'key_type': lab, 'key_pkcs8_der': M.key_blob(key), 'comment': comment.hex()}
    try:
        data = k.export_private_key('openssh')
    except pkmod.KeyExportError:
        return [], 0
    try:
        p = asyncssh.import_public_key(data)
    except Exception as e:      # noqa: BLE001
        return [Failure('public-from-private:openssh:import-raises', '%s: %s' % (type(e).__name__, e), rep)], 1
    fails = []
    if p.public_data != k.public_data:
        fails.append(Failure('public-from-private:openssh:key-differs', 'another public key (%s)' % lab, rep))
    if (p.get_comment_bytes() or b'') != comment:
        fails.append(Failure('comment-lost:public-from-private:openssh',
                             'import_public_key of an OpenSSH private key file with comment %r returns comment %r; '
                             'import_private_key(...).convert_to_public() keeps it' % (comment[:40], p.get_comment_bytes()),
                             rep))
    return fails, 1


# ---------------------------------------------------------------------------


def run_all(ctx: Any, keys: List[Tuple[str, Any]], d: str, rng: Any, thorough: bool, hist: Any) -> Tuple[List[Failure], int]:
    M = _M()
    fails: List[Failure] = []
    total = 0

    def acc(name: str, r: Tuple[List[Failure], int]) -> None:
        nonlocal total
        fails.extend(r[0])
        total += r[1]
        hist.hit(name, r[1])

    def guarded(name: str, fn: Any, *a: Any) -> None:
        acc(name, M.leg(name, 'list,int')(fn)(*a))

    guarded('ec-public-point-forms', check_ec_public_point_forms, d)

    # bytes / str passphrases: corpus (one PKCS#12-KDF cipher, PBES1-MD5/SHA1, PBES2, PKCS#1) + rotating combinations
    bykey = dict(keys)
    small = [(l, bykey[l]) for l in ('ed25519', 'p256', 'rsa2048') if l in bykey] or keys[:1]
    corpus = [('pkcs8-der', 'des3-cbc', 'sha1', 1), ('pkcs8-pem', 'rc4-128', 'sha1', 1), ('pkcs8-der', 'des2-cbc', 'sha1', 1),
              ('pkcs8-der', 'des-cbc', 'sha1', 1), ('pkcs8-der', 'aes256-cbc', 'sha256', 2), ('pkcs1-pem', 'aes128-cbc', 'sha1', 2)]
    for i, (fmt, cipher, h, v) in enumerate(corpus):
        lab, key = small[i % len(small)]
        for p in ('abc', b'abc', 'päss 密'):
            r = M.leg('passphrase-types', 'list')(check_passphrase_types)(key, lab, fmt, p, cipher, h, v)
            acc('passphrase-types:corpus', (r, 1))
    combos = [(f, c, h, v) for c, h, v in M.PKCS8_COMBOS for f in ('pkcs8-pem', 'pkcs8-der')] + \
             [('pkcs1-pem', c, 'sha1', 2) for c in M.PKCS1_CIPHERS]
    for _ in range(60 if thorough else 12):
        fmt, cipher, h, v = rng.choice(combos)
        lab, key = rng.choice(keys)
        p = rng.choice(['pw', b'pw', 'x' * 70, b'\xc3\xa9t\xc3\xa9', 'пароль', b' sp ace '])
        r = M.leg('passphrase-types', 'list')(check_passphrase_types)(key, lab, fmt, p, cipher, h, v)
        acc('passphrase-types:random', (r, 1))

    # comments ssh-keygen has to cope with
    idx = 0
    for c in KEYGEN_COMMENTS:
        lab, key = small[idx % len(small)]
        guarded('ssh-keygen-comment:corpus', check_keygen_comment, key, lab, c, d, idx)
        idx += 1
    for _ in range(20 if thorough else 5):
        lab, key = rng.choice(small)
        c = M.gen_comment(rng).replace(b'\n', b'')
        guarded('ssh-keygen-comment:random', check_keygen_comment, key, lab, c.strip(), d, idx)
        idx += 1

    guarded('openssh-container-corners', check_container_corners, rng, 200 if thorough else 40)

    for i, (lab, key) in enumerate(keys if thorough else small):
        guarded('writer-file-mode', check_writer_modes, key, lab, d, i, 'openssh')
    guarded('writer-file-mode', check_writer_modes, small[0][1], small[0][0], d, 99, 'pkcs8-pem')

    lengths = [61, 62, 200, 1000, 1020, 5000] + [rng.randint(1, 3000) for _ in range(6 if thorough else 2)]
    for i, ln in enumerate(lengths):
        lab, key = small[i % len(small)]
        guarded('rfc4716-long-comment', check_rfc4716_long_comment, key, lab, ln, d, i,
                rng.choice([b'c', b'ab ', b'x: y ', b'\\', b'q"']) if i >= 6 else b'c')

    for i, (lab, key) in enumerate(keys if thorough else small):
        guarded('public-from-private', check_public_from_private, key, lab, rng.choice([b'me@host', b'two words', b'\xff']))
    return fails, total


def replay(ctx: Any, r: Dict[str, Any]) -> Optional[List[Failure]]:
    M = _M()
    kind = r.get('kind')
    if kind == 'ec-point-form' and str(r.get('container', '')).startswith('spki'):
        fs, _n = check_ec_public_point_forms(ctx.tmpdir())
        return [f for f in fs if f.replay.get('form') == r.get('form') and f.replay.get('container') == r.get('container')
                and f.replay.get('curve') == r.get('curve')]
    if kind == 'passphrase-types':
        return check_passphrase_types(M._key_from(r), r['key_type'], r['format'], M._unpp(r['passphrase']), r['cipher'],
                                      r['hash'], r['pbe_version'])
    if kind == 'keygen-comment':
        return check_keygen_comment(M._key_from(r), r['key_type'], bytes.fromhex(r['comment']), ctx.tmpdir(), 0)[0]
    if kind == 'writer-mode':
        return [f for f in check_writer_modes(M._key_from(r), r['key_type'], ctx.tmpdir(), 0, r['format'])[0]
                if f.replay.get('api') == r.get('api')]
    if kind == 'rfc4716-long-comment':
        return check_rfc4716_long_comment(M._key_from(r), r['key_type'], r['length'], ctx.tmpdir(), 0,
                                          bytes.fromhex(r['fill']))[0]
    if kind == 'public-from-private':
        return check_public_from_private(M._key_from(r), r['key_type'], bytes.fromhex(r['comment']))[0]
    return None
