"""C03 — Key exchange binds the whole negotiation; no silent downgrade.

Lean: Model/KexInit.lean (KEXINIT codec, _choose_alg, negotiation), Model/KexHash.lean (exchange-hash input per
message form, DH range checks, group choice), Model/KexMachine.lean (client, server and an on-path editor who may
deliver arbitrary bytes), Props/C03.lean (choose_first_client_pref, negotiated_names_agree, hash_input_injective,
no_downgrade, session_id_agree, dh_range, ...), over tables and expressions regenerated into Gen/C03.lean.
Correspondence: live handshakes between two real endpoints through the in-memory hub with one field-level or
byte-level edit of a version line, a KEXINIT or a key-exchange message; the Lean client and server machines are run
on the payloads each real endpoint received (with the recorded outcomes of the secret computations as the abstract
primitives) and must reproduce outcome class, negotiated names, every message sent and, byte for byte, every input
the real code fed to the exchange hash (captured by a recording hash); `_choose_alg` is enumerated against
`chooseAlg`.
Oracle: on the real code, no effective edit ever ends in a completed handshake, a completed handshake has the same
session id, K, names and hash input on both sides, names (the server host key algorithm included) are the first client
preference the server supports, out-of-range DH values are answered with ProtocolError, shifted field boundaries never
give the same hash input, a handshake that fails does so with an SSH error class and never with a raw Python
exception; a connection of a listener signs with the host key algorithm it negotiated itself whatever other
connections of that listener negotiate meanwhile (two real connections sharing one options object, interleaved by
hand), and a client never completes against a server that answers with a host key of another type than negotiated or
with a signature made with another signature algorithm (a real client against a real server made to lie).
"""

from __future__ import annotations

import ast
import asyncio
import importlib
import itertools
import random
from typing import Any, Callable, Dict, List, Optional, Tuple

import asyncssh
from asyncssh import connection as connmod

import capture
import pair
import translate as T
import vlib
from vlib import Ctx, CorrResult, OracleResult, Failure, Disagreement, Hist, hx

from props import _c03_translate as tr
from props import _c03_wire as W

PROPERTY = 'C03'
MANIFEST = {
    'text': 'Lean 4 theorems about an executable three-party model (client, server, on-path editor delivering ANY '
            'bytes) of asyncssh\'s first key exchange, over tables and checks regenerated from the code on every run: '
            '_choose_alg is client_list.find?(in server_list) from both roles (choose_first_client_pref) and all eight '
            'negotiated names, the server host key algorithm included, agree (negotiated_names_agree, '
            'host_key_alg_first_client_pref); the byte string fed to the exchange hash determines '
            'V_C,V_S,I_C,I_S,K_S,gex request,p,g,e,f,K for every message form (hash_input_injective*, '
            'gex_request_form_bound); under an injective hash and an ideal host-key signature, a client that accepts '
            'holds exactly the record the server signed (no_downgrade, no_downgrade_fields, session_id_agree), its '
            'host key fits the negotiated host key algorithm and both signatures name that algorithm\'s signature '
            'algorithm (host_key_alg_bound); a second connection of the same listener cannot change the algorithm a '
            'connection signs with (listener_signs_with_own_alg; the behaviour before the repairs is kept as '
            'serverStepPreFix / clientVerifyPreFix with machine-checked witnesses); DH values outside [1,p-1] are '
            'rejected (dh_range*). Tied to the code by the translator (incl. host_key_alg_bound_in_code) and by live '
            'edited handshakes whose hash inputs, messages, names and outcomes the model must reproduce.',
    'note': 'hash collision resistance and signature unforgeability are hypotheses (never axioms); GSS key exchange '
            'is not available here (no gssapi) and only its names are listed; cleartext packet framing is C02\'s '
            'subject; re-keying after the first exchange is C11\'s',
    'technique': 'Lean 4 proof (framing injectivity + invariants over an editor-driven machine, symbolic crypto) + '
                 'translator + live MITM differential correspondence with a recording hash',
}
LEAN_PROPS = ['AsyncsshModel.Props.C03']
DRIVER = 'Drivers/C03.lean'
TRUSTED = ['injective exchange hash on the inputs used (hypothesis HashInjective)',
           'ideal signature under every host key the client trusts (hypothesis IdealSignature)',
           'PyCA / liboqs primitives (DH, ECDH, ML-KEM, RSA-OAEP, Ed25519) compute what they claim',
           'the client\'s host key trust decision itself is property C04']
ASSUMPTIONS = ['algorithm names contain no comma and are not empty; the cookie has 16 bytes (CfgWF)',
               'no configured kex name equals a KEXINIT pseudo-algorithm (MarkerFree; proved for the registry)',
               'first key exchange of a connection; no GSS key exchange']

C2S, S2C = pair.C2S, pair.S2C


def translate(ctx: Ctx) -> Dict[str, Any]:
    return tr.generate()


# ---------------------------------------------------------------------------
# static knowledge about the registry (names only; the behaviour comes from the code under test)

def kex_algs() -> List[str]:
    kexmod = importlib.import_module('asyncssh.kex')
    return [a.decode() for a in kexmod.get_kex_algs() if not a.startswith(b'gss-')]


def form_of(alg: str) -> str:
    if alg.startswith('diffie-hellman-group-exchange'):
        return 'gex'
    if alg.startswith('diffie-hellman-group'):
        return 'dh'
    if alg.startswith('rsa'):
        return 'rsa'
    if alg.startswith(('mlkem', 'sntrup')):
        return 'hybrid'
    return 'ecdh'


SLOW_KEX = ('group16', 'group17', 'group18', 'group1-sha1', 'rsa2048')
ENC5 = ['aes128-ctr', 'aes256-ctr', 'aes128-gcm@openssh.com', 'chacha20-poly1305@openssh.com', 'aes192-ctr']
MAC5 = ['hmac-sha2-256', 'hmac-sha2-512-etm@openssh.com', 'hmac-sha1', 'umac-64@openssh.com', 'hmac-sha2-256-etm@openssh.com']
KEX5 = ['curve25519-sha256', 'ecdh-sha2-nistp256', 'curve448-sha512', 'ecdh-sha2-nistp384', 'curve25519-sha256@libssh.org']
CMP3 = ['none', 'zlib@openssh.com', 'zlib']

_KEYS: Dict[str, Any] = {}


def host_keys() -> Tuple[Any, Any]:
    if 'a' not in _KEYS:
        _KEYS['a'] = asyncssh.generate_private_key('ssh-ed25519')
        _KEYS['b'] = asyncssh.generate_private_key('ssh-ed25519')
    return _KEYS['a'], _KEYS['b']


def rsa_host_key() -> Any:
    """a second host key of another type (one RSA key serves seven host key algorithm names)"""
    if 'rsa' not in _KEYS:
        _KEYS['rsa'] = asyncssh.generate_private_key('ssh-rsa', key_size=2048)
    return _KEYS['rsa']


def small_rsa_blob() -> bytes:
    """public blob of an RSA key too small to encrypt the secret of any RSA key exchange method"""
    if 'small' not in _KEYS:
        _KEYS['small'] = asyncssh.generate_private_key('ssh-rsa', key_size=1024).public_data
    return _KEYS['small']


RSA_ALGS = ['rsa-sha2-256', 'rsa-sha2-512', 'ssh-rsa']


def key_algs_of_blob(blob: bytes) -> List[str]:
    """the host key algorithms a host key blob can be used with (a primitive of the model: `keyAlgs`)"""
    pk = importlib.import_module('asyncssh.public_key')
    try:
        return [a.decode('latin1') for a in pk.decode_ssh_certificate(blob).host_key_algorithms]
    except Exception:
        pass
    try:
        return [a.decode('latin1') for a in pk.decode_ssh_public_key(blob).sig_algorithms]
    except Exception:
        return []


def rsa_encrypt_error(trans: bytes) -> str:
    """why the client cannot encrypt to a transient key blob (a primitive of the model: `rsaEncrypt`)"""
    pk = importlib.import_module('asyncssh.public_key')
    rsa = importlib.import_module('asyncssh.rsa')
    try:
        key = pk.decode_ssh_public_key(trans)
    except Exception:
        return 'proto'
    return 'kexfail' if isinstance(key, rsa.RSAKey) else 'proto'


def split_sig(sig: bytes) -> Tuple[Optional[bytes], bytes]:
    """(algorithm name, rest) of a signature blob"""
    if len(sig) >= 4 and int.from_bytes(sig[:4], 'big') <= len(sig) - 4:
        n = int.from_bytes(sig[:4], 'big')
        return sig[4:4 + n], sig[4 + n:]
    return None, sig


SSH_ERROR_CLASSES = set(n for n in dir(asyncssh) if isinstance(getattr(asyncssh, n), type)
                        and issubclass(getattr(asyncssh, n), asyncssh.Error))
HARNESS_OUTCOMES = {'ok', 'stall', 'open', 'closed', 'cancelled'}


# ---------------------------------------------------------------------------
# recording hash (outside interception: the kex object's hash constructor is wrapped as it is created)

class RecHash:
    def __init__(self, real: Any, log: List[Dict[str, Any]]):
        self.real, self.log = real, log

    def __call__(self, data: bytes = b'') -> Any:
        h = self.real()
        entry: Dict[str, Any] = {'init': bytes(data), 'chunks': []}
        self.log.append(entry)
        if data:
            h.update(data)

        class H:
            digest_size = h.digest_size
            block_size = getattr(h, 'block_size', 64)
            name = h.name

            def update(self, d: bytes) -> None:
                entry['chunks'].append(bytes(d))
                h.update(d)

            def digest(self) -> bytes:
                return h.digest()

            def hexdigest(self) -> str:
                return h.hexdigest()
        return H()


class KexTap:
    """records (connection, negotiated kex name, hash log) for every kex object created"""

    def __init__(self) -> None:
        self.recs: List[Tuple[Any, str, List[Dict[str, Any]]]] = []

    def __enter__(self) -> 'KexTap':
        self._orig = connmod.get_kex
        tap = self

        def get_kex(conn: Any, alg: bytes) -> Any:
            k = tap._orig(conn, alg)
            log: List[Dict[str, Any]] = []
            tap.recs.append((conn, alg.decode('latin1'), log))
            try:
                k._hash_alg = RecHash(k._hash_alg, log)
            except AttributeError:
                pass
            return k
        connmod.get_kex = get_kex          # type: ignore
        return self

    def __exit__(self, *a: Any) -> None:
        connmod.get_kex = self._orig       # type: ignore

    def for_conn(self, conn: Any) -> Tuple[Optional[str], Optional[bytes], List[bytes]]:
        """(kex name, exchange-hash input, its update chunks) of the first exchange of a connection"""
        for c, alg, log in self.recs:
            if c is conn:
                for e in log:
                    if not e['init'] and len(e['chunks']) >= 4:
                        return alg, b''.join(e['chunks']), e['chunks']
                return alg, None, []
        return None, None, []


# ---------------------------------------------------------------------------
# the editor in the hub

class HsEditor:
    """hub.filter for the cleartext phase: write 0 of a direction is the version line, every later write is one
    packet until that direction has sent NEWKEYS.  `edit` = (direction, target, fn) with target 'version',
    'kexinit', 'newkeys' or ('kex', i) (i-th kex-range message of that direction); fn maps the line / payload
    to the bytes / list of payloads delivered instead."""

    def __init__(self, edit: Any):
        # one edit, or a list of edits (at most one per (direction, target)); `self.edit` is the one being applied
        self.edits: List[Tuple[str, Any, Callable[[bytes], Any]]] = \
            list(edit) if isinstance(edit, list) else ([edit] if edit else [])
        self.edit: Optional[Tuple[str, Any, Callable[[bytes], Any]]] = None
        self.n = {C2S: 0, S2C: 0}
        self.clear = {C2S: True, S2C: True}
        self.kexidx = {C2S: 0, S2C: 0}
        self.cut = {C2S: False, S2C: False}
        self.sent: Dict[str, List[bytes]] = {C2S: [], S2C: []}
        self.delivered: Dict[str, List[bytes]] = {C2S: [], S2C: []}
        self.applied = False
        self.problem: Optional[str] = None

    def __call__(self, direction: str, data: bytes) -> bytes:
        idx = self.n[direction]
        self.n[direction] += 1
        if self.cut[direction]:
            return b''
        if idx == 0:
            self.sent[direction].append(data)
            out = data
            self.edit = next((e for e in self.edits if e[0] == direction and e[1] == 'version'), None)
            if self.edit and self.edit[0] == direction and self.edit[1] == 'version':
                out = self.edit[2](data)
                self.applied = True
            if not out.endswith(b'\n'):
                self.problem = 'version edit without LF'
            self.delivered[direction] += out.split(b'\n')[:-1]
            return out
        if not self.clear[direction]:
            return data
        try:
            payload, _pad = W.unframe(data)
        except W.Bad as e:
            self.problem = f'write {idx} of {direction} is not one cleartext packet: {e}'
            self.clear[direction] = False
            return data
        self.sent[direction].append(payload)
        t = payload[0] if payload else -1
        target: Any = 'other'
        if t == W.MSG_KEXINIT:
            target = 'kexinit'
        elif t == W.MSG_NEWKEYS:
            target = 'newkeys'
            self.clear[direction] = False
        elif 30 <= t <= 49:
            target = ('kex', self.kexidx[direction])
            self.kexidx[direction] += 1
        self.edit = next((e for e in self.edits if e[0] == direction and e[1] == target), None)
        if self.edit and self.edit[0] == direction and self.edit[1] == target:
            try:
                res = self.edit[2](payload)
            except Exception as e:          # the edit does not apply to this payload: relay it
                self.problem = f'edit raised {type(e).__name__}: {e}'
                self.delivered[direction].append(payload)
                return data
            self.applied = True
            if isinstance(res, tuple) and res[0] == 'frame':      # same payload, other padding
                self.delivered[direction].append(payload)
                return res[1]
            outs = res if isinstance(res, list) else [res]
            self.delivered[direction] += outs
            if target == 'newkeys' and outs != [payload]:
                self.cut[direction] = True
            return b''.join(W.frame(p) for p in outs)
        self.delivered[direction].append(payload)
        return data


class RecServer(pair.DefaultServer):
    lost: List[Any] = []

    def connection_lost(self, exc: Optional[Exception]) -> None:
        RecServer.lost.append(exc)


def _names(l: List[str]) -> str:
    return ','.join(l) if l else '.'


def default_cfg(kex: List[str]) -> Dict[str, List[str]]:
    return {'kex': list(kex), 'hostkey': ['ssh-ed25519'], 'enc': ['aes128-ctr', 'chacha20-poly1305@openssh.com'],
            'mac': ['hmac-sha2-256', 'hmac-sha1'], 'cmp': ['none']}


def server_keys_for(scfg: Dict[str, List[str]]) -> List[Any]:
    """the host keys of a server configuration: the Ed25519 key, and the RSA key when the list names an RSA algorithm"""
    ka, _kb = host_keys()
    return [ka] + ([rsa_host_key()] if any(a in RSA_ALGS for a in scfg['hostkey']) else [])


async def run_session(ccfg: Dict[str, List[str]], scfg: Dict[str, List[str]],
                      edit: Optional[Tuple[str, Any, Callable[[bytes], Any]]] = None,
                      trust_other_key: bool = False) -> Dict[str, Any]:
    """One real handshake with at most one edit.  Everything observable goes into the result dict."""
    ka, kb = host_keys()
    loop = asyncio.get_event_loop()
    hub = pair.Hub(loop)
    ed = HsEditor(edit)
    hub.filter = ed
    RecServer.lost = []
    skeys = server_keys_for(scfg)
    out: Dict[str, Any] = {'ccfg': ccfg, 'editor': ed}
    sopts = dict(server_host_keys=skeys, kex_algs=scfg['kex'], encryption_algs=scfg['enc'], mac_algs=scfg['mac'],
                 compression_algs=scfg['cmp'], server_version='Srv_1.0')
    trusted = [kb] if trust_other_key else skeys
    copts = dict(known_hosts=([k.convert_to_public() for k in trusted], [], []),
                 kex_algs=ccfg['kex'], encryption_algs=ccfg['enc'], mac_algs=ccfg['mac'],
                 compression_algs=ccfg['cmp'], server_host_key_algs=ccfg['hostkey'], client_version='Cli_1.0')
    with KexTap() as kt, capture.KeyTap() as keys:
        try:
            shared = await pair.make_server_options(RecServer, **sopts)
            # the server offers the algorithms of its keys, in the order of its key table
            scfg = dict(scfg, hostkey=[a.decode() for a in shared.server_host_keys.keys()])
            out['hostkey_map'] = {a.decode(): kp.public_data for a, kp in shared.server_host_keys.items()}
            coro, sconn, hub = await pair.make_pair(server_factory=RecServer, server_opts=dict(shared_options=shared),
                                                    client_opts=copts, hub=hub, connect=False)
        except Exception as e:
            out['setup_error'] = f'{type(e).__name__}: {e}'
            out['scfg'] = scfg
            return out
        out['scfg'] = scfg
        out['trusted_blobs'] = [k.public_data for k in trusted]
        task = asyncio.ensure_future(coro)
        idle, last, idle_since = 0, (-1, -1), None
        for _ in range(200000):
            await asyncio.sleep(0)
            if task.done():
                break
            cur = (hub.steps, len(hub.writes[C2S]) + len(hub.writes[S2C]))
            quiet = cur == last and bool(hub.trans) and not hub.queues[C2S] and not hub.queues[S2C]
            last = cur
            if not quiet:
                idle, idle_since = 0, None
                continue
            idle += 1
            ct0 = hub.trans.get('client')
            accepted = ct0 is not None and id(ct0.proto) in keys.keys
            if not accepted:
                if idle > 40:           # the cleartext handshake has no asynchronous step: nothing will move again
                    break
            else:                       # authentication may sit in an executor for a moment
                if idle_since is None:
                    idle_since = loop.time()
                elif loop.time() - idle_since > 0.25:
                    break
                await asyncio.sleep(0.001)
        cconn = None
        if task.done() and task.exception() is not None if not task.cancelled() else False:
            await pair.settle(12)       # let the peer read the DISCONNECT the failing client wrote
        if task.done():
            try:
                cconn = task.result()
                out['client'] = 'ok'
            except asyncio.CancelledError:
                out['client'] = 'cancelled'
            except BaseException as e:       # whatever the (possibly broken) code under test raises
                out['client'] = type(e).__name__
                out['client_msg'] = str(e)[:120]
        else:
            out['client'] = 'stall'
            task.cancel()
            try:
                await task
            except BaseException:
                pass
        ct = hub.trans.get('client')
        cobj = cconn or (ct.proto if ct is not None else None)
        if RecServer.lost:
            e0 = RecServer.lost[0]
            out['server'] = type(e0).__name__ if e0 is not None else 'closed'
        else:
            out['server'] = 'ok' if out['client'] == 'ok' else 'open'
        out['kex'] = {'client': kt.for_conn(cobj) if cobj is not None else (None, None, []),
                      'server': kt.for_conn(sconn)}
        # "derived keys" counts only with evidence on the wire (NEWKEYS written): after a failure asyncssh may still
        # run handlers on buffered input with the transport already gone
        def sent_newkeys(d: str) -> bool:
            return any(p[:1] == bytes([W.MSG_NEWKEYS]) for p in ed.sent[d][1:])
        out['keys'] = {'client': (keys.keys.get(id(cobj)) or [None])[0]
                       if cobj is not None and sent_newkeys(C2S) else None,
                       'server': (keys.keys.get(id(sconn)) or [None])[0] if sent_newkeys(S2C) else None}
        neg: Dict[str, Any] = {}
        for role, conn in (('client', cobj), ('server', sconn)):
            if conn is None or out['keys'][role] is None:
                neg[role] = None
                continue
            g = conn.get_extra_info
            if role == 'client':
                neg[role] = [g('send_cipher'), g('recv_cipher'), g('send_mac'), g('recv_mac'),
                             g('send_compression'), g('recv_compression')]
            else:
                neg[role] = [g('recv_cipher'), g('send_cipher'), g('recv_mac'), g('send_mac'),
                             g('recv_compression'), g('send_compression')]
        out['neg'] = neg       # [encCS, encSC, macCS, macSC, cmpCS, cmpSC]
        for conn in (cobj, sconn):
            try:
                if conn is not None:
                    conn.abort()
            except Exception:
                pass
        await pair.settle(8)
    out['hostkey_blob'] = ka.public_data
    out['other_hostkey_blob'] = kb.public_data
    return out


# ---------------------------------------------------------------------------
# edits

def _flip(b: bytes, pos: int, bit: int = 1) -> bytes:
    x = bytearray(b)
    x[pos] ^= bit
    return bytes(x)


def version_edits(rng: random.Random, direction: str) -> List[Tuple[str, Callable[[bytes], bytes], str]]:
    """(label, fn, expectation) — expectation: 'effective' | 'neutral'"""
    eds: List[Tuple[str, Callable[[bytes], bytes], str]] = [
        ('software-char', lambda l: l[:10] + bytes([l[10] ^ 1]) + l[11:], 'effective'),
        ('proto-1.99', lambda l: l.replace(b'SSH-2.0-', b'SSH-1.99-', 1), 'effective'),
        ('strip-cr', lambda l: l.replace(b'\r\n', b'\n'), 'neutral'),
        ('append-comment', lambda l: l[:-2] + b' x\r\n', 'effective'),
        ('double-cr', lambda l: l[:-2] + b'\r\r\n', 'effective'),
        ('trailing-space', lambda l: l[:-2] + b' \r\n', 'effective'),
        ('proto-1.5', lambda l: b'SSH-1.5-old\r\n', 'effective'),
        ('too-long', lambda l: l[:-2] + b'y' * 260 + b'\r\n', 'effective'),
        ('garbage', lambda l: bytes(rng.randrange(32, 127) for _ in range(12)) + b'\r\n', 'effective'),
        ('case', lambda l: l.replace(b'SSH-', b'ssh-', 1), 'effective'),
        ('high-byte', lambda l: l[:12] + bytes([l[12] | 0x80]) + l[13:], 'effective'),
    ]
    if direction == S2C:
        eds.append(('banner-before', lambda l: b'welcome to the machine\r\n' + l, 'neutral'))
        eds.append(('two-banners', lambda l: b'a\nb\r\n' + l, 'neutral'))
    return eds


def kexinit_edits(rng: random.Random) -> List[Tuple[str, Callable[[bytes], Any], str]]:
    def with_k(f: Callable[[Dict[str, Any]], None]) -> Callable[[bytes], bytes]:
        def g(p: bytes) -> bytes:
            k = W.parse_kexinit(p)
            f(k)
            return W.build_kexinit(k)
        return g

    def drop_first(field: str) -> Callable[[Dict[str, Any]], None]:
        def f(k: Dict[str, Any]) -> None:
            if k[field]:
                k[field] = k[field][1:]
        return f

    def rotate(field: str) -> Callable[[Dict[str, Any]], None]:
        def f(k: Dict[str, Any]) -> None:
            if len(k[field]) > 1:
                k[field] = k[field][1:] + k[field][:1]
        return f

    def keep_last(field: str) -> Callable[[Dict[str, Any]], None]:
        def f(k: Dict[str, Any]) -> None:
            real = [a for a in k[field] if not a.startswith((b'ext-info', b'kex-strict'))]
            extra = [a for a in k[field] if a.startswith((b'ext-info', b'kex-strict'))]
            if real:
                k[field] = real[-1:] + extra
        return f

    def setf(field: str, v: Any) -> Callable[[Dict[str, Any]], None]:
        def f(k: Dict[str, Any]) -> None:
            k[field] = v
        return f

    def no_markers(k: Dict[str, Any]) -> None:
        k['kex'] = [a for a in k['kex'] if not a.startswith((b'ext-info', b'kex-strict'))]

    def no_strict(k: Dict[str, Any]) -> None:
        k['kex'] = [a for a in k['kex'] if not a.startswith(b'kex-strict')]

    eds: List[Tuple[str, Callable[[bytes], Any], str]] = [
        ('cookie-bit', lambda p: _flip(p, 1 + rng.randrange(16), 1 << rng.randrange(8)), 'effective'),
        ('kex-drop-first', with_k(drop_first('kex')), 'effective'),
        ('kex-keep-last', with_k(keep_last('kex')), 'effective'),
        ('kex-rotate', with_k(rotate('kex')), 'effective'),
        ('enc-cs-drop-first', with_k(drop_first('enc_cs')), 'effective'),
        ('enc-sc-keep-last', with_k(keep_last('enc_sc')), 'effective'),
        ('mac-cs-drop-first', with_k(drop_first('mac_cs')), 'effective'),
        ('mac-sc-empty', with_k(setf('mac_sc', [])), 'effective'),
        ('cmp-rotate', with_k(rotate('cmp_cs')), 'effective'),
        ('hostkey-append', with_k(lambda k: k['hostkey'].append(b'ssh-rsa')), 'effective'),
        ('hostkey-replace', with_k(setf('hostkey', [b'ssh-dss'])), 'effective'),
        ('enc-empty', with_k(setf('enc_cs', [])), 'effective'),
        ('enc-non-ascii', with_k(setf('enc_sc', [b'aes\xff-ctr'])), 'effective'),
        ('kex-non-ascii', with_k(lambda k: k['kex'].insert(0, b'\xc3\xa9')), 'effective'),
        ('no-markers', with_k(no_markers), 'effective'),
        ('no-strict', with_k(no_strict), 'effective'),
        ('first-follows', with_k(setf('follows', 1)), 'effective'),
        ('first-follows-wrong-guess', with_k(lambda k: (k['kex'].insert(0, b'guessed-kex'), k.update(follows=1))),
         'effective'),
        ('reserved', with_k(setf('reserved', 1 + rng.randrange(1 << 31))), 'effective'),
        ('lang', with_k(setf('lang_cs', [b'en'])), 'effective'),
        ('trailing-byte', lambda p: p + b'\0', 'effective'),
        ('truncate', lambda p: p[:-1 - rng.randrange(6)], 'effective'),
        ('byte-flip', lambda p: _flip(p, rng.randrange(1, len(p)), 1 << rng.randrange(8)), 'effective'),
        ('as-ignore', lambda p: bytes([W.MSG_IGNORE]) + W.sstr(p[1:40]), 'effective'),
        ('padding-only', lambda p: ('frame', W.frame(p, bytes(rng.randrange(256) for _ in range(
            (-(5 + len(p)) % 8) + 8 * rng.randrange(1, 4))))), 'neutral'),
        ('kex-only-non-ascii', with_k(setf('kex', [b'\xc3\xa9', b'caf\xe9'])), 'effective'),
        ('hostkey-only-non-ascii', with_k(setf('hostkey', [b'ssh-\xff'])), 'effective'),
        ('hostkey-rotate', with_k(rotate('hostkey')), 'effective'),
        ('hostkey-drop-first', with_k(drop_first('hostkey')), 'effective'),
        ('hostkey-keep-last', with_k(lambda k: k.update(hostkey=k['hostkey'][-1:])), 'effective'),
    ]
    return eds


def generic_msgs() -> List[Tuple[str, Callable[[bytes], Any]]]:
    """a message replaced by a transport-generic one (IGNORE, UNIMPLEMENTED, DEBUG), well-formed or not"""
    return [
        ('as-ignore-empty', lambda p: bytes([W.MSG_IGNORE])),
        ('as-ignore-trailing', lambda p: bytes([W.MSG_IGNORE]) + W.sstr(b'x') + b'y'),
        ('as-unimplemented', lambda p: bytes([3]) + (7).to_bytes(4, 'big')),
        ('as-unimplemented-short', lambda p: bytes([3, 0, 0])),
        ('as-debug', lambda p: bytes([4, 1]) + W.sstr('h\u00e9llo'.encode()) + W.sstr(b'en')),
        ('as-debug-bad-utf8', lambda p: bytes([4, 0]) + W.sstr(b'\xff\xfe') + W.sstr(b'')),
        ('as-debug-bad-lang', lambda p: bytes([4, 0]) + W.sstr(b'ok') + W.sstr(b'\xc3\xa9')),
        ('as-debug-short', lambda p: bytes([4, 0]) + W.sstr(b'ok')),
        ('as-disconnect-bad-utf8', lambda p: bytes([1]) + (2).to_bytes(4, 'big') + W.sstr(b'\xc0\x80') + W.sstr(b'')),
    ]


def kexmsg_edits(rng: random.Random, form: str, name: str, other_key: bytes, p_hint: int
                 ) -> List[Tuple[str, Callable[[bytes], Any], str]]:
    """field-level and byte-level edits of one key-exchange message `name` of a method of form `form`"""
    msgno = [n for n, (nm, _s, _f) in W.LAYOUT[form].items() if nm == name][0]

    def with_f(f: Callable[[Dict[str, Any]], None], noncanon: Optional[str] = None) -> Callable[[bytes], bytes]:
        def g(payload: bytes) -> bytes:
            _n, fields = W.parse_kexmsg(form, payload)
            f(fields)
            return W.build_kexmsg(form, msgno, fields, noncanon)
        return g

    def setv(field: str, fn: Callable[[Any], Any]) -> Callable[[Dict[str, Any]], None]:
        def f(fields: Dict[str, Any]) -> None:
            fields[field] = fn(fields[field])
        return f

    def flipb(field: str) -> Callable[[Dict[str, Any]], None]:
        def f(fields: Dict[str, Any]) -> None:
            b = fields[field]
            if b:
                fields[field] = _flip(b, rng.randrange(len(b)), 1 << rng.randrange(8))
        return f
    layout = dict(W.LAYOUT[form][msgno][2])
    eds: List[Tuple[str, Callable[[bytes], Any], str]] = [
        ('byte-flip', lambda p: _flip(p, rng.randrange(1, len(p)), 1 << rng.randrange(8)), 'classify'),
        ('trailing-byte', lambda p: p + b'\0', 'effective'),
        ('truncate', lambda p: p[:-1 - rng.randrange(3)], 'effective'),
        ('random-bytes', lambda p: bytes(rng.randrange(256) for _ in range(rng.randrange(1, 40))), 'effective'),
        ('as-ignore', lambda p: bytes([W.MSG_IGNORE]) + W.sstr(b'x'), 'effective'),
        ('padding-only', lambda p: ('frame', W.frame(p, bytes(rng.randrange(256) for _ in range(
            (-(5 + len(p)) % 8) + 8 * rng.randrange(1, 4))))), 'neutral'),
        ('msg-number', lambda p: bytes([p[0] ^ 1]) + p[1:], 'effective'),
    ]
    for field, kind in layout.items():
        if kind == 'mpint' and field in ('e', 'f'):
            eds += [(f'{field}+1', with_f(setv(field, lambda v: v + 1)), 'effective'),
                    (f'{field}=0', with_f(setv(field, lambda v: 0)), 'range'),
                    (f'{field}=-1', with_f(setv(field, lambda v: -1)), 'range'),
                    (f'{field}=1', with_f(setv(field, lambda v: 1)), 'effective'),
                    (f'{field}=p-1', with_f(setv(field, lambda v: p_hint - 1)), 'effective'),
                    (f'{field}=p', with_f(setv(field, lambda v: p_hint)), 'range'),
                    (f'{field}=p+1', with_f(setv(field, lambda v: p_hint + 1)), 'range'),
                    (f'{field}-noncanonical', with_f(lambda f: None, field), 'neutral')]
        elif kind == 'mpint':          # group parameters
            eds += [(f'{field}+2', with_f(setv(field, lambda v: v + 2)), 'effective'),
                    (f'{field}-noncanonical', with_f(lambda f: None, field), 'neutral')]
            if field == 'p':
                eds += [('p=group1', with_f(setv('p', lambda v: _small_group())), 'effective'),
                        ('p=0', with_f(setv('p', lambda v: 0)), 'effective')]
            if field == 'g':
                eds += [('g=1', with_f(setv('g', lambda v: 1)), 'effective')]
        elif kind == 'u32':
            eds += [(f'{field}-change', with_f(setv(field, lambda v: (v // 2) or 1024)), 'effective'),
                    (f'{field}-big', with_f(setv(field, lambda v: 8192)), 'classify')]
        elif kind == 'string':
            eds += [(f'{field}-flip', with_f(flipb(field)), 'effective'),
                    (f'{field}-empty', with_f(setv(field, lambda v: b'')), 'effective'),
                    (f'{field}-extend', with_f(setv(field, lambda v: v + b'\0')), 'effective')]
            if field == 'hostkey':
                eds.append(('hostkey-other', with_f(setv(field, lambda v: other_key)), 'effective'))
                eds.append(('hostkey-other-type', with_f(setv(field, lambda v: rsa_host_key().public_data)), 'effective'))
            if field == 'trans':
                eds.append(('trans-ed25519', with_f(setv(field, lambda v: other_key)), 'effective'))
                eds.append(('trans-small-rsa', with_f(setv(field, lambda v: small_rsa_blob())), 'effective'))
            if field == 'sig':
                def rename(v: bytes) -> bytes:
                    name, rest = split_sig(v)
                    return W.sstr({b'ssh-ed25519': b'ssh-rsa', b'rsa-sha2-512': b'ssh-rsa',
                                   b'rsa-sha2-256': b'ssh-rsa'}.get(name or b'', b'rsa-sha2-256')) + rest
                eds.append(('sig-other-alg', with_f(setv(field, rename)), 'effective'))
                eds.append(('sig-no-alg', with_f(setv(field, lambda v: v[:3])), 'effective'))
    # (in place of a key-exchange message only: an endpoint that fails on its peer's KEXINIT at once does so while
    # the peer is still inside its own KEXINIT task, and the in-memory link then closes before the DISCONNECT is read)
    eds += [(l, f, 'effective') for l, f in generic_msgs()] + [('empty-payload', lambda p: b'', 'effective')]
    if form == 'gex' and name == 'request':
        eds.append(('to-old-request', lambda p: bytes([30]) + p[5:9], 'effective'))
    return eds


def _small_group() -> int:
    kd = importlib.import_module('asyncssh.kex_dh')
    return kd._dh_gex_groups[0][2]


def group_p(alg: str) -> int:
    """a modulus for range edits: the method's own group (fixed DH) or the 2048-bit one (group exchange default)"""
    kexmod = importlib.import_module('asyncssh.kex')
    kd = importlib.import_module('asyncssh.kex_dh')
    if form_of(alg) == 'dh':
        return kexmod._kex_handlers[alg.encode()][2][1]
    return kd._dh_gex_groups[1][2]


KEXMSG_TARGETS = {
    'dh': [(C2S, 0, 'init'), (S2C, 0, 'reply')],
    'ecdh': [(C2S, 0, 'init'), (S2C, 0, 'reply')],
    'hybrid': [(C2S, 0, 'init'), (S2C, 0, 'reply')],
    'gex': [(C2S, 0, 'request'), (S2C, 0, 'group'), (C2S, 1, 'init'), (S2C, 1, 'reply')],
    'rsa': [(S2C, 0, 'pubkey'), (C2S, 0, 'secret'), (S2C, 1, 'done')],
}


def strip_strict(p: bytes) -> bytes:
    k = W.parse_kexinit(p)
    k['kex'] = [a for a in k['kex'] if not a.startswith(b'kex-strict')]
    return W.build_kexinit(k)


def edit_of(e: Dict[str, Any]) -> Any:
    """what `run_session` takes: the edit of a generated case, preceded by its preparing edit if it has one"""
    main = (e['dir'], e['target'], e['fn'])
    return [e['pre'], main] if e.get('pre') else main


def gen_edit_case(rng: random.Random, alg: str, other_key: bytes) -> Dict[str, Any]:
    """choose one edit for a handshake that negotiates `alg`"""
    form = form_of(alg)
    r = rng.random()
    if r < 0.06:
        # a transport-generic message in place of a key-exchange message, to an endpoint whose peer did not ask
        # for strict key exchange (otherwise the message is refused before its body is looked at)
        d, i, name = rng.choice(KEXMSG_TARGETS[form])
        label, fn = rng.choice(generic_msgs())
        return {'alg': alg, 'dir': d, 'target': ('kex', i), 'label': f'{name}:nonstrict-{label}', 'fn': fn,
                'expect': 'effective', 'pre': (d, 'kexinit', strip_strict)}
    if r < 0.18:
        d = rng.choice([C2S, S2C])
        label, fn, exp = rng.choice(version_edits(rng, d))
        return {'alg': alg, 'dir': d, 'target': 'version', 'label': label, 'fn': fn, 'expect': exp}
    if r < 0.45:
        d = rng.choice([C2S, S2C])
        label, fn, exp = rng.choice(kexinit_edits(rng))
        return {'alg': alg, 'dir': d, 'target': 'kexinit', 'label': label, 'fn': fn, 'expect': exp}
    if r < 0.50:
        d = rng.choice([C2S, S2C])
        label, fn = rng.choice([('trailing-byte', lambda p: p + b'\0'), ('as-ignore', lambda p: bytes([2]) + W.sstr(b'')),
                                ('drop', lambda p: [])])
        return {'alg': alg, 'dir': d, 'target': 'newkeys', 'label': label, 'fn': fn, 'expect': 'effective'}
    d, i, name = rng.choice(KEXMSG_TARGETS[form])
    label, fn, exp = rng.choice(kexmsg_edits(rng, form, name, other_key, group_p(alg) if form in ('dh', 'gex') else 23))
    return {'alg': alg, 'dir': d, 'target': ('kex', i), 'label': f'{name}:{label}', 'fn': fn, 'expect': exp}


def kex_schedule(ctx: Ctx, rng: random.Random, n: int) -> List[str]:
    """every registered method at least once, the rest of the volume on the fast methods"""
    algs = kex_algs()
    fast = [a for a in algs if not any(s in a for s in SLOW_KEX)]
    out = list(algs)
    weights = [a for a in fast if form_of(a) in ('ecdh', 'hybrid')] * 3 + fast
    while len(out) < n:
        out.append(rng.choice(weights))
    rng.shuffle(out)
    return out


# ---------------------------------------------------------------------------
# sessions -> driver lines

def _expected_class(model_phase: str, role: str) -> List[str]:
    """real outcome classes compatible with a model end state"""
    if model_phase == 'done':
        return ['ok']
    if model_phase.startswith('failed:'):
        e = model_phase.split(':', 1)[1]
        m = {'proto': ['ProtocolError', 'ProtocolNotSupported'], 'kexfail': ['KeyExchangeFailed'],
             'hostkey': ['HostKeyNotVerifiable'], 'disc2': ['ProtocolError'], 'disc3': ['KeyExchangeFailed'],
             'disc9': ['HostKeyNotVerifiable'], 'disc8': ['ProtocolNotSupported']}
        if e == 'internal':
            return ['*internal*']
        return m.get(e, ['DisconnectError'])
    # not finished: the real side is still waiting, or saw the peer go away
    return ['stall', 'open', 'ConnectionLost', 'closed']


def session_lines(s: Dict[str, Any]) -> Tuple[List[str], List[Tuple[str, Dict[str, Any], Any]]]:
    """driver lines for one session plus, per line, (kind, case, expected real observation)"""
    ed: HsEditor = s['editor']
    lines: List[str] = []
    expect: List[Tuple[str, Dict[str, Any], Any]] = []
    if not ed.sent[C2S] or not ed.sent[S2C]:
        return lines, expect
    for role in ('client', 'server'):
        own, peer = (C2S, S2C) if role == 'client' else (S2C, C2S)
        cfg = s['ccfg'] if role == 'client' else s['scfg']
        sent = ed.sent[own]
        version = sent[0].rstrip(b'\r\n')
        own_kexinit = next((p for p in sent[1:] if p and p[0] == W.MSG_KEXINIT), None)
        cookie = own_kexinit[1:17] if own_kexinit else b'\0' * 16
        alg, hinput, chunks = s['kex'][role]
        form = form_of(alg) if alg else None
        script: Dict[str, str] = {}
        kexmsgs = [p for p in sent[1:] if p and 30 <= p[0] <= 49]
        parsed: Dict[str, Dict[str, Any]] = {}
        if form:
            for p in kexmsgs:
                try:
                    nm, f = W.parse_kexmsg(form, p)
                    parsed[nm] = f
                except W.Bad:
                    pass
        k_own = chunks[-1] if chunks else None
        if role == 'client':
            _salg, shinput, _sch = s['kex']['server']
            script['tk'] = ','.join(hx(b) for b in s.get('trusted_blobs', [s['hostkey_blob']]))
            script['vh'] = hx(shinput) if shinput is not None else 'none'
            ssent = [p for p in ed.sent[S2C][1:] if p and 30 <= p[0] <= 49]
            sform = form_of(s['kex']['server'][0]) if s['kex']['server'][0] else None
            sig = signer = None
            if sform:
                for p in ssent:
                    try:
                        _nm, f = W.parse_kexmsg(sform, p)
                        sig = f.get('sig', sig)
                        signer = f.get('hostkey', signer)
                    except W.Bad:
                        pass
            script['vs'] = hx(sig) if sig is not None else 'none'
            script['vk'] = hx(signer) if signer is not None else 'none'      # the key that made that signature
            # the host key blob the client was handed, and what it can be used with
            got_hk = None
            if form:
                for p in ed.delivered[S2C]:
                    if p and 30 <= p[0] <= 49:
                        try:
                            _nm, f = W.parse_kexmsg(form, p)
                            got_hk = f.get('hostkey', got_hk)
                        except W.Bad:
                            pass
            script['ka'] = _names(key_algs_of_blob(got_hk)) if got_hk is not None else '.'
            script['e'] = str(parsed['init']['e']) if 'init' in parsed and 'e' in parsed['init'] else 'none'
            script['qc'] = hx(parsed['init']['qc']) if 'init' in parsed and 'qc' in parsed['init'] else '-'
            script['kc'] = hx(k_own) if k_own is not None else 'none'
            if 'secret' in parsed:
                script['rsa'] = hx(parsed['secret']['enck']) + ':' + (hx(k_own) if k_own is not None else '00')
            elif form == 'rsa':
                trans = None
                for p in ed.delivered[S2C]:
                    if p and p[0] == 30:
                        try:
                            _nm, f = W.parse_kexmsg(form, p)
                            trans = f.get('trans', trans)
                        except W.Bad:
                            pass
                if trans is not None:
                    script['rsa'] = 'err:' + rsa_encrypt_error(trans)
        else:
            script['hk'] = ','.join(f'{a}:{hx(b)}' for a, b in s.get('hostkey_map', {}).items()) or \
                'ssh-ed25519:' + hx(s['hostkey_blob'])
            rep = parsed.get('reply') or parsed.get('done') or {}
            script['sigraw'] = hx(split_sig(rep['sig'])[1]) if 'sig' in rep else '-'
            script['f'] = str(rep['f']) if 'f' in rep else 'none'
            script['qs'] = hx(rep['qs']) if 'qs' in rep else 'none'
            script['ks'] = hx(k_own) if k_own is not None else 'none'
            script['trans'] = hx(parsed['pubkey']['trans']) if 'pubkey' in parsed else '-'
            script['rsak'] = hx(k_own) if k_own is not None else 'err:kexfail'
        delivered = ed.delivered[peer]
        line = (f'{role} {hx(version)} {hx(cookie)} {_names(cfg["kex"])} {_names(cfg["hostkey"])} '
                f'{_names(cfg["enc"])} {_names(cfg["mac"])} {_names(cfg["cmp"])} '
                + ';'.join(f'{k}={v}' for k, v in script.items()) + ' '
                + (','.join(hx(m) for m in delivered) if delivered else '.'))
        lines.append(line)
        real_sent = [sent[0]] + [p for p in sent[1:] if p and p[0] != W.MSG_DISCONNECT]
        expect.append(('machine', {'role': role, 'label': s.get('label'), 'alg': s.get('alg'), 'sid': id(s)},
                       {'outcome': s[role], 'kex': alg, 'neg': s['neg'].get(role), 'hash': hinput,
                        'sent': real_sent}))
        # the hash input from independently parsed fields
        if hinput is not None and form:
            hl = hash_line(role, form, ed, parsed, chunks)
            if hl:
                lines.append(hl)
                expect.append(('hash-input', {'role': role, 'alg': alg, 'label': s.get('label')}, hx(hinput)))
    return lines, expect


def hash_line(role: str, form: str, ed: HsEditor, own_parsed: Dict[str, Dict[str, Any]], chunks: List[bytes]
              ) -> Optional[str]:
    own, peer = (C2S, S2C) if role == 'client' else (S2C, C2S)
    sent, deliv = ed.sent[own], ed.delivered[peer]
    own_v = sent[0].rstrip(b'\r\n')
    peer_lines = [W.version_of_line(l) for l in deliv if l.startswith(b'SSH-')]
    if not peer_lines:
        return None
    peer_v = peer_lines[0]
    own_ki = next((p for p in sent[1:] if p and p[0] == W.MSG_KEXINIT), None)
    peer_ki = next((p for p in deliv if p and p[0] == W.MSG_KEXINIT), None)
    if own_ki is None or peer_ki is None:
        return None
    got: Dict[str, Dict[str, Any]] = {}
    for p in deliv:
        if p and 30 <= p[0] <= 49:
            try:
                nm, f = W.parse_kexmsg(form, p)
                got.setdefault(nm, f)
            except W.Bad:
                pass
    vc, vs, ic, is_ = (own_v, peer_v, own_ki, peer_ki) if role == 'client' else (peer_v, own_v, peer_ki, own_ki)
    c_side = own_parsed if role == 'client' else got        # what the client sent
    s_side = got if role == 'client' else own_parsed        # what the server sent
    k = chunks[-1]
    head = f'{hx(vc)} {hx(vs)} {hx(ic)} {hx(is_)}'
    try:
        if form == 'dh':
            return f'hash dh {head} {hx(s_side["reply"]["hostkey"])} {c_side["init"]["e"]} {s_side["reply"]["f"]} {hx(k)}'
        if form == 'gex':
            reqp = next(p for p in (ed.sent[C2S] if role == 'client' else ed.delivered[C2S])[1:]
                        if p and p[0] in (30, 34))
            return (f'hash gex {head} {hx(s_side["reply"]["hostkey"])} {hx(reqp[1:])} {s_side["group"]["p"]} '
                    f'{s_side["group"]["g"]} {c_side["init"]["e"]} {s_side["reply"]["f"]} {hx(k)}')
        if form in ('ecdh', 'hybrid'):
            return (f'hash ecdh {head} {hx(s_side["reply"]["hostkey"])} {hx(c_side["init"]["qc"])} '
                    f'{hx(s_side["reply"]["qs"])} {hx(k)}')
        if form == 'rsa':
            return (f'hash rsa {head} {hx(s_side["pubkey"]["hostkey"])} {hx(s_side["pubkey"]["trans"])} '
                    f'{hx(c_side["secret"]["enck"])} {hx(k)}')
    except (KeyError, StopIteration):
        return None
    return None


def compare_machine(model: str, real: Dict[str, Any], role: str, peer_done: bool = True) -> Optional[str]:
    """None if the model line agrees with the real observations, else a description.  `peer_done`: the model of
    the other endpoint finished too (a connection is only reported as established when both did)."""
    parts = model.split(' ')
    if len(parts) != 5:
        return f'unparseable model output {model[:80]!r}'
    phase, neg_now, neg_acc, hash_acc, outs = parts
    want = _expected_class(phase, role)
    got = real['outcome']
    if phase == 'done' and not peer_done:
        if got == 'ok':
            return 'outcome: real connection established although the model of the peer did not finish'
    elif want == ['*internal*']:
        if got in ('ok', 'stall', 'open'):
            return f'outcome: model {phase}, real {got}'
    elif got not in want:
        # a client that has accepted and then loses the peer reports the peer's problem
        if not (phase in ('accepted', 'sentnewkeys') and got not in ('ok',)):
            return f'outcome: model {phase}, real {got}'
    neg_now, neg_acc = neg_now.split('/')[0], neg_acc.split('/')[0]        # the part after `/` is the host key algorithm
    mkex = neg_now.split(',')[0] if neg_now != '-' else None
    if (mkex or None) != (real['kex'] or None):
        # `get_kex` runs before the cipher/MAC/compression choices: when those fail the real side has a kex object
        # the model never records
        # (likewise after a forced close, on input that was already buffered)
        if not (mkex is None and phase.startswith('failed:')):
            return f'kex algorithm: model {mkex}, real {real["kex"]}'
    if real['neg'] is not None:
        if neg_acc == '-':
            return 'real side derived keys, model did not accept'
        if neg_acc.split(',')[1:] != real['neg']:
            return f'negotiated names: model {neg_acc.split(",")[1:]}, real {real["neg"]}'
    if neg_acc != '-' and real['neg'] is None:
        return 'model accepted, real side did not derive keys'
    if hash_acc not in ('-', 'none') and real['hash'] is not None and hash_acc != hx(real['hash']):
        return 'hash input of the accepted record differs'
    mouts = [] if outs == '.' else outs.split(',')
    routs = [hx(p) for p in real['sent']]
    if mouts != routs:
        n = next((i for i, (a, b) in enumerate(zip(mouts, routs)) if a != b), min(len(mouts), len(routs)))
        return f'messages sent differ at #{n}: model {len(mouts)} messages, real {len(routs)}'
    return None


# ---------------------------------------------------------------------------
# correspondence

def small_lists(alpha: List[str], maxlen: int) -> List[Tuple[str, ...]]:
    out: List[Tuple[str, ...]] = []
    for n in range(maxlen + 1):
        out += list(itertools.permutations(alpha, n))
    return out


def real_choose(client: Any, server: Any, c: Tuple[str, ...], s: Tuple[str, ...]) -> Tuple[str, str]:
    res = []
    for conn, loc, rem in ((client, c, s), (server, s, c)):
        try:
            res.append(conn._choose_alg('test', [x.encode() for x in loc], [x.encode() for x in rem]).decode())
        except asyncssh.KeyExchangeFailed:
            res.append('none')
        except Exception as e:
            res.append('exc:' + type(e).__name__)
    return res[0], res[1]


def spec_choose(c: Tuple[str, ...], s: Tuple[str, ...]) -> str:
    return next((a for a in c if a in s), 'none')


def _first(c: List[str], s: List[str]) -> Optional[str]:
    return next((a for a in c if a in s), None)


async def _two_conns() -> Tuple[Any, Any]:
    """a real client and a real server connection object (closed again; only their methods are used)"""
    c, s, _hub = await pair.make_pair()
    c.abort()
    await pair.settle(5)
    return c, s


def gen_list_cfg(rng: random.Random) -> Tuple[Dict[str, List[str]], Dict[str, List[str]]]:
    def sub(alpha: List[str], lo: int = 1) -> List[str]:
        return rng.sample(alpha, rng.randint(lo, min(4, len(alpha))))
    r = rng.random()
    if r < 0.5:
        chk, shk = ['ssh-ed25519'], ['ssh-ed25519']
    elif r < 0.65:
        chk, shk = ['ssh-rsa', 'ssh-ed25519'], ['ssh-ed25519']         # the server has no RSA key
    else:                                                               # the server has both keys
        chk = rng.sample(['ssh-ed25519'] + RSA_ALGS, rng.randint(1, 4))
        shk = ['ssh-ed25519'] + RSA_ALGS
    c = {'kex': sub(KEX5), 'hostkey': chk, 'enc': sub(ENC5), 'mac': sub(MAC5), 'cmp': sub(CMP3)}
    s = {'kex': sub(KEX5), 'hostkey': shk, 'enc': sub(ENC5), 'mac': sub(MAC5), 'cmp': sub(CMP3)}
    return c, s


def with_host_keys(rng: random.Random, cfg: Dict[str, List[str]]) -> Tuple[Dict[str, List[str]], Dict[str, List[str]]]:
    """(client cfg, server cfg) for a server with both host keys and a client with a preference among their algorithms"""
    return (dict(cfg, hostkey=rng.sample(['ssh-ed25519'] + RSA_ALGS, rng.randint(2, 4))),
            dict(cfg, hostkey=['ssh-ed25519'] + RSA_ALGS))


def spec_negotiate(c: Dict[str, List[str]], s: Dict[str, List[str]]) -> Optional[List[str]]:
    """the property's own words: each name is the first on the client's list that the server supports; a cipher
    with built-in integrity stands in for the MAC.  None = no agreement possible."""
    enc_mod = importlib.import_module('asyncssh.encryption')
    kex, enc, cmp_ = _first(c['kex'], s['kex']), _first(c['enc'], s['enc']), _first(c['cmp'], s['cmp'])
    if kex is None or enc is None or cmp_ is None or _first(c['hostkey'], s['hostkey']) is None:
        return None
    if enc_mod.encryption_needs_mac(enc.encode()):
        mac = _first(c['mac'], s['mac'])
        if mac is None:
            return None
    else:
        mac = enc
    return [kex, enc, enc, mac, mac, cmp_, cmp_]


def range_source_checks() -> List[Tuple[str, Any]]:
    """the two range tests as Python callables compiled from the current source"""
    tree = ast.parse(T.read_source('asyncssh/kex_dh.py'))
    out = []
    for fn_name, var in (('_KexDHBase._compute_client_shared', '_f'), ('_KexDHBase._compute_server_shared', '_e')):
        fn = T.find_def(tree, fn_name)
        test = None
        for n in fn.body:       # type: ignore
            if isinstance(n, ast.If) and isinstance(n.test, ast.UnaryOp) and isinstance(n.test.op, ast.Not):
                test = n.test.operand
                break
        if test is None:
            raise T.Untranslatable(f'{fn_name}: range test not found')
        code = compile(ast.Expression(test), '<range>', 'eval')

        def check(x: int, p: int, code: Any = code, var: str = var) -> bool:
            class S:
                pass
            o = S()
            setattr(o, var, x)
            o._p = p            # type: ignore
            return bool(eval(code, {'self': o}))
        out.append((fn_name, check))
    return out


def correspondence(ctx: Ctx) -> CorrResult:
    res = CorrResult()
    hist = Hist()
    rng = ctx.subrng('corr')
    lines: List[str] = []
    expect: List[Tuple[str, Dict[str, Any], Any]] = []
    _ka, kb = host_keys()

    # (1) _choose_alg against chooseAlg: all pairs of lists up to length 4 over a 5-name alphabet ---------------
    alpha = ['a', 'bb', 'c-c', 'd@x.y', 'e']
    lists = small_lists(alpha, 4)
    pairs_all = [(c, s) for c in lists for s in lists]
    if ctx.tier == 'thorough' or ctx.escalated:
        chosen = pairs_all
        res.exhaustive = True
    else:
        chosen = rng.sample(pairs_all, 2500)
    try:
        cconn, sconn = pair.run(_two_conns())
        have_choose = hasattr(cconn, '_choose_alg')
    except Exception as e:
        have_choose = False
        res.notes.append(f'could not create connections for _choose_alg: {e}')
    if have_choose:
        for c, s in chosen:
            lines.append(f'choose {_names(list(c))} {_names(list(s))}')
            rc, rs = real_choose(cconn, sconn, c, s)
            expect.append(('choose', {'client': list(c), 'server': list(s)}, f'{rc} {rs}'))
        hist.hit('choose-pairs', len(chosen))
    else:
        res.notes.append('_choose_alg not callable directly; negotiation is checked through live handshakes only')

    # (2) the range tests of the source against the regenerated Lean propositions ---------------------------------
    try:
        checks = range_source_checks()
        for _ in range(ctx.n(150, 1500)):
            p = rng.choice([23, 2 ** 61 - 1, _small_group()])
            x = rng.choice([-1, 0, 1, 2, p - 2, p - 1, p, p + 1, rng.randrange(-5, p + 5)])
            lines.append(f'range {x} {p}')
            expect.append(('range', {'x': str(x)[:30], 'p_bits': p.bit_length()},
                           f'{int(checks[0][1](x, p))} {int(checks[1][1](x, p))}'))
        hist.hit('range-points', ctx.n(150, 1500))
    except T.Untranslatable as e:
        res.notes.append(f'range tests not found in the source: {e}')
        res.disagreements.append(Disagreement({'op': 'range'}, 'a range test exists', str(e), 'correspondence:range'))

    # (3) live handshakes: unedited with random preference lists, and one edit each ----------------------------------
    cases: List[Dict[str, Any]] = []
    for _ in range(ctx.n(50, 600)):
        c, s = gen_list_cfg(rng)
        cases.append({'ccfg': c, 'scfg': s, 'edit': None, 'label': 'lists', 'alg': None})
    n_edit = ctx.n(450, 3000)
    for alg in kex_schedule(ctx, rng, n_edit):
        e = gen_edit_case(rng, alg, kb.public_data)
        cfg = default_cfg([alg])
        if rng.random() < 0.25:                 # a second method on both lists: the edit may try to steer the choice
            cfg = default_cfg([alg, rng.choice([a for a in ('ecdh-sha2-nistp256', 'curve25519-sha256') if a != alg])])
        ccfg, scfg = with_host_keys(rng, cfg) if rng.random() < 0.2 else (cfg, dict(cfg))
        cases.append({'ccfg': ccfg, 'scfg': scfg, 'edit': edit_of(e),
                      'label': f'{e["target"] if isinstance(e["target"], str) else "kex"}:{e["label"]}',
                      'alg': alg, 'expect': e['expect'], 'dir': e['dir']})
    for alg in kex_schedule(ctx, rng, 0):       # every method once without any edit
        cfg = default_cfg([alg])
        cases.append({'ccfg': cfg, 'scfg': dict(cfg), 'edit': None, 'label': 'plain', 'alg': alg})
    sessions = pair.run(_run_cases(cases), timeout=3000)
    seen = set()
    for case, s in zip(cases, sessions):
        if 'setup_error' in s:
            res.notes.append(f'{case["label"]}: setup failed: {s["setup_error"]}')
            continue
        s['label'], s['alg'] = case['label'], case['alg']
        ed: HsEditor = s['editor']
        if ed.problem:
            res.notes.append(f'{case["label"]}: {ed.problem}')
            continue
        if case['edit'] is not None and not ed.applied:
            hist.hit('edit-not-reached')
        ls, ex = session_lines(s)
        lines += ls
        expect += ex
        hist.hit(f'session:{case["label"].split(":")[0]}:client={s["client"]}')
        seen.add((case['alg'], case['label']))
    res.nontrivial += len(seen)

    out = ctx.model(DRIVER, lines)
    done_roles = set((case['sid'], case['role']) for (kind, case, _r), mod in zip(expect, out)
                     if kind == 'machine' and mod.startswith('done '))
    for line, (kind, case, real), mod in zip(lines, expect, out):
        res.cases += 1
        if kind == 'machine':
            peer = 'server' if case['role'] == 'client' else 'client'
            problem = compare_machine(mod, real, case['role'], (case['sid'], peer) in done_roles)
            case = {k: v for k, v in case.items() if k != 'sid'}
            hist.hit(f'machine:{case["role"]}:{mod.split(" ")[0].split(":")[0]}')
            if problem:
                res.disagreements.append(Disagreement(
                    {**case, 'line': line[:400]}, mod[:300],
                    {'outcome': real['outcome'], 'kex': real['kex'], 'neg': real['neg'], 'problem': problem},
                    f'correspondence:machine:{case["role"]}'))
        elif mod != real:
            res.disagreements.append(Disagreement({'op': kind, **case, 'line': line[:300]}, mod[:300], str(real)[:300],
                                                  f'correspondence:{kind}'))
            hist.hit(f'{kind}:differs')
        else:
            hist.hit(kind)
    res.histogram = dict(hist)
    res.samples = [{'line': l[:160], 'model': o[:160]} for l, o in list(zip(lines, out))[:1]] + \
                  [{'line': l[:160], 'model': o[:160]} for l, o in list(zip(lines, out))[-2:]]
    res.rule = ('(_choose_alg, chooseAlg) on pairs of duplicate-free lists of length <= 4 over 5 names (all 42436 pairs '
                'in thorough, 2500 sampled in quick); real handshakes for every registered non-GSS method with one '
                'field-level or byte-level edit of a version line, a KEXINIT or a kex message, and unedited '
                'handshakes over random preference lists; each gives a client and a server machine case plus one '
                'hash-input case per exchange hash computed; distinct = distinct (method, edit) pairs')
    return res


async def _run_cases(cases: List[Dict[str, Any]]) -> List[Dict[str, Any]]:
    out = []
    for c in cases:
        try:
            out.append(await asyncio.wait_for(run_session(c['ccfg'], c['scfg'], c['edit']), 20))
        except Exception as e:
            out.append({'setup_error': f'{type(e).__name__}: {e}'})
    return out


# ---------------------------------------------------------------------------
# oracle

def effective_edit(s: Dict[str, Any]) -> Tuple[bool, str]:
    """did the editor change anything an endpoint retains? (independent canonical forms of sent vs delivered)"""
    ed: HsEditor = s['editor']
    for d, recv_role in ((C2S, 'server'), (S2C, 'client')):
        sent, deliv = ed.sent[d], ed.delivered[d]
        if not sent:
            continue
        # version: a server takes the first line, a client the first line that starts with SSH-
        n_lines, vers = 0, None
        for l in deliv:
            n_lines += 1
            if l.startswith(b'SSH-') or recv_role == 'server':
                vers = l
                break
        if vers is None or W.version_of_line(vers) != sent[0].rstrip(b'\r\n'):
            return True, f'{d}:version'
        alg = s['kex'][recv_role][0] or s['kex']['client' if recv_role == 'server' else 'server'][0]
        form = form_of(alg) if alg else None
        sp, dp = sent[1:], deliv[n_lines:]
        for i in range(max(len(sp), len(dp))):
            if i >= len(sp) or i >= len(dp):
                if i < len(sp) and sp[i][:1] == bytes([W.MSG_DISCONNECT]):
                    continue
                return True, f'{d}:structure'
            if W.canonical(form, sp[i]) != W.canonical(form, dp[i]):
                return True, f'{d}:msg{sp[i][0] if sp[i] else -1}'
    return False, ''


def oracle_check(s: Dict[str, Any], case: Dict[str, Any], res: OracleResult, hist: Hist) -> None:
    key = {'alg': case.get('alg'), 'label': case['label'], 'ccfg': case['ccfg'], 'scfg': case['scfg'],
           'seed': case.get('seed'), 'dir': case.get('dir')}
    res.evaluations += 1
    eff, where = effective_edit(s)
    completed = s['client'] == 'ok'
    hist.hit(f'{case["label"].split(":")[0]}:{"effective" if eff else "neutral"}:{"completed" if completed else "failed"}')
    if completed:
        kc, ks = s['keys']['client'], s['keys']['server']
        if kc is None or ks is None or kc[1] != ks[1]:
            res.failures.append(Failure('completed-with-different-session-id',
                                        f'{case["label"]} on {case.get("alg")}: handshake completed, session ids differ',
                                        key))
        elif kc[0] != ks[0]:
            res.failures.append(Failure('completed-with-different-shared-secret',
                                        f'{case["label"]} on {case.get("alg")}: same H, different K', key))
        if s['neg']['client'] != s['neg']['server'] or s['kex']['client'][0] != s['kex']['server'][0]:
            res.failures.append(Failure('completed-with-different-algorithms',
                                        f'{case["label"]}: client {s["kex"]["client"][0]} {s["neg"]["client"]}, server '
                                        f'{s["kex"]["server"][0]} {s["neg"]["server"]}', key))
        hc, hs_ = s['kex']['client'][1], s['kex']['server'][1]
        if hc is not None and hs_ is not None and hc != hs_:
            res.failures.append(Failure('completed-with-different-hash-input',
                                        f'{case["label"]} on {case.get("alg")}: the two sides hashed different bytes',
                                        key))
        if eff:
            tgt = case['label'].split(':')[0]
            res.failures.append(Failure(f'completed-despite-edit:{tgt}:{where.split(":")[-1]}',
                                        f'{case["label"]} on {case.get("alg")}: an edit changing {where} went unnoticed, '
                                        f'the handshake completed', key))
        # first client preference the server supports
        spec = spec_negotiate(case['ccfg'], s.get('scfg', case['scfg']))
        got = [s['kex']['client'][0]] + (s['neg']['client'] or [])
        if not eff and spec is not None and got != spec:
            res.failures.append(Failure('not-first-client-preference',
                                        f'lists {case["ccfg"]} / {case["scfg"]}: negotiated {got}, expected {spec}', key))
        # ... the server host key algorithm included: seen on the wire as the type of the host key blob and the
        # algorithm named in the signature (all keys here are plain keys: the two names coincide)
        want_hk = _first(case['ccfg']['hostkey'], s.get('scfg', case['scfg'])['hostkey'])
        blob, sig = wire_host_key(s)
        if not eff and want_hk is not None and sig is not None and blob is not None:
            named = (split_sig(sig)[0] or b'').decode('latin1')
            if named != want_hk or want_hk not in key_algs_of_blob(blob):
                res.failures.append(Failure(
                    'host-key-algorithm-not-first-client-preference',
                    f'client list {case["ccfg"]["hostkey"]}, server list {s.get("scfg", case["scfg"])["hostkey"]}: '
                    f'first client preference is {want_hk}, the handshake completed with a host key usable for '
                    f'{key_algs_of_blob(blob)} and a signature made with {named}', key))
    else:
        if not eff and not s['editor'].applied and spec_negotiate(case['ccfg'], case['scfg']) is not None:
            res.failures.append(Failure(f'handshake-fails-without-edit:{s["client"]}',
                                        f'{case["label"]} on {case.get("alg")}: client {s["client"]} '
                                        f'{s.get("client_msg", "")}, server {s["server"]}', key))
    # a handshake that fails must fail with an SSH error, not with whatever exception a library raised
    for role in ('client', 'server'):
        if s[role] not in HARNESS_OUTCOMES and s[role] not in SSH_ERROR_CLASSES:
            lab = case['label'].split(':')
            where = f'{form_of(case["alg"])}-{lab[1]}' if lab[0] == 'kex' and case.get('alg') and len(lab) > 1 else lab[0]
            res.failures.append(Failure(
                f'raw-exception:{role}:{s[role]}:{where}',
                f'{case["label"]} on {case.get("alg")}: the {role} ended with {s[role]}'
                f'{" (" + s.get("client_msg", "") + ")" if role == "client" else ""}, which is not an SSH error class: '
                f'one cleartext message from the peer surfaces as a raw exception', key))
    if case.get('expect') == 'range' and s['editor'].applied:
        role = 'server' if case['dir'] == C2S else 'client'
        if s[role] != 'ProtocolError':
            res.failures.append(Failure(f'dh-range-not-enforced:{role}:{case["label"].split(":")[-1]}',
                                        f'{case["label"]} on {case.get("alg")}: {role} ended with {s[role]} '
                                        f'instead of ProtocolError', key))
        if role == 'server' and any(p and 30 <= p[0] <= 49 and W.LAYOUT[form_of(case["alg"])].get(p[0], ('',))[0] == 'reply'
                                    for p in s['editor'].sent[S2C][1:]):
            res.failures.append(Failure('dh-range-not-enforced:server-replied',
                                        f'{case["label"]} on {case.get("alg")}: server signed a reply for e out of range',
                                        key))


def wire_host_key(s: Dict[str, Any]) -> Tuple[Optional[bytes], Optional[bytes]]:
    """(host key blob, signature blob) the server put on the wire in this session"""
    ed: HsEditor = s['editor']
    alg = s['kex']['server'][0]
    if not alg:
        return None, None
    blob = sig = None
    for p in ed.sent[S2C][1:]:
        if p and 30 <= p[0] <= 49:
            try:
                _nm, f = W.parse_kexmsg(form_of(alg), p)
            except W.Bad:
                continue
            blob, sig = f.get('hostkey', blob), f.get('sig', sig)
    return blob, sig


def boundary_probe(res: OracleResult, hist: Hist, rng: random.Random, n: int) -> None:
    """Feed the real `_compute_hash` two different field tuples that differ only in where a boundary lies;
    with length-prefixed fields the hashed byte strings must differ."""
    kexmod = importlib.import_module('asyncssh.kex')

    class Conn:
        logger = None

        def __init__(self, prefix: bytes):
            self.p = prefix

        def get_hash_prefix(self) -> bytes:
            return self.p

        def is_client(self) -> bool:
            return True

        def is_server(self) -> bool:
            return False

    def hashed(alg: bytes, setup: Callable[[Any], Tuple[Any, ...]]) -> Optional[bytes]:
        log: List[Dict[str, Any]] = []
        try:
            k = kexmod.get_kex(Conn(b'PREFIX'), alg)
            k._hash_alg = RecHash(k._hash_alg, log)
            args = setup(k)
            k._compute_hash(*args)
        except Exception:
            return None
        for e in log:
            if len(e['chunks']) >= 4:
                return b''.join(e['chunks'])
        return None
    for _ in range(n):
        a = bytes(rng.randrange(256) for _ in range(rng.randint(1, 12)))
        b = bytes(rng.randrange(256) for _ in range(rng.randint(0, 12)))
        c = bytes(rng.randrange(256) for _ in range(rng.randint(0, 12)))
        y = bytes(rng.randrange(256) for _ in range(rng.randint(0, 6)))
        k2 = bytes(rng.randrange(256) for _ in range(rng.randint(0, 6)))
        # ECDH form: (host key, Q_C, Q_S, k)
        t1 = (a, b, c, W.sstr(y) + k2)
        t2 = (a + W.sstr(b), c, y, k2)

        def ec(t: Tuple[bytes, bytes, bytes, bytes]) -> Callable[[Any], Tuple[Any, ...]]:
            def setup(k: Any) -> Tuple[Any, ...]:
                k._client_pub, k._server_pub = t[1], t[2]
                return (t[0], t[3])
            return setup
        h1, h2 = hashed(b'ecdh-sha2-nistp256', ec(t1)), hashed(b'ecdh-sha2-nistp256', ec(t2))
        if h1 is None or h2 is None:
            hist.hit('boundary-probe:not-applicable')
            continue
        res.evaluations += 1
        hist.hit('boundary-probe:ecdh')
        if h1 == h2:
            res.failures.append(Failure('hash-input-collision:host-key-boundary',
                                        'two different (K_S, Q_C, Q_S, K) tuples give the same exchange-hash input',
                                        {'kind': 'boundary', 't1': [x.hex() for x in t1], 't2': [x.hex() for x in t2]}))
        # RSA form: (host key, transient key, ciphertext, k)
        def rsa(t: Tuple[bytes, bytes, bytes]) -> Callable[[Any], Tuple[Any, ...]]:
            def setup(k: Any) -> Tuple[Any, ...]:
                k._host_key_data, k._trans_key_data, k._encrypted_k, k._k = t[0], t[1], t[2], 5
                return ()
            return setup
        r1, r2 = hashed(b'rsa1024-sha1', rsa((a, b, W.sstr(c) + y))), hashed(b'rsa1024-sha1', rsa((a + W.sstr(b), c, y)))
        if r1 is not None and r2 is not None:
            res.evaluations += 1
            hist.hit('boundary-probe:rsa')
            if r1 == r2 or (r1[-20:] == r2[-20:] and len(r1) == len(r2) and r1 == r2):
                res.failures.append(Failure('hash-input-collision:rsa-boundary',
                                            'two different RSA-kex tuples give the same exchange-hash input',
                                            {'kind': 'boundary-rsa'}))


def oracle_listener_sequence(ctx: Ctx, res: OracleResult, hist: Hist) -> None:
    """Successive connections to ONE listener (its options object, hence its host key pairs, are shared): for every
    connection the algorithm named in the host key signature must be the host key algorithm that connection
    negotiated (first on the client's list that the server offers), whatever earlier connections negotiated."""
    from asyncssh.packet import SSHPacket
    rng = ctx.subrng('oracle-listener')
    rsa = asyncssh.generate_private_key('ssh-rsa', key_size=2048)
    lists = [['rsa-sha2-256'], ['ssh-rsa'], ['rsa-sha2-512', 'ssh-rsa'], ['ssh-rsa', 'rsa-sha2-256'], ['rsa-sha2-512'],
             ['ssh-rsa'], ['rsa-sha2-256', 'rsa-sha2-512'], ['ssh-rsa', 'rsa-sha2-512']]
    for _ in range(ctx.n(4, 24)):
        lists.append(rng.sample(['ssh-rsa', 'rsa-sha2-256', 'rsa-sha2-512'], rng.randint(1, 3)))

    def namelist(pk: Any) -> List[str]:
        return [x.decode() for x in pk.get_namelist()]

    async def go() -> List[Tuple[List[str], Optional[str], Optional[str], str]]:
        out = []
        sopts = await pair.make_server_options(server_host_keys=[rsa], kex_algs=['curve25519-sha256'])
        for algs in lists:
            with capture.PacketTap() as tap:
                try:
                    c, s, hub = await asyncio.wait_for(pair.make_pair(
                        server_opts=dict(shared_options=sopts),
                        client_opts=dict(server_host_key_algs=algs, kex_algs=['curve25519-sha256'])), 20)
                except Exception as e:
                    out.append((algs, None, None, type(e).__name__))
                    continue
                negotiated = sigalg = None
                for _q, p in tap.sent.get(id(s), []):
                    if p[:1] == b'\x14' and negotiated is None:           # server KEXINIT
                        pk = SSHPacket(p[17:])
                        namelist(pk)
                        offered = namelist(pk)
                        negotiated = next((a for a in algs if a in offered), None)
                    if p[:1] == b'\x1f' and sigalg is None:               # KEX_ECDH_REPLY: K_S, Q_S, signature
                        pk = SSHPacket(p[1:])
                        pk.get_string()
                        pk.get_string()
                        sigalg = SSHPacket(pk.get_string()).get_string().decode()
                out.append((algs, negotiated, sigalg, 'ok'))
                c.abort()
                await pair.settle(5)
        return out
    for algs, negotiated, sigalg, status in pair.run(go(), timeout=600, sync_executor=True):
        res.evaluations += 1
        hist.hit(f'listener-seq:{status}')
        if status == 'ok' and negotiated is not None and sigalg != negotiated:
            res.failures.append(Failure(
                'host-key-signature-algorithm-differs-from-negotiated',
                f'client list {algs}: negotiated host key algorithm {negotiated}, but the exchange hash was signed '
                f'with {sigalg} (state left by an earlier connection to the same listener) and the handshake completed',
                {'kind': 'listener-sequence', 'lists': lists[:lists.index(algs) + 1] if algs in lists else lists}))
    res.nontrivial += len(set(tuple(a) for a in lists))


def _server_wire(tap: Any, sconn: Any, algs: List[str], kex: str
                 ) -> Tuple[Optional[str], Optional[str], Optional[bytes]]:
    """(host key algorithm negotiated, algorithm named in the signature, host key blob) of a server connection, read
    from what it sent: the host key list of its KEXINIT and the K_S and signature fields of its `kex` messages"""
    negotiated = sigalg = blob = None
    for _q, p in tap.sent.get(id(sconn), []):
        p = bytes(p)
        try:
            if p[:1] == bytes([W.MSG_KEXINIT]) and negotiated is None:
                offered = [x.decode('latin1') for x in W.parse_kexinit(p)['hostkey']]
                negotiated = next((a for a in algs if a in offered), None)
            elif p and 30 <= p[0] <= 49:
                _nm, f = W.parse_kexmsg(form_of(kex), p)
                blob = f.get('hostkey', blob)
                if 'sig' in f and sigalg is None:
                    sigalg = (split_sig(f['sig'])[0] or b'').decode('latin1')
        except Exception:
            pass
    return negotiated, sigalg, blob


class HoldAfterKexinit:
    """hub.filter: everything the client writes after its version line and its KEXINIT is held back until released"""

    def __init__(self) -> None:
        self.n = 0
        self.held: List[bytes] = []
        self.released = False

    def __call__(self, direction: str, data: bytes) -> bytes:
        if direction != C2S or self.released:
            return data
        self.n += 1
        if self.n <= 2:
            return data
        self.held.append(data)
        return b''


INTERLEAVE_CORPUS = [(['rsa-sha2-512'], ['ssh-rsa'], 'curve25519-sha256'),
                     (['rsa-sha2-256', 'rsa-sha2-512'], ['rsa-sha2-512'], 'curve25519-sha256'),
                     (['ssh-rsa'], ['rsa-sha2-256'], 'ecdh-sha2-nistp256'),
                     (['rsa-sha2-512', 'ssh-rsa'], ['ssh-rsa', 'rsa-sha2-512'], 'diffie-hellman-group14-sha256'),
                     (['rsa-sha2-512'], ['rsa-sha2-256'], 'diffie-hellman-group-exchange-sha256'),
                     (['rsa-sha2-256'], ['ssh-rsa'], 'mlkem768x25519-sha256')]


async def interleaved_run(a_algs: List[str], b_algs: List[str], kex: str) -> Dict[str, Any]:
    """Two real connections to ONE listener (one options object).  Victim A's version line and KEXINIT are
    delivered, the rest of what A writes is held back; stranger B then connects and completes; then A continues."""
    rsa = rsa_host_key()
    sopts = await pair.make_server_options(server_host_keys=[rsa], kex_algs=[kex])
    loop = asyncio.get_event_loop()
    out: Dict[str, Any] = {'a': a_algs, 'b': b_algs, 'kex': kex}
    with capture.PacketTap() as tap:
        hub_a = pair.Hub(loop)
        hold = HoldAfterKexinit()
        hub_a.filter = hold
        coro, sa, hub_a = await pair.make_pair(server_opts=dict(shared_options=sopts), hub=hub_a, connect=False,
                                               client_opts=dict(server_host_key_algs=a_algs, kex_algs=[kex],
                                                                known_hosts=([rsa.convert_to_public()], [], [])))
        task = asyncio.ensure_future(coro)
        for _ in range(400):                       # until A has written its first key-exchange message
            await asyncio.sleep(0)
            if hold.held or task.done():
                break
        await pair.settle(20)                      # the server has processed A's KEXINIT
        out['held'] = len(hold.held)
        try:
            cb, _sb, _hb = await asyncio.wait_for(pair.make_pair(
                server_opts=dict(shared_options=sopts),
                client_opts=dict(server_host_key_algs=b_algs, kex_algs=[kex])), 20)
            out['b_outcome'] = 'ok'
        except Exception as e:
            cb = None
            out['b_outcome'] = type(e).__name__
        hold.released = True
        hub_a.inject(C2S, b''.join(hold.held))
        try:
            ca = await asyncio.wait_for(task, 20)
            out['a_outcome'] = 'ok'
        except Exception as e:
            ca = None
            out['a_outcome'] = type(e).__name__
        out['negotiated'], out['sigalg'], _blob = _server_wire(tap, sa, a_algs, kex)
        for c in (ca, cb):
            if c is not None:
                c.abort()
        await pair.settle(8)
    return out


def judge_interleaved(o: Dict[str, Any]) -> List[Failure]:
    if o.get('negotiated') is None or o.get('sigalg') is None:
        return []
    if o['sigalg'] != o['negotiated']:
        return [Failure(
            'host-key-signature-algorithm-differs-from-negotiated:concurrent-connection',
            f'victim offered {o["a"]} and negotiated host key algorithm {o["negotiated"]} ({o["kex"]}); a second '
            f'connection to the same listener offering {o["b"]} sent its KEXINIT before the victim\'s next message '
            f'arrived; the victim\'s exchange hash was signed with {o["sigalg"]}; victim\'s handshake: '
            f'{o["a_outcome"]}', {'kind': 'listener-interleaved', 'a': o['a'], 'b': o['b'], 'kex': o['kex']})]
    return []


def oracle_listener_interleaved(ctx: Ctx, res: OracleResult, hist: Hist) -> None:
    """Concurrent connections of one listener: the algorithm named in a connection's host key signature must be the
    host key algorithm that connection negotiated, whatever another connection negotiates between the KEXINIT and
    the signature."""
    rng = ctx.subrng('oracle-interleaved')
    avail = set(kex_algs())
    todo = [c for c in INTERLEAVE_CORPUS if c[2] in avail]
    for _ in range(ctx.n(4, 30)):
        todo.append((rng.sample(RSA_ALGS, rng.randint(1, 3)), rng.sample(RSA_ALGS, rng.randint(1, 3)),
                     rng.choice([k for k in ('curve25519-sha256', 'ecdh-sha2-nistp256') if k in avail])))
    for a, b, kex in todo:
        try:
            o = pair.run(interleaved_run(a, b, kex), timeout=90, sync_executor=True)
        except Exception as e:
            res.notes.append(f'interleaved {a} {b} {kex}: {type(e).__name__}: {e}')
            hist.hit('listener-interleaved:setup-failed')
            continue
        res.evaluations += 1
        hist.hit(f'listener-interleaved:A={o["a_outcome"]}:B={o["b_outcome"]}:held={min(o["held"], 1)}')
        res.failures += judge_interleaved(o)
        if o['a_outcome'] != 'ok' and o.get('sigalg') == o.get('negotiated'):
            res.failures.append(Failure(f'handshake-fails-without-edit:interleaved:{o["a_outcome"]}',
                                        f'victim {a}, second connection {b}, {kex}: nothing was edited and the '
                                        f'victim\'s handshake ended with {o["a_outcome"]}',
                                        {'kind': 'listener-interleaved', 'a': a, 'b': b, 'kex': kex}))
    res.nontrivial += len(set((tuple(a), tuple(b), k) for a, b, k in todo))


LYING_CORPUS = [
    # (client's host key algorithms, key the server answers with, signature algorithm it uses, kex)
    (['ssh-ed25519'], 'rsa', 'rsa-sha2-512', 'curve25519-sha256'),
    (['ssh-ed25519'], 'rsa', 'ssh-rsa', 'diffie-hellman-group14-sha256'),
    (['ssh-ed25519'], 'rsa', 'rsa-sha2-256', 'rsa1024-sha1'),
    (['rsa-sha2-512', 'rsa-sha2-256'], 'ed25519', 'ssh-ed25519', 'curve25519-sha256'),
    (['rsa-sha2-512'], 'rsa', 'ssh-rsa', 'curve25519-sha256'),
    (['rsa-sha2-512', 'rsa-sha2-256'], 'rsa', 'rsa-sha2-256', 'ecdh-sha2-nistp256'),
    (['rsa-sha2-256'], 'rsa', 'ssh-rsa', 'diffie-hellman-group-exchange-sha256'),
    (['rsa-sha2-512'], 'rsa', 'ssh-rsa', 'rsa1024-sha1'),
    (['rsa-sha2-256', 'ssh-ed25519'], 'ed25519', 'ssh-ed25519', 'mlkem768x25519-sha256'),
    # the honest answers (must complete)
    (['ssh-ed25519'], 'ed25519', 'ssh-ed25519', 'curve25519-sha256'),
    (['rsa-sha2-512'], 'rsa', 'rsa-sha2-512', 'curve25519-sha256'),
    (['ssh-rsa', 'rsa-sha2-256'], 'rsa', 'ssh-rsa', 'rsa1024-sha1'),
]


async def lying_run(c_algs: List[str], key: str, sig_alg: str, kex: str) -> Dict[str, Any]:
    """An unmodified client against a server that holds an Ed25519 and an RSA host key, both trusted by the client,
    and answers with the key and signature algorithm of ITS choice instead of the negotiated ones."""
    import copy
    ka, _kb = host_keys()
    rsa = rsa_host_key()
    out: Dict[str, Any] = {'client': c_algs, 'key': key, 'sig': sig_alg, 'kex': kex}
    with capture.PacketTap() as tap:
        coro, sconn, _hub = await pair.make_pair(
            server_opts=dict(server_host_keys=[ka, rsa], kex_algs=[kex]), connect=False,
            client_opts=dict(server_host_key_algs=c_algs, kex_algs=[kex],
                             known_hosts=([ka.convert_to_public(), rsa.convert_to_public()], [], [])))
        table = sconn._server_host_keys            # the adversary's side: not the code under test

        def choose(_peer_algs: Any) -> bool:
            kp = copy.copy(table[b'ssh-ed25519' if key == 'ed25519' else b'ssh-rsa'])
            kp.set_sig_algorithm(sig_alg.encode())
            sconn._server_host_key = kp
            return True
        sconn.choose_server_host_key = choose
        try:
            c = await asyncio.wait_for(coro, 20)
            out['outcome'] = 'ok'
            c.abort()
        except Exception as e:
            out['outcome'] = type(e).__name__
            out['msg'] = str(e)[:100]
        all_algs = ['ssh-ed25519'] + [a.decode() for a in rsa.sig_algorithms]
        out['negotiated'], out['sigalg'], blob = _server_wire(tap, sconn, c_algs, kex)
        out['key_algs'] = key_algs_of_blob(blob) if blob else []
        out['offered'] = all_algs
        await pair.settle(8)
    return out


def judge_lying(o: Dict[str, Any]) -> List[Failure]:
    neg, sig = o.get('negotiated'), o.get('sigalg')
    rp = {'kind': 'lying-server', 'client': o['client'], 'key': o['key'], 'sig': o['sig'], 'kex': o['kex']}
    honest = neg is not None and neg == sig and neg in o['key_algs']
    if honest:
        if o['outcome'] != 'ok':
            return [Failure(f'handshake-fails-without-edit:honest-host-key:{o["outcome"]}',
                            f'client list {o["client"]}, {o["kex"]}: the server answered with the negotiated host key '
                            f'algorithm {neg} and the handshake ended with {o["outcome"]} {o.get("msg", "")}', rp)]
        return []
    if o['outcome'] != 'ok' or neg is None or sig is None:
        return []
    if neg not in o['key_algs']:
        return [Failure('client-accepts-host-key-of-other-type-than-negotiated',
                        f'client offered {o["client"]} (negotiated {neg}, {o["kex"]}); the server answered with a host '
                        f'key usable for {o["key_algs"][:3]}.. and a {sig} signature; the client trusts that key for '
                        f'this host and completed the handshake', rp)]
    return [Failure('client-accepts-signature-algorithm-not-negotiated',
                    f'client offered {o["client"]} (negotiated {neg}, {o["kex"]}); the server signed the exchange hash '
                    f'with {sig}; the client completed the handshake', rp)]


def oracle_lying_server(ctx: Ctx, res: OracleResult, hist: Hist) -> None:
    rng = ctx.subrng('oracle-lying')
    avail = set(kex_algs())
    todo = [c for c in LYING_CORPUS if c[3] in avail]
    for _ in range(ctx.n(6, 40)):
        key = rng.choice(['rsa', 'rsa', 'ed25519'])
        todo.append((rng.sample(['ssh-ed25519'] + RSA_ALGS, rng.randint(1, 3)), key,
                     rng.choice(RSA_ALGS) if key == 'rsa' else 'ssh-ed25519',
                     rng.choice([k for k in ('curve25519-sha256', 'ecdh-sha2-nistp256', 'rsa1024-sha1') if k in avail])))
    for c_algs, key, sig_alg, kex in todo:
        try:
            o = pair.run(lying_run(c_algs, key, sig_alg, kex), timeout=90, sync_executor=True)
        except Exception as e:
            res.notes.append(f'lying server {c_algs} {key} {sig_alg} {kex}: {type(e).__name__}: {e}')
            hist.hit('lying-server:setup-failed')
            continue
        res.evaluations += 1
        honest = o.get('negotiated') is not None and o['negotiated'] == o.get('sigalg') and \
            o['negotiated'] in o['key_algs']
        hist.hit(f'lying-server:{"honest" if honest else "lying"}:{o["outcome"]}')
        res.failures += judge_lying(o)
    res.nontrivial += len(set((tuple(c), k, s_, x) for c, k, s_, x in todo))


def oracle(ctx: Ctx) -> OracleResult:
    res = OracleResult()
    hist = Hist()
    rng = ctx.subrng('oracle')
    _ka, kb = host_keys()
    # the deterministic scenarios first (their failures lead the report)
    oracle_listener_interleaved(ctx, res, hist)
    oracle_lying_server(ctx, res, hist)
    cases: List[Dict[str, Any]] = []
    # suspects from the correspondence first: re-run the same kind of edit on the same method
    for sus in ctx.suspects[:40]:
        if isinstance(sus, dict) and sus.get('alg'):
            for _ in range(3):
                e = gen_edit_case(rng, sus['alg'], kb.public_data)
                cfg = default_cfg([sus['alg']])
                cases.append({'ccfg': cfg, 'scfg': dict(cfg), 'edit': edit_of(e),
                              'label': f'{e["target"] if isinstance(e["target"], str) else "kex"}:{e["label"]}',
                              'alg': sus['alg'], 'expect': e['expect'], 'dir': e['dir']})
    # a fixed corpus of the edits the property names, on a fast method of every form
    corpus_algs = ['curve25519-sha256', 'diffie-hellman-group14-sha256', 'diffie-hellman-group-exchange-sha256',
                   'mlkem768x25519-sha256', 'rsa1024-sha1', 'ecdh-sha2-nistp256']
    avail = set(kex_algs())
    for alg in [a for a in corpus_algs if a in avail]:
        form = form_of(alg)
        crng = random.Random(f'{ctx.seed}:{alg}')
        for d in (C2S, S2C):
            for label, fn, exp in version_edits(crng, d)[:5]:
                cases.append({'alg': alg, 'dir': d, 'target': 'version', 'label': f'version:{label}', 'fn': fn,
                              'expect': exp})
            for label, fn, exp in kexinit_edits(crng):
                if label in ('cookie-bit', 'kex-keep-last', 'enc-cs-drop-first', 'no-strict', 'reserved', 'hostkey-append'):
                    cases.append({'alg': alg, 'dir': d, 'target': 'kexinit', 'label': f'kexinit:{label}', 'fn': fn,
                                  'expect': exp})
        for d, i, name in KEXMSG_TARGETS[form]:
            for label, fn, exp in kexmsg_edits(crng, form, name, kb.public_data,
                                               group_p(alg) if form in ('dh', 'gex') else 23):
                if exp in ('range',) or label.endswith(('+1', '+2', '-flip', 'hostkey-other', 'p=group1', 'to-old-request',
                                                        '-noncanonical', '-change', 'hostkey-other-type', 'trans-ed25519',
                                                        'trans-small-rsa', 'p=0', 'g=1', 'f=1', 'f=p-1', 'e=1', 'e=p-1',
                                                        'sig-other-alg', 'sig-no-alg', 'empty-payload')):
                    cases.append({'alg': alg, 'dir': d, 'target': ('kex', i), 'label': f'kex:{name}:{label}',
                                  'fn': fn, 'expect': exp})
    if 'rsa2048-sha256' in avail:           # a 1024-bit transient key cannot carry this method's secret
        crng = random.Random(f'{ctx.seed}:rsa2048')
        for label, fn, exp in kexmsg_edits(crng, 'rsa', 'pubkey', kb.public_data, 23):
            if label in ('trans-small-rsa', 'trans-ed25519'):
                cases.append({'alg': 'rsa2048-sha256', 'dir': S2C, 'target': ('kex', 0), 'label': f'kex:pubkey:{label}',
                              'fn': fn, 'expect': exp})
    for d in (C2S, S2C):                    # the host key algorithm lists of a client with a preference
        crng = random.Random(f'{ctx.seed}:hostkey')
        for label, fn, exp in kexinit_edits(crng):
            if label.startswith('hostkey-'):
                ccfg, scfg = with_host_keys(crng, default_cfg(['curve25519-sha256']))
                cases.append({'alg': 'curve25519-sha256', 'dir': d, 'target': 'kexinit', 'label': f'kexinit:{label}',
                              'fn': fn, 'expect': exp, 'ccfg': ccfg, 'scfg': scfg, 'edit': (d, 'kexinit', fn)})
    for d in (C2S, S2C):                    # a version line with a byte that is not ASCII
        for label, fn, exp in version_edits(random.Random(ctx.seed), d):
            if label == 'high-byte':
                cases.append({'alg': 'curve25519-sha256', 'dir': d, 'target': 'version', 'label': f'version:{label}',
                              'fn': fn, 'expect': exp})
    for c in cases:
        if 'ccfg' not in c:
            cfg = default_cfg([c['alg'], 'ecdh-sha2-nistp384'] if c['label'].startswith('kexinit:kex-') else [c['alg']])
            c.update({'ccfg': cfg, 'scfg': dict(cfg), 'edit': (c['dir'], c['target'], c['fn'])})
    # seeded edits over every method
    for alg in kex_schedule(ctx, rng, ctx.n(350, 2500)):
        e = gen_edit_case(rng, alg, kb.public_data)
        cfg = default_cfg([alg])
        ccfg, scfg = with_host_keys(rng, cfg) if rng.random() < 0.2 else (cfg, dict(cfg))
        cases.append({'ccfg': ccfg, 'scfg': scfg, 'edit': edit_of(e),
                      'label': f'{e["target"] if isinstance(e["target"], str) else "kex"}:{e["label"]}',
                      'alg': alg, 'expect': e['expect'], 'dir': e['dir']})
    # unedited handshakes over random preference lists
    for _ in range(ctx.n(60, 800)):
        c, s = gen_list_cfg(rng)
        cases.append({'ccfg': c, 'scfg': s, 'edit': None, 'label': 'lists', 'alg': None})
    sessions = pair.run(_run_cases(cases), timeout=3000)
    distinct = set()
    for case, s in zip(cases, sessions):
        if 'setup_error' in s:
            res.notes.append(f'{case["label"]}: setup failed: {s["setup_error"]}')
            continue
        if s['editor'].problem:
            res.notes.append(f'{case["label"]}: {s["editor"].problem}')
            continue
        case['seed'] = ctx.seed
        oracle_check(s, case, res, hist)
        distinct.add((case.get('alg'), case['label']))
    # _choose_alg against the property's wording
    try:
        cconn, sconn = pair.run(_two_conns())
        alpha = ['a', 'bb', 'c-c', 'd@x.y', 'e']
        lists = small_lists(alpha, 4)
        pairs_ = [(c, s) for c in lists for s in lists]
        if not (ctx.tier == 'thorough' or ctx.escalated):
            pairs_ = rng.sample(pairs_, 4000)
        for c, s in pairs_:
            rc, rs = real_choose(cconn, sconn, c, s)
            res.evaluations += 1
            want = spec_choose(c, s)
            if rc != want or rs != want:
                res.failures.append(Failure('not-first-client-preference:_choose_alg',
                                            f'client list {list(c)}, server list {list(s)}: client picks {rc}, server '
                                            f'picks {rs}, first client preference the server supports is {want}',
                                            {'kind': 'choose', 'client': list(c), 'server': list(s)}))
                if len(res.failures) > 30:
                    break
        hist.hit('choose-pairs', len(pairs_))
    except AttributeError:
        res.notes.append('_choose_alg not callable directly')
    boundary_probe(res, hist, rng, ctx.n(60, 600))
    res.nontrivial += len(distinct)
    res.histogram = dict(hist)
    res.samples = [{'label': c['label'], 'alg': c.get('alg'), 'client': s.get('client'), 'server': s.get('server')}
                   for c, s in list(zip(cases, sessions))[:3]]
    res.rule = ('every edit of the corpus (version strings, KEXINIT cookie/lists/flags, e, f, p, g, host key, signature, '
                'transient RSA key, request form) on one method per message form, seeded edits over all registered '
                'methods, unedited handshakes over random preference lists; failure = completed although an endpoint '
                'retained something different, or completed with different ids/keys/names, or a name that is not the '
                'first client preference (host key algorithm included), or an out-of-range DH value not answered with '
                'ProtocolError, or a failure with an exception that is not an SSH error class, or two field tuples '
                'with one hash input; two real connections of one listener with the second one\'s KEXINIT scheduled '
                'between the first one\'s KEXINIT and its key exchange message (failure = signature algorithm differs '
                'from the one that connection negotiated); a real client against a real server that answers with '
                'another host key type or signature algorithm than negotiated (failure = completed); '
                'distinct = distinct (method, edit) pairs and scenarios')
    oracle_listener_sequence(ctx, res, hist)
    res.histogram = dict(hist)
    res.failures = lead_with_distinct(res.failures)
    return res


LEAD = ['host-key-signature-algorithm-differs-from-negotiated:concurrent-connection',
        'client-accepts-host-key-of-other-type-than-negotiated', 'raw-exception:client:AttributeError',
        'raw-exception:client:TypeError', 'raw-exception:client:ValueError:gex-group',
        'client-accepts-signature-algorithm-not-negotiated', 'host-key-signature-algorithm-differs-from-negotiated']


def lead_with_distinct(failures: List[Failure]) -> List[Failure]:
    """the same failures, one of each signature first (the report shows the first few), nothing dropped"""
    first: Dict[str, Failure] = {}
    for f in failures:
        first.setdefault(f.signature, f)

    def rank(sig: str) -> int:
        return next((i for i, pre in enumerate(LEAD) if sig.startswith(pre)), len(LEAD))
    head = sorted(first.values(), key=lambda f: rank(f.signature))
    ids = set(id(f) for f in head)
    return head + [f for f in failures if id(f) not in ids]


def replay(ctx: Ctx, rep: Dict[str, Any]) -> List[Failure]:
    r = rep.get('replay', rep)
    res = OracleResult()
    hist = Hist()
    if r.get('kind') == 'choose':
        cconn, sconn = pair.run(_two_conns())
        c, s = tuple(r['client']), tuple(r['server'])
        rc, rs = real_choose(cconn, sconn, c, s)
        want = spec_choose(c, s)
        return [Failure('not-first-client-preference:_choose_alg', f'{rc} {rs} vs {want}', r)] \
            if (rc != want or rs != want) else []
    if r.get('kind', '').startswith('boundary'):
        boundary_probe(res, hist, random.Random(0), 40)
        return res.failures
    if r.get('kind') == 'listener-interleaved':
        return judge_interleaved(pair.run(interleaved_run(r['a'], r['b'], r['kex']), timeout=90, sync_executor=True))
    if r.get('kind') == 'lying-server':
        return judge_lying(pair.run(lying_run(r['client'], r['key'], r['sig'], r['kex']), timeout=90,
                                    sync_executor=True))
    if r.get('kind') == 'listener-sequence':
        oracle_listener_sequence(ctx, res, hist)
        return res.failures
    # an edited handshake: regenerate the same family of edits for the method and label
    _ka, kb = host_keys()
    alg = r.get('alg') or 'curve25519-sha256'
    label = r.get('label', '')
    rng = random.Random(r.get('seed', 0))
    cands: List[Dict[str, Any]] = []
    form = form_of(alg)
    for d in (C2S, S2C):
        for l, fn, exp in version_edits(rng, d):
            cands.append({'dir': d, 'target': 'version', 'label': f'version:{l}', 'fn': fn, 'expect': exp})
        for l, fn, exp in kexinit_edits(rng):
            cands.append({'dir': d, 'target': 'kexinit', 'label': f'kexinit:{l}', 'fn': fn, 'expect': exp})
    for d, i, name in KEXMSG_TARGETS[form]:
        for l, fn, exp in kexmsg_edits(rng, form, name, kb.public_data, group_p(alg) if form in ('dh', 'gex') else 23):
            cands.append({'dir': d, 'target': ('kex', i), 'label': f'kex:{name}:{l}', 'fn': fn, 'expect': exp})
        for l, fn in generic_msgs():
            cands.append({'dir': d, 'target': ('kex', i), 'label': f'kex:{name}:nonstrict-{l}', 'fn': fn,
                          'expect': 'effective', 'pre': (d, 'kexinit', strip_strict)})
    todo = [c for c in cands if c['label'] == label and (r.get('dir') in (None, c['dir']))] or \
           ([{'dir': None, 'target': None, 'label': label, 'fn': None, 'expect': None}] if label in ('lists', 'plain') else [])
    for c in todo:
        case = {'ccfg': r.get('ccfg') or default_cfg([alg]), 'scfg': r.get('scfg') or default_cfg([alg]),
                'edit': edit_of(c) if c['fn'] else None, 'label': c['label'], 'alg': alg,
                'expect': c['expect'], 'dir': c['dir']}
        s = pair.run(_run_cases([case]))[0]
        if 'setup_error' not in s:
            oracle_check(s, case, res, hist)
    return res.failures
