"""C05 — Access is granted exactly when a credential check succeeded.

Lean: Model/Auth.lean (the server's request handling with asyncio made explicit: requests are processed up to
their first suspension, the application's begin_auth / validator awaitables complete in any order relative to
further, pipelined requests) and Props/C05.lean (auth_sound, no_grant_by_sequencing, bad_signature_never_grants,
post_auth_requests, client_admitted; old_code_user_switch_witness for the repaired defect F1).
Correspondence: a raw scripted client (the harness writes USERAUTH_REQUEST packets itself, pipelined or not)
against a real SSHServerConnection whose SSHServer callbacks return harness-controlled futures; the same event
list drives the model; replies, final user and closure are compared.
Oracle: whenever the real server reports authentication as U, the harness's own record must contain a
successful credential check for U on that connection.
"""

from __future__ import annotations

import asyncio
import os
import random
import struct
from typing import Any, Dict, List, Optional, Tuple
from unittest import mock

import asyncssh
from asyncssh import connection as connmod

import capture
import pair
from vlib import Ctx, CorrResult, OracleResult, Failure, Disagreement, Hist

PROPERTY = 'C05'
MANIFEST = {
    'text': 'Lean 4 theorems over EVERY finite sequence of authentication requests (any users; methods none, '
            'password, password change, publickey probe/signed, hostbased, keyboard-interactive, unknown; valid or '
            'invalid credentials) interleaved in any way with the completions of the application\'s begin_auth and '
            'validator awaitables (pipelining), method-specific messages (INFO_RESPONSE and others) and other '
            'messages: authenticated as u implies a successful password / password-change / key / host-key+user / '
            'keyboard-interactive check for u on this connection or that the application declared u needs none '
            '(auth_sound); with no acceptable credential for u no sequence authenticates as u '
            '(no_grant_by_sequencing); a signature not over this session id and this exact request never grants '
            '(bad_signature_never_grants); later requests are ignored then fatal (post_auth_requests); a valid '
            'credential is admitted (client_admitted). The pre-fix transition function is kept with a '
            'machine-checked witness of defect F1 (user switch under a pending validator). Tied to the code by a '
            'raw scripted client against a real server with controlled futures.',
    'note': 'signature verification is symbolic (sigOK decided by whether the harness signed session id + exact '
            'request, for publickey and hostbased alike); GSS methods are outside the model (no gssapi here); '
            'key/certificate option enforcement after success is exercised by the oracle only',
    'technique': 'Lean 4 proof by invariant over all event interleavings + scripted differential correspondence '
                 'with controlled application futures',
}
LEAN_PROPS = ['AsyncsshModel.Props.C05']
DRIVER = 'Drivers/C05.lean'
TRUSTED = ['ideal signatures: a key signs only what its holder signs']
ASSUMPTIONS = ['the application\'s decisions are functions of (user, credential)', 'GSS methods not modelled']

MSG_USERAUTH_REQUEST, MSG_GLOBAL_REQUEST = 50, 80
ALGS = dict(encryption_algs=['chacha20-poly1305@openssh.com'], kex_algs=['curve25519-sha256'],
            compression_algs=['none'], mac_algs=())
def translate(ctx: Ctx) -> Dict[str, Any]:
    """Gen/C05.lean: which request-handling discipline the source implements (read from the AST)."""
    import ast
    import translate as T
    import vlib
    tree = ast.parse(T.read_source('asyncssh/connection.py'))
    req = T.find_def(tree, 'SSHConnection._process_userauth_request')
    fin = T.find_def(tree, 'SSHConnection._finish_userauth')
    req_src = ast.unparse(req)
    aborts = any(isinstance(n, ast.Call) and ast.unparse(n.func) == 'self._auth.cancel' for n in ast.walk(req))
    # the test deciding whether begin_auth runs: `username != self._auth_begun_username` (final) or
    # `username != self._username` (before the second repair)
    begin_assigns = [n for n in ast.walk(req) if isinstance(n, ast.Assign) and ast.unparse(n.targets[0]) == 'begin_auth'
                     and not isinstance(n.value, ast.Constant)]
    begin_by_begun = any('_auth_begun_username' in ast.unparse(n.value) for n in begin_assigns)
    stale = sum(1 for n in ast.walk(fin) if isinstance(n, ast.If) and '_auth_request_seq' in ast.unparse(n.test)
                and any(isinstance(b, ast.Return) for b in n.body))
    marks_begun = any(isinstance(n, ast.Assign) and ast.unparse(n.targets[0]) == 'self._auth_begun_username'
                      for n in ast.walk(fin))
    # a superseded request's task (possibly still inside the application's begin_auth) is cancelled, and the user
    # for whom authentication was begun is forgotten once the configuration is reloaded for another request
    cancels_task = any(isinstance(n, ast.Call) and ast.unparse(n.func) == 'self._auth_request_task.cancel'
                       for n in ast.walk(req))
    resets_begun = False
    for n in ast.walk(fin):
        if isinstance(n, ast.If) and ast.unparse(n.test) == 'begin_auth':
            body_src = [ast.unparse(b) for b in n.body]
            i_reset = next((i for i, b in enumerate(body_src) if b.replace(' ', '') == 'self._auth_begun_username=None'), None)
            i_reload = next((i for i, b in enumerate(body_src) if 'reload_config' in b), None)
            resets_begun = i_reset is not None and i_reload is not None and i_reset < i_reload
    if 'create_task' not in req_src or '_finish_userauth' not in req_src:
        raise T.Untranslatable('_process_userauth_request no longer hands over to _finish_userauth')
    out = T.header('C05', ['asyncssh/connection.py (_process_userauth_request, _finish_userauth)'])
    out += 'namespace AsyncsshModel.Gen.C05\n\n'
    out += f'/-- a new USERAUTH_REQUEST cancels the auth object in progress -/\ndef abortsPrevious : Bool := {T.lean_bool(aborts)}\n'
    out += f'/-- begin_auth is skipped only for the user it completed for -/\ndef beginTestIsBegun : Bool := {T.lean_bool(begin_by_begun and marks_begun)}\n'
    out += f'/-- how many times _finish_userauth re-checks that its request is still the latest -/\ndef staleChecks : Nat := {stale}\n'
    out += f'/-- the task of a superseded request is cancelled -/\ndef cancelsSuperseded : Bool := {T.lean_bool(cancels_task)}\n'
    out += f'/-- `_auth_begun_username` is cleared before the configuration is reloaded for a request -/\ndef resetsBegunOnReload : Bool := {T.lean_bool(resets_begun)}\n'
    out += '\nend AsyncsshModel.Gen.C05\n'
    changed = vlib.write_if_changed(vlib.module_path('AsyncsshModel.Gen.C05'), out)
    return {'gen_file': 'Gen/C05.lean', 'changed': changed, 'abortsPrevious': aborts, 'beginTestIsBegun': begin_by_begun and marks_begun,
            'staleChecks': stale, 'cancelsSuperseded': cancels_task, 'resetsBegunOnReload': resets_begun}


_KEYS: List[Any] = []


def keys() -> List[Any]:
    while len(_KEYS) < 3:
        _KEYS.append(asyncssh.generate_private_key('ssh-ed25519'))
    return _KEYS


def S(b: bytes) -> bytes:
    return struct.pack('>I', len(b)) + b


_MARKER: List[Any] = []


def marker_keys_for(u: int) -> Any:
    """an authorized-keys object standing for "user u's keys are installed" (its one entry is a key no client holds,
    so the decision stays with the application callback, which looks at WHICH object the connection holds)"""
    if not _MARKER:
        _MARKER.append(asyncssh.generate_private_key('ssh-ed25519'))
    return asyncssh.import_authorized_keys(_MARKER[0].export_public_key('openssh').decode().strip() + ' user%d\n' % u)


class AuthServer(asyncssh.SSHServer):
    def __init__(self, app: Dict[str, Any], rec: Dict[str, Any]):
        self.app, self.rec = app, rec
        # per-user authorized keys, installed the documented way (conn.set_authorized_keys in begin_auth, nothing
        # for a user without keys - examples/simple_keyed_server.py)
        self.userkeys = {u: marker_keys_for(u) for u in sorted({u for u, _k in app.get('key', [])})}

    def _install(self, u: int) -> None:
        if self.app.get('peruser') and u in self.userkeys:
            self.rec['conn'].set_authorized_keys(self.userkeys[u])

    def _installed_user(self) -> Optional[int]:
        inst = getattr(self.rec['conn'], '_authorized_client_keys', None)
        return next((u for u, obj in self.userkeys.items() if obj is inst), None)

    def connection_made(self, conn: Any) -> None:
        self.rec['conn'] = conn

    def connection_lost(self, exc: Optional[Exception]) -> None:
        self.rec['lost'] = type(exc).__name__ if exc else 'None'

    def begin_auth(self, username: str) -> Any:
        u = int(username[4:]) if username.startswith('user') else -1
        self.rec['calls'].append(('begin', u))
        res = u not in self.app['noauth']
        if self.app['async']:
            fut = asyncio.get_event_loop().create_future()
            self.rec['begins'].append((fut, res))

            async def wait() -> bool:
                r = await fut
                self._install(u)                # per-user authorized keys are installed when begin_auth completes
                return r
            return wait()
        self._install(u)
        return res

    def password_auth_supported(self) -> bool:
        return True

    def kbdint_auth_supported(self) -> bool:
        return True

    def host_based_auth_supported(self) -> bool:
        return True

    def public_key_auth_supported(self) -> bool:
        return True

    def validate_password(self, username: str, password: str) -> Any:
        u = int(username[4:])
        c = int(password[2:]) if password.startswith('pw') and password[2:].isdigit() else -1
        ok = (u, c) in self.app['pw']
        self.rec['calls'].append(('validate_password', u, c))
        fut = asyncio.get_event_loop().create_future()
        if (u, c) in self.app.get('pwexp', []):
            self.rec['vals'].append((fut, asyncssh.PasswordChangeRequired('expired'), ('pwexp', u, c)))
        else:
            self.rec['vals'].append((fut, ok, ('pw', u, c)))
        return fut

    def change_password(self, username: str, old_password: str, new_password: str) -> Any:
        u = int(username[4:])
        c = int(old_password[2:]) if old_password.startswith('pw') and old_password[2:].isdigit() else -1
        self.rec['calls'].append(('change_password', u, c))
        fut = asyncio.get_event_loop().create_future()
        if (u, c) in self.app.get('chpwexp', []):
            self.rec['vals'].append((fut, asyncssh.PasswordChangeRequired('expired'), ('chpwexp', u, c)))
        else:
            self.rec['vals'].append((fut, (u, c) in self.app.get('chpw', []), ('chpw', u, c)))
        return fut

    def validate_host_public_key(self, client_host: str, client_addr: str, client_port: int, key: Any) -> bool:
        c = int(client_host[4:]) if client_host.startswith('host') and client_host[4:].isdigit() else -1
        ok = c in self.app.get('hostkey', []) and key.public_data == keys()[c % len(keys())].public_data
        self.rec['calls'].append(('validate_host_public_key', c, ok))
        return ok

    def validate_host_based_user(self, username: str, client_host: str, client_username: str) -> Any:
        u = int(username[4:])
        c = int(client_host[4:]) if client_host.startswith('host') and client_host[4:].isdigit() else -1
        if client_username != 'cu%d' % c:
            c = -1
        self.rec['calls'].append(('validate_host_based_user', u, c))
        fut = asyncio.get_event_loop().create_future()
        self.rec['vals'].append((fut, (u, c) in self.app.get('hostuser', []), ('host', u, c)))
        return fut

    def _kbd_answer(self, a: int) -> Any:
        return True if a == 1 else (('', 'more', 'en', (('Code:', False),)) if a == 2 else False)

    def get_kbdint_challenge(self, username: str, lang: str, submethods: str) -> Any:
        u = int(username[4:])
        a = dict(self.app.get('kbd0', [])).get(u, 0)
        self.rec['calls'].append(('get_kbdint_challenge', u))
        fut = asyncio.get_event_loop().create_future()
        self.rec['vals'].append((fut, self._kbd_answer(a), ('kbd', u, None, a == 1)))
        return fut

    def validate_kbdint_response(self, username: str, responses: Any) -> Any:
        u = int(username[4:])
        r = responses[0] if len(responses) == 1 else ''
        c = int(r[1:]) if r.startswith('r') and r[1:].isdigit() else -1
        a = {(x, y): z for x, y, z in self.app.get('kbd1', [])}.get((u, c), 0)
        self.rec['calls'].append(('validate_kbdint_response', u, c))
        fut = asyncio.get_event_loop().create_future()
        self.rec['vals'].append((fut, self._kbd_answer(a), ('kbd', u, c, a == 1)))
        return fut

    def validate_public_key(self, username: str, key: Any) -> Any:
        u = int(username[4:])
        k = next((i for i, kk in enumerate(keys()) if kk.public_data == key.public_data), -1)
        # per-user mode: the keys that count are those of the user whose key set the connection really holds
        ctx = self._installed_user() if self.app.get('peruser') else u
        ok = ctx is not None and (ctx, k) in self.app['key']
        self.rec['calls'].append(('validate_public_key', u, k))
        fut = asyncio.get_event_loop().create_future()
        self.rec['vals'].append((fut, ok, ('key', u, k)))
        return fut

    def auth_completed(self) -> None:
        self.rec['auth_completed'] = True


PK_BAD = ['wrong-session-id', 'wrong-user', 'other-key', 'flipped-bit', 'empty', 'empty', 'one-byte', 'empty-inner',
          'wrong-service-signed']
HOST_BAD = ['wrong-session-id', 'wrong-user', 'other-key', 'flipped-bit', 'empty', 'empty', 'one-byte', 'empty-inner',
            'wrong-client-host']


def build_request(u: int, method: str, c: int, sid: bytes, rng: random.Random,
                  forced: Optional[str] = None) -> Tuple[bytes, Dict[str, Any]]:
    user = S(b'user%d' % u)
    head = user + S(b'ssh-connection')
    info: Dict[str, Any] = {}
    if method == 'none':
        return head + S(b'none'), info
    if method == 'unknown':
        return head + S(b'frobnicate') + b'\0\0\0\0', info
    if method == 'password':
        return head + S(b'password') + b'\0' + S(b'pw%d' % c), info
    if method == 'pwchange':
        return head + S(b'password') + b'\1' + S(b'pw%d' % c) + S(b'new%d' % c), info
    if method == 'kbdint':
        return head + S(b'keyboard-interactive') + S(b'') + S(b''), info
    if method in ('hostsig1', 'hostsig0'):
        hkey = keys()[c % len(keys())]
        body = head + S(b'hostbased') + S(hkey.algorithm) + S(hkey.public_data) + S(b'host%d' % c) + S(b'cu%d' % c)
        signed = S(sid) + bytes([MSG_USERAUTH_REQUEST]) + body
        if method == 'hostsig0':
            how = forced or rng.choice(HOST_BAD)
            info['badsig'] = 'host:' + how
            if how == 'wrong-session-id':
                sig = hkey.sign(S(bytes(len(sid))) + bytes([MSG_USERAUTH_REQUEST]) + body, hkey.algorithm)
            elif how == 'wrong-user':
                other = S(b'user%d' % (u + 1)) + S(b'ssh-connection') + S(b'hostbased') + S(hkey.algorithm) + \
                    S(hkey.public_data) + S(b'host%d' % c) + S(b'cu%d' % c)
                sig = hkey.sign(S(sid) + bytes([MSG_USERAUTH_REQUEST]) + other, hkey.algorithm)
            elif how == 'wrong-client-host':
                other = head + S(b'hostbased') + S(hkey.algorithm) + S(hkey.public_data) + S(b'host%d' % (c + 1)) + \
                    S(b'cu%d' % c)
                sig = hkey.sign(S(sid) + bytes([MSG_USERAUTH_REQUEST]) + other, hkey.algorithm)
            elif how == 'other-key':
                sig = keys()[(c + 1) % len(keys())].sign(signed, hkey.algorithm)
            elif how == 'empty':
                sig = b''
            elif how == 'one-byte':
                sig = b'\0'
            elif how == 'empty-inner':
                sig = S(hkey.algorithm) + S(b'')
            else:
                good = bytearray(hkey.sign(signed, hkey.algorithm))
                good[-1] ^= 1
                sig = bytes(good)
        else:
            sig = hkey.sign(signed, hkey.algorithm)
        return body + S(sig), info
    key = keys()[c % len(keys())]
    alg = key.algorithm
    blob = key.public_data
    if method == 'pkprobe':
        return head + S(b'publickey') + b'\0' + S(alg) + S(blob), info
    body = head + S(b'publickey') + b'\1' + S(alg) + S(blob)
    signed = S(sid) + bytes([MSG_USERAUTH_REQUEST]) + body
    if method == 'pksig0':
        how = forced or rng.choice(PK_BAD)
        info['badsig'] = how
        if how == 'wrong-session-id':
            signed = S(bytes(len(sid))) + bytes([MSG_USERAUTH_REQUEST]) + body
            sig = key.sign(signed, alg)
        elif how == 'wrong-user':
            other = S(b'user%d' % (u + 1)) + S(b'ssh-connection') + S(b'publickey') + b'\1' + S(alg) + S(blob)
            sig = key.sign(S(sid) + bytes([MSG_USERAUTH_REQUEST]) + other, alg)
        elif how == 'other-key':
            sig = keys()[(c + 1) % len(keys())].sign(signed, alg)
        elif how == 'empty':
            sig = b''                           # signature string of length zero
        elif how == 'one-byte':
            sig = b'\0'
        elif how == 'empty-inner':
            sig = S(alg) + S(b'')               # well-framed blob with an empty signature value
        elif how == 'wrong-service-signed':
            other = S(b'user%d' % u) + S(b'ssh-userauth') + S(b'publickey') + b'\1' + S(alg) + S(blob)
            sig = key.sign(S(sid) + bytes([MSG_USERAUTH_REQUEST]) + other, alg)
        else:
            good = bytearray(key.sign(signed, alg))
            good[-1] ^= 1
            sig = bytes(good)
    else:
        sig = key.sign(signed, alg)
    return body + S(sig), info


async def run_script(app: Dict[str, Any], events: List[str], seed: int, settle_each: bool = True) -> Dict[str, Any]:
    rng = random.Random(seed)
    rec: Dict[str, Any] = {'calls': [], 'begins': [], 'vals': [], 'auth_completed': False}
    out: Dict[str, Any] = {'events': events, 'app': app, 'seed': seed}
    with mock.patch.object(connmod.SSHClientConnection, 'try_next_auth', lambda self, **kw: None), \
            capture.PacketTap() as tap, capture.KeyTap() as kt:
        coro, s, hub = await pair.make_pair(server_factory=lambda: AuthServer(app, rec), connect=False,
                                            server_opts=dict(trust_client_host=True, **ALGS), client_opts=dict(**ALGS))
        task = asyncio.ensure_future(coro)
        c = None
        for _ in range(600):
            t = hub.trans.get('client')
            c = t.proto if t is not None else None
            if c is not None and getattr(c, '_auth_in_progress', False):
                break
            await asyncio.sleep(0.005)
        if c is None or not getattr(c, '_auth_in_progress', False):
            out['skip'] = 'client-never-reached-auth'
            task.cancel()
            return out
        await pair.settle(5)

        from asyncssh import packet as packetmod

        class DummyAuth(packetmod.SSHPacketLogger):
            """stands in for the client's auth object so that the real client tolerates every reply"""
            def __init__(self_, conn: Any) -> None:
                self_._conn = conn

            @property
            def logger(self_) -> Any:
                return self_._conn.logger

            def auth_failed(self_) -> None:
                pass

            def auth_succeeded(self_) -> None:
                pass

            def cancel(self_) -> None:
                pass

            def process_packet(self_, *a: Any) -> bool:
                return True
        c._auth = DummyAuth(c)
        sid = kt.keys[id(c)][0][1]
        recv0 = len(tap.recv.get(id(c), []))
        infos = []
        for ev in events:
            parts = ev.split(':')
            try:
                if getattr(c, '_auth', None) is None and not getattr(c, '_auth_complete', False):
                    c._auth = DummyAuth(c)
                if parts[0] == 'req':
                    payload, info = build_request(int(parts[1]), parts[2], int(parts[3]), sid, rng,
                                                  parts[4] if len(parts) > 4 else None)
                    infos.append(info)
                    c.send_packet(MSG_USERAUTH_REQUEST, payload)
                elif parts[0] == 'begin':
                    k = int(parts[1])
                    if k < len(rec['begins']) and not rec['begins'][k][0].done():
                        rec['begins'][k][0].set_result(rec['begins'][k][1])
                elif parts[0] == 'val':
                    k = int(parts[1])
                    if k < len(rec['vals']) and not rec['vals'][k][0].done():
                        v = rec['vals'][k][1]
                        if isinstance(v, Exception):
                            rec['vals'][k][0].set_exception(v)
                        else:
                            rec['vals'][k][0].set_result(v)
                        d = rec['vals'][k][2]
                        rec.setdefault('completed_vals', []).append(
                            d if d[0] == 'kbd' else d + ((v is True),))
                elif parts[0] == 'info':
                    c.send_packet(61, struct.pack('>I', 1) + S(b'r%d' % int(parts[1])))
                elif parts[0] == 'authmsg':
                    c.send_packet(62, b'')
                elif parts[0] == 'other':
                    # the client's own send_packet would hold a connection-level message back until ITS view of
                    # authentication is complete; a hostile client does not, so lift that for this one packet
                    saved = c._auth_complete
                    c._auth_complete = True
                    try:
                        c.send_packet(MSG_GLOBAL_REQUEST, S(b'keepalive@openssh.com') + b'\0')
                    finally:
                        c._auth_complete = saved
            except Exception as e:
                out.setdefault('client_exc', []).append(type(e).__name__)
            if settle_each or (parts[0] == 'req' and parts[2].startswith('hostsig')):
                await pair.settle(12)
        await pair.settle(25)
        replies = [p[0] for _q, p, _n in tap.recv.get(id(c), [])[recv0:]]
        out['replies'] = ''.join({51: 'F', 52: 'S', 60: 'P', 3: 'U'}.get(t, '') for t in replies)
        srv_user = s.get_extra_info('username')
        out['complete'] = (int(srv_user[4:]) if srv_user and srv_user.startswith('user') else None) \
            if rec['auth_completed'] else None
        out['closed'] = s.is_closed() or 'lost' in rec
        out['lost'] = rec.get('lost')
        out['calls'] = rec['calls']
        out['completed_vals'] = rec.get('completed_vals', [])
        out['infos'] = infos
        for conn in (c, s):
            try:
                conn.abort()
            except Exception:
                pass
        task.cancel()
        await asyncio.gather(task, return_exceptions=True)
        for fut, _r in rec['begins']:
            if not fut.done():
                fut.cancel()
        for fut, _r, _d in rec['vals']:
            if not fut.done():
                fut.cancel()
        await pair.settle(5)
    return out


def gen_app(rng: random.Random) -> Dict[str, Any]:
    users = [1, 2, 3]
    pairs = lambda lo, hi: sorted({(rng.choice(users), rng.randrange(3)) for _ in range(rng.randint(lo, hi))})  # noqa: E731
    app = _gen_app_tables(rng, users, pairs)
    if rng.random() < 0.7:
        app['hostkey'] = sorted(set(app['hostkey']) | {c for _u, c in app['hostuser']})
    return app


def _gen_app_tables(rng: random.Random, users: List[int], pairs: Any) -> Dict[str, Any]:
    return {'async': rng.random() < 0.6, 'peruser': rng.random() < 0.5,
            'noauth': sorted(u for u in users if rng.random() < 0.1),
            'pw': pairs(0, 2), 'key': pairs(0, 2),
            'pwexp': pairs(0, 1), 'chpw': pairs(0, 2), 'chpwexp': pairs(0, 1),
            'hostkey': sorted({rng.randrange(3) for _ in range(rng.randint(0, 3))}), 'hostuser': pairs(0, 2),
            'kbd0': sorted({u: rng.choice([0, 1, 2, 2]) for u in users if rng.random() < 0.7}.items()),
            'kbd1': sorted((u, c, a) for (u, c), a in {(rng.choice(users), rng.randrange(3)): rng.choice([0, 1, 1, 2])
                                                     for _ in range(rng.randint(0, 3))}.items())}


def gen_events(rng: random.Random, app: Dict[str, Any]) -> List[str]:
    evs: List[str] = []
    nb = nv = 0          # upper bounds on how many begin / validator futures may exist
    for _ in range(rng.randint(1, 8)):
        r = rng.random()
        if r < 0.55:
            u = rng.choice([1, 2, 3])
            m = rng.choice(['none', 'password', 'password', 'pkprobe', 'pksig1', 'pksig0', 'unknown', 'pwchange',
                            'hostsig1', 'hostsig0', 'kbdint', 'kbdint'])
            c = rng.randrange(3)
            if rng.random() < 0.5 and app.get('chpw') and m == 'pwchange':
                u, c = rng.choice(app['chpw'])
            if rng.random() < 0.6 and app.get('hostuser') and m.startswith('hostsig'):
                u, c = rng.choice(app['hostuser'])
            if m == 'kbdint':
                c = 0
            if rng.random() < 0.5 and app['pw'] and m == 'password':
                u, c = rng.choice(app['pw'])
            if rng.random() < 0.5 and app['key'] and m.startswith('pk'):
                u, c = rng.choice(app['key'])
            evs.append(f'req:{u}:{m}:{c}')
            nb += 1
            nv += 1
        elif r < 0.70 and nb:
            evs.append(f'begin:{rng.randrange(nb)}')
        elif r < 0.86 and nv:
            evs.append(f'val:{rng.randrange(nv)}')
        elif r < 0.94:
            kb = [(u, c) for u, c, _a in app.get('kbd1', [])]
            evs.append(f'info:{rng.choice(kb)[1] if kb and rng.random() < 0.7 else rng.randrange(3)}')
            nv += 1
        elif r < 0.96:
            evs.append('authmsg')
        elif rng.random() < 0.3:
            evs.append('other')
    # let everything pending complete in some order at the end
    tail = [f'begin:{k}' for k in range(nb)] + [f'val:{k}' for k in range(nv)]
    rng.shuffle(tail)
    return evs + tail[:rng.randint(0, len(tail))]


def model_line(app: Dict[str, Any], events: List[str], variant: str = 'new') -> str:
    f = lambda ps: ','.join(f'{a}:{b}' for a, b in ps) or '-'  # noqa: E731
    if variant == 'new':
        k1 = ','.join(f'{u}:{c}:{a}' for u, c, a in app.get('kbd1', [])) or '-'
        return (f'run2 {1 if app["async"] else 0}{1 if app.get("peruser") else 0} {f([(u, 1) for u in app["noauth"]])} '
                f'{f(app["pw"])} {f(app["key"])} {f(app.get("pwexp", []))} {f(app.get("chpw", []))} '
                f'{f(app.get("chpwexp", []))} {f([(c, 1) for c in app.get("hostkey", [])])} {f(app.get("hostuser", []))} '
                f'{f(app.get("kbd0", []))} {k1} ' + ' '.join(':'.join(e.split(':')[:4]) for e in events))
    return (f'run {variant} {1 if app["async"] else 0}{1 if app.get("peruser") else 0} {f([(u, 1) for u in app["noauth"]])} {f(app["pw"])} '
            f'{f(app["key"])} ' + ' '.join(events))


CORPUS = [
    ({'async': True, 'peruser': True, 'noauth': [], 'pw': [], 'key': [(1, 1), (2, 2)]},
     ['req:1:pkprobe:1', 'begin:0', 'val:0', 'req:2:none:0', 'req:2:pksig1:1', 'val:1', 'begin:2', 'val:2']),   # second form of F1
    ({'async': True, 'noauth': [], 'pw': [(1, 7)], 'key': []},
     ['req:1:password:7', 'begin:0', 'req:2:none:0', 'val:0']),                   # F1: pipelined user switch
    ({'async': True, 'noauth': [2], 'pw': [], 'key': []},
     ['req:2:none:0', 'req:3:none:0', 'begin:0', 'begin:1']),                     # begin_auth for 2 answers after switch to 3
    ({'async': False, 'noauth': [], 'pw': [(1, 1)], 'key': [(2, 0)]},
     ['req:1:password:1', 'req:2:pksig1:0', 'val:0', 'val:1']),
    ({'async': False, 'noauth': [], 'pw': [], 'key': [(1, 0)]},
     ['req:1:pkprobe:0', 'val:0', 'req:1:pksig0:0', 'val:1', 'req:1:pksig1:0', 'val:2', 'req:1:none:0', 'other', 'req:1:none:0']),
] + [({'async': False, 'noauth': [], 'pw': [], 'key': [(1, 0)]}, [f'req:1:pksig0:0:{how}', 'val:0'])
     for how in sorted(set(PK_BAD))] + \
    [({'async': False, 'noauth': [], 'pw': [], 'key': [], 'hostkey': [0], 'hostuser': [(1, 0)]},
      [f'req:1:hostsig0:0:{how}', 'val:0', 'val:1']) for how in sorted(set(HOST_BAD))] + [
    ({'async': True, 'noauth': [], 'pw': [], 'key': [], 'hostkey': [1], 'hostuser': [(2, 1)]},
     ['req:2:hostsig1:1', 'begin:0', 'val:0']),
    ({'async': False, 'noauth': [], 'pw': [], 'key': [], 'kbd0': [(1, 2)], 'kbd1': [(1, 2, 2), (1, 1, 1), (1, 0, 0)]},
     ['req:1:kbdint:0', 'val:0', 'info:2', 'val:1', 'info:0', 'info:1', 'val:2', 'val:3']),     # second response cancels the first
    ({'async': False, 'noauth': [], 'pw': [], 'key': [], 'kbd0': [(1, 0)], 'kbd1': [(1, 1, 1)]},
     ['req:1:kbdint:0', 'info:1', 'val:0', 'val:1']),                                             # response before the challenge
    ({'async': False, 'noauth': [], 'pw': [], 'key': [], 'kbd0': [(1, 2), (2, 2)], 'kbd1': [(1, 1, 1)]},
     ['req:1:kbdint:0', 'val:0', 'info:1', 'req:2:kbdint:0', 'val:1', 'val:2']),                 # user switch under a pending response
    ({'async': False, 'noauth': [], 'pw': [(3, 0)], 'key': [], 'pwexp': [(3, 0)], 'chpw': [(3, 1)], 'chpwexp': [(3, 2)]},
     ['req:3:password:0', 'val:0', 'authmsg', 'req:3:pwchange:2', 'val:1', 'req:3:pwchange:1', 'val:2']),
    ({'async': False, 'noauth': [], 'pw': [], 'key': [], 'kbd0': [(1, 2)], 'kbd1': [(1, 0, 0), (1, 1, 1)]},
     ['req:1:kbdint:0', 'val:0', 'info:0', 'info:1', 'val:1', 'req:2:none:0', 'val:2']),       # superseded response must be dead
    # per-user keys must not survive a switch to a user who has none (reload_config resets them)
    ({'async': True, 'peruser': True, 'noauth': [], 'pw': [], 'key': [(1, 1)]},
     ['req:1:pkprobe:1', 'begin:0', 'val:0', 'req:2:pksig1:1', 'begin:1', 'val:1']),
    ({'async': False, 'peruser': True, 'noauth': [], 'pw': [], 'key': [(1, 1)]},
     ['req:1:none:0', 'req:2:pksig1:1', 'val:0']),
    # a superseded begin_auth must not install its user's keys after authentication moved on (third form of F1)
    ({'async': True, 'peruser': True, 'noauth': [], 'pw': [], 'key': [(1, 1)]},
     ['req:1:none:0', 'req:3:pksig1:1', 'begin:0', 'begin:1', 'val:0']),
    ({'async': True, 'peruser': True, 'noauth': [], 'pw': [], 'key': [(1, 1)]},
     ['req:1:none:0', 'req:3:pksig1:1', 'begin:1', 'begin:0', 'val:0']),
    ({'async': True, 'peruser': True, 'noauth': [], 'pw': [], 'key': [(1, 0), (3, 1)]},
     ['req:3:unknown:0', 'begin:0', 'req:1:pksig1:0', 'req:3:pkprobe:1', 'begin:1', 'val:0']),
    ({'async': False, 'noauth': [], 'pw': [], 'key': []}, ['info:0']),
    ({'async': False, 'noauth': [], 'pw': [(1, 1)], 'key': []}, ['req:1:password:1', 'val:0', 'info:0']),
]


def correspondence(ctx: Ctx) -> CorrResult:
    res = CorrResult()
    hist = Hist()
    rng = ctx.subrng('corr')
    cases = list(CORPUS)
    for _ in range(ctx.n(150, 2500)):
        app = gen_app(rng)
        cases.append((app, gen_events(rng, app)))

    async def run_all() -> List[Dict[str, Any]]:
        return [await run_script(app, evs, i) for i, (app, evs) in enumerate(cases)]
    outs = pair.run(run_all(), timeout=3300, sync_executor=True)
    keep = [o for o in outs if 'skip' not in o]
    lines = []
    for o in keep:
        # the model's pksig verdict comes from what the harness actually signed
        lines.append(model_line(o['app'], o['events']))
    model = ctx.model(DRIVER, lines) if lines else []
    for o, m in zip(keep, model):
        res.cases += 1
        comp = '-' if o['complete'] is None else str(o['complete'])
        impl = f'out={o["replies"]} complete={comp} closed={1 if o["closed"] else 0}'
        hist.hit('complete' if o['complete'] is not None else ('closed' if o['closed'] else 'pending'))
        if m != impl:
            res.disagreements.append(Disagreement({'app': o['app'], 'events': o['events']}, m, impl,
                                                  'correspondence:auth-script'))
    res.nontrivial = len(set((str(o['app']), tuple(o['events'])) for o in keep if len(o['events']) > 1))
    res.histogram = dict(hist)
    res.samples = [{'app': o['app'], 'events': o['events'], 'model': m} for o, m in list(zip(keep, model))[:3]]
    res.rule = ('seeded application tables (3 users, passwords, keys, no-auth users, sync/async begin_auth) and event '
                'lists of <= 8 requests/completions plus a shuffled tail of completions; distinct = distinct '
                '(application, event list) with more than one event')
    return res


def granted(o: Dict[str, Any], u: int) -> bool:
    """the harness's own record: a successful check for u on this connection"""
    if u in o['app']['noauth']:
        return True
    hostsigned = set()
    for ev in o['events']:
        p = ev.split(':')
        if p[0] == 'req' and p[2] == 'hostsig1':
            hostsigned.add((int(p[1]), int(p[3])))
    for kind, uu, c, ok in o['completed_vals']:
        if uu == u and ok and kind == 'pw' and (u, c) in [tuple(x) for x in o['app']['pw']]:
            return True
        if uu == u and ok and kind == 'chpw' and (u, c) in [tuple(x) for x in o['app'].get('chpw', [])]:
            return True
        if uu == u and ok and kind == 'kbd':
            return True       # the application itself answered True for this user
        if uu == u and ok and kind == 'host' and (u, c) in hostsigned and c in o['app'].get('hostkey', []) and \
                (u, c) in [tuple(x) for x in o['app'].get('hostuser', [])]:
            return True
    # key: an authorised key for u AND a request signed over this session id for u with that key
    signed_ok = set()
    i = 0
    for ev in o['events']:
        p = ev.split(':')
        if p[0] == 'req':
            if p[2] == 'pksig1':
                signed_ok.add((int(p[1]), int(p[3]) % 3))
            i += 1
    truly = set(tuple(x) for x in o['app']['key'])
    for kind, uu, k, ok in o['completed_vals']:
        if kind == 'key' and uu == u and ok and (u, k) in signed_ok and (u, k) in truly:
            return True
    return False


def oracle(ctx: Ctx) -> OracleResult:
    res = OracleResult()
    hist = Hist()
    rng = ctx.subrng('oracle')
    cases = list(CORPUS)
    for s in ctx.suspects:
        if isinstance(s, dict) and 'events' in s:
            cases.append((s['app'], s['events']))
    for _ in range(ctx.n(250, 4000)):
        app = gen_app(rng)
        if rng.random() < 0.5:
            app['async'] = True
        cases.append((app, gen_events(rng, app)))

    async def run_all() -> List[Dict[str, Any]]:
        outs = []
        for i, (app, evs) in enumerate(cases):
            outs.append(await run_script(app, evs, i, settle_each=(i % 3 != 0)))
        return outs
    outs = pair.run(run_all(), timeout=3300, sync_executor=True)
    for o in outs:
        if 'skip' in o:
            continue
        res.evaluations += 1
        key = {'app': o['app'], 'events': o['events'], 'seed': o['seed'],
               'bad_signature_kinds': [i.get('badsig') for i in o.get('infos', []) if i.get('badsig')]}
        u = o['complete']
        hist.hit('authenticated' if u is not None else 'not-authenticated')
        if u is not None and not granted(o, u):
            checked = sorted(set(c[1] for c in o['completed_vals'] if c[3]))
            sig = 'authenticated-without-credential-check'
            if checked and u not in checked:
                sig += ':user-switched-while-validator-pending' if any(e.startswith('req') for e in o['events'][1:]) else ''
            res.failures.append(Failure(sig, f'server reports authentication as user{u}; successful checks were for '
                                             f'users {checked}; events {o["events"]} {key["bad_signature_kinds"]}', key))
    res.nontrivial = len(set((str(o['app']), tuple(o['events'])) for o in outs if 'skip' not in o))
    oracle_certs(ctx, res, hist)
    res.histogram = dict(hist)
    res.samples = [{'app': o['app'], 'events': o['events'], 'complete': o.get('complete')} for o in outs[:3]]
    res.rule = 'as the correspondence, a third of the scripts fired without settling between events (true pipelining)'
    return res


def oracle_certs(ctx: Ctx, res: OracleResult, hist: Hist) -> None:
    """Certificate user authentication against a real server whose only authorisation is an authorized_keys CA line:
    access is granted exactly when the certificate was signed by that CA, is a user certificate, is valid now, and
    names the user (through the line's principals= option when it has one, else through its own principal list)."""
    import tempfile
    import time
    rng = ctx.subrng('oracle-certs')
    ca, other_ca = (asyncssh.generate_private_key('ssh-ed25519') for _ in range(2))
    user_key = asyncssh.generate_private_key('ssh-ed25519')
    now = int(time.time())
    tmp = tempfile.mkdtemp(prefix='c05certs-', dir=ctx.tmpdir())

    def cert(signer: Any, principals: Any, kind: str = 'user', va: int = 0, vb: int = 0xffffffffffffffff) -> Any:
        if kind == 'host':
            return signer.generate_host_certificate(user_key, 'k', principals=principals, valid_after=va, valid_before=vb)
        return signer.generate_user_certificate(user_key, 'k', principals=principals, valid_after=va, valid_before=vb)

    # (authorized_keys options, login name, certificate, expected admission, label)
    cases: List[Tuple[str, str, Any, bool, str]] = []
    for opts, restricted in (('cert-authority,principals="admin"', True), ('cert-authority', False),
                             ('cert-authority,principals="ops,adm*,!admin2"', True)):
        want_name = 'admin'
        cases += [
            (opts, want_name, cert(ca, ['admin']), True, 'names-admin'),
            (opts, want_name, cert(ca, ['guest']), False, 'names-guest'),
            (opts, want_name, cert(ca, ['guest', 'admin']), True, 'names-both'),
            (opts, want_name, cert(other_ca, ['admin']), False, 'other-ca'),
            (opts, want_name, cert(ca, ['admin'], 'host'), False, 'host-certificate'),
            (opts, want_name, cert(ca, ['admin'], va=now + 3600), False, 'not-yet-valid'),
            (opts, want_name, cert(ca, ['admin'], vb=now - 3600), False, 'expired'),
        ]
        if restricted:
            # a certificate naming nobody can never satisfy a principals= restriction
            cases.append((opts, want_name, cert(ca, []), False, 'no-principals-vs-principals-option'))
            cases.append((opts, 'somebody-else', cert(ca, []), False, 'no-principals-vs-principals-option-other-user'))
    rng.shuffle(cases)

    async def one(opts: str, name: str, crt: Any) -> Tuple[bool, str]:
        path = os.path.join(tmp, 'ak%d' % rng.randrange(1 << 30))
        with open(path, 'w') as f:
            f.write(opts + ' ' + ca.export_public_key('openssh').decode())
        try:
            c, s, hub = await asyncio.wait_for(pair.make_pair(
                server_factory=asyncssh.SSHServer,          # authentication required, decided by authorized_keys only
                server_opts=dict(authorized_client_keys=path, **ALGS),
                client_opts=dict(username=name, client_keys=[(user_key, crt)], **ALGS)), 20)
        except Exception as e:
            return False, type(e).__name__
        who = s.get_extra_info('username')
        c.abort()
        await pair.settle(5)
        return True, str(who)

    async def go() -> List[Tuple[Tuple[str, str, Any, bool, str], Tuple[bool, str]]]:
        return [(c, await one(c[0], c[1], c[2])) for c in cases]
    import os
    for (opts, name, _crt, expect, label), (admitted, detail) in pair.run(go(), timeout=600, sync_executor=True):
        res.evaluations += 1
        hist.hit(f'cert:{label}:{"admitted" if admitted else "refused"}')
        key = {'kind': 'cert', 'options': opts, 'user': name, 'label': label}
        if admitted and not expect:
            res.failures.append(Failure(f'authenticated-without-credential-check:certificate:{label}',
                                        f'server with authorized_keys line {opts!r} <CA> admitted user {name!r} '
                                        f'(reported as {detail}) presenting a certificate that is {label}', key))
        if expect and not admitted:
            res.notes.append(f'certificate {label} for {opts!r} refused ({detail})')
            hist.hit('note:valid-certificate-refused')
    res.nontrivial += len(set((c[0], c[4]) for c in cases))


def replay(ctx: Ctx, rep: Dict[str, Any]) -> List[Failure]:
    r = rep.get('replay', rep)
    o = pair.run(run_script(r['app'], r['events'], r.get('seed', 0)), sync_executor=True)
    if o.get('complete') is not None and not granted(o, o['complete']):
        return [Failure('authenticated-without-credential-check', str(o['complete']), r)]
    return []
