"""C05 — Access is granted exactly when a credential check succeeded.

Lean: Model/Auth.lean (the server's request handling with asyncio made explicit: requests are processed up to
their first suspension, the application's begin_auth / validator awaitables complete in any order relative to
further, pipelined requests; hostbased requests name a client host and present a host key, the host they are decided
for is the named one or the reverse lookup of the peer; keyboard-interactive objects know whether an INFO_REQUEST is
outstanding; whose key options are in force) and Props/C05.lean (auth_sound, no_grant_by_sequencing,
bad_signature_never_grants, post_auth_requests, client_admitted, kbd_response_needs_challenge,
options_are_the_credentials; old_code_user_switch_witness for the repaired defect F1 and prefix_*_witness for the
four audit findings repaired later, about the parametrised pre-repair transition function Auth.stepQ).
Correspondence: a raw scripted client (the harness writes USERAUTH_REQUEST packets itself, pipelined or not)
against a real SSHServerConnection whose SSHServer callbacks return harness-controlled futures; the same event
list drives the model; replies, final user and closure are compared.  A second family of scripts (probes, bad and
good signatures, passwords against real authorized_keys entries with options) compares whose key options are in force.
Oracle: whenever the real server reports authentication as U, the harness's own record must contain a
successful credential check for U on that connection (for hostbased: by a key trusted for the host the request is
decided for, the application asked about that host; for keyboard-interactive: responses to a challenge the
application issued); the restrictions in force afterwards are those of the accepted credential; a valid password or
key is admitted whatever the state of the user's AuthorizedKeysFile (_c05_extra.py).
"""

from __future__ import annotations

import asyncio
import os
import random
import struct
from typing import Any, Dict, List, Optional, Tuple
from unittest import mock

import asyncssh
from asyncssh import connection as connmod

import capture
import pair
from vlib import Ctx, CorrResult, OracleResult, Failure, Disagreement, Hist

from props import _c05_extra as X

PROPERTY = 'C05'
MANIFEST = {
    'text': 'Lean 4 theorems over EVERY finite sequence of authentication requests (any users; methods none, '
            'password, password change, publickey probe/signed, hostbased, keyboard-interactive, unknown; valid or '
            'invalid credentials) interleaved in any way with the completions of the application\'s begin_auth and '
            'validator awaitables (pipelining), method-specific messages (INFO_RESPONSE and others) and other '
            'messages: authenticated as u implies a successful password / password-change / key / host-key+user / '
            'keyboard-interactive check for u on this connection or that the application declared u needs none '
            '(auth_sound); with no acceptable credential for u no sequence authenticates as u '
            '(no_grant_by_sequencing); a signature not over this session id and this exact request never grants '
            '(bad_signature_never_grants); a hostbased request is decided for ONE host - the one it names, or the '
            'reverse lookup of the peer unless trust_client_host - whose trusted keys and whose acceptance by the '
            'application count, whatever earlier requests named (callHonest clause 7, bad_host_signature_never_grants); '
            'a keyboard-interactive response reaches the application only after a challenge it issued for that user '
            '(kbd_response_needs_challenge); the key options in force after success are those of the key whose '
            'signature granted access (options_are_the_credentials); later requests are ignored then fatal '
            '(post_auth_requests); a valid credential is admitted (client_admitted). The pre-fix transition functions '
            'are kept with machine-checked witnesses of defect F1 (user switch under a pending validator) and of the '
            'four audit findings (trusted host keys accumulating across requests, application asked about the claimed '
            'host, INFO_RESPONSE before the challenge, stale key options). Tied to the code by a raw scripted client '
            'against a real server with controlled futures and by flags read from the AST.',
    'note': 'signature verification is symbolic (sigOK decided by whether the harness signed session id + exact '
            'request, for publickey and hostbased alike); GSS methods are outside the model (no gssapi here); '
            'certificate options after success and the per-user AuthorizedKeysFile of the configuration are exercised '
            'by the oracle only (real authorized_keys / files); the reverse lookup of the peer address is a parameter',
    'technique': 'Lean 4 proof by invariant over all event interleavings + scripted differential correspondence '
                 'with controlled application futures',
}
LEAN_PROPS = ['AsyncsshModel.Props.C05']
DRIVER = 'Drivers/C05.lean'
TRUSTED = ['ideal signatures: a key signs only what its holder signs']
ASSUMPTIONS = ['the application\'s decisions are functions of (user, credential)', 'GSS methods not modelled']

MSG_USERAUTH_REQUEST, MSG_GLOBAL_REQUEST = 50, 80
ALGS = dict(encryption_algs=['chacha20-poly1305@openssh.com'], kex_algs=['curve25519-sha256'],
            compression_algs=['none'], mac_algs=())
def translate(ctx: Ctx) -> Dict[str, Any]:
    """Gen/C05.lean: which request-handling discipline the source implements (read from the AST)."""
    import ast
    import translate as T
    import vlib
    tree = ast.parse(T.read_source('asyncssh/connection.py'))
    req = T.find_def(tree, 'SSHConnection._process_userauth_request')
    fin = T.find_def(tree, 'SSHConnection._finish_userauth')
    req_src = ast.unparse(req)
    aborts = any(isinstance(n, ast.Call) and ast.unparse(n.func) == 'self._auth.cancel' for n in ast.walk(req))
    # the test deciding whether begin_auth runs: `username != self._auth_begun_username` (final) or
    # `username != self._username` (before the second repair)
    begin_assigns = [n for n in ast.walk(req) if isinstance(n, ast.Assign) and ast.unparse(n.targets[0]) == 'begin_auth'
                     and not isinstance(n.value, ast.Constant)]
    begin_by_begun = any('_auth_begun_username' in ast.unparse(n.value) for n in begin_assigns)
    stale = sum(1 for n in ast.walk(fin) if isinstance(n, ast.If) and '_auth_request_seq' in ast.unparse(n.test)
                and any(isinstance(b, ast.Return) for b in n.body))
    marks_begun = any(isinstance(n, ast.Assign) and ast.unparse(n.targets[0]) == 'self._auth_begun_username'
                      for n in ast.walk(fin))
    # a superseded request's task (possibly still inside the application's begin_auth) is cancelled, and the user
    # for whom authentication was begun is forgotten once the configuration is reloaded for another request
    cancels_task = any(isinstance(n, ast.Call) and ast.unparse(n.func) == 'self._auth_request_task.cancel'
                       for n in ast.walk(req))
    resets_begun = False
    for n in ast.walk(fin):
        if isinstance(n, ast.If) and ast.unparse(n.test) == 'begin_auth':
            body_src = [ast.unparse(b) for b in n.body]
            i_reset = next((i for i, b in enumerate(body_src) if b.replace(' ', '') == 'self._auth_begun_username=None'), None)
            i_reload = next((i for i, b in enumerate(body_src) if 'reload_config' in b), None)
            resets_begun = i_reset is not None and i_reload is not None and i_reset < i_reload
    if 'create_task' not in req_src or '_finish_userauth' not in req_src:
        raise T.Untranslatable('_process_userauth_request no longer hands over to _finish_userauth')
    quirks = _translate_quirks(tree, req)
    out = T.header('C05', ['asyncssh/connection.py (_process_userauth_request, _finish_userauth)'])
    out += 'namespace AsyncsshModel.Gen.C05\n\n'
    out += f'/-- a new USERAUTH_REQUEST cancels the auth object in progress -/\ndef abortsPrevious : Bool := {T.lean_bool(aborts)}\n'
    out += f'/-- begin_auth is skipped only for the user it completed for -/\ndef beginTestIsBegun : Bool := {T.lean_bool(begin_by_begun and marks_begun)}\n'
    out += f'/-- how many times _finish_userauth re-checks that its request is still the latest -/\ndef staleChecks : Nat := {stale}\n'
    out += f'/-- the task of a superseded request is cancelled -/\ndef cancelsSuperseded : Bool := {T.lean_bool(cancels_task)}\n'
    out += f'/-- `_auth_begun_username` is cleared before the configuration is reloaded for a request -/\ndef resetsBegunOnReload : Bool := {T.lean_bool(resets_begun)}\n'
    for name, doc in (('trustedKeysPerRequest', '`_match_known_hosts` rebuilds the trusted host keys for the host it is called for'),
                      ('hostUserAskedValidatedHost', '`validate_host_based_user` is passed the host the key was validated for'),
                      ('infoResponseNeedsRequest', 'a keyboard-interactive INFO_RESPONSE is refused unless an INFO_REQUEST is outstanding'),
                      ('keyOptionsResetPerRequest', 'key and certificate options are forgotten when a new USERAUTH_REQUEST arrives')):
        out += f'/-- {doc} -/\ndef {name} : Bool := {T.lean_bool(quirks[name])}\n'
    out += '\nend AsyncsshModel.Gen.C05\n'
    changed = vlib.write_if_changed(vlib.module_path('AsyncsshModel.Gen.C05'), out)
    info = {'gen_file': 'Gen/C05.lean', 'changed': changed, 'abortsPrevious': aborts, 'beginTestIsBegun': begin_by_begun and marks_begun,
            'staleChecks': stale, 'cancelsSuperseded': cancels_task, 'resetsBegunOnReload': resets_begun}
    info.update(quirks)
    return info


def _translate_quirks(tree: Any, req: Any) -> Dict[str, bool]:
    """the four source disciplines behind Gen.C05.trustedKeysPerRequest .. keyOptionsResetPerRequest"""
    import ast
    import translate as T

    def is_self_attr(n: Any, name: Optional[str] = None) -> bool:
        return isinstance(n, ast.Attribute) and isinstance(n.value, ast.Name) and n.value.id == 'self' and \
            (name is None or n.attr == name)

    # (1) _match_known_hosts assigns a new set to self._trusted_host_keys (before: only .add() on the old one)
    mkh = T.find_def(tree, 'SSHConnection._match_known_hosts')
    if not any(isinstance(n, ast.Call) and ast.unparse(n.func) == 'match_known_hosts' for n in ast.walk(mkh)):
        raise T.Untranslatable('_match_known_hosts no longer calls match_known_hosts')
    per_request = any(isinstance(n, ast.Assign) and any(is_self_attr(t, '_trusted_host_keys') for t in n.targets)
                      for n in ast.walk(mkh))
    # (2) validate_host_based_auth: the host passed to validate_host_based_user is the one _validate_host_key got
    vha = T.find_def(tree, 'SSHServerConnection.validate_host_based_auth')
    calls = {ast.unparse(n.func).split('.')[-1]: n for n in ast.walk(vha) if isinstance(n, ast.Call)}
    if '_validate_host_key' not in calls or 'validate_host_based_user' not in calls or \
            len(calls['validate_host_based_user'].args) != 3 or not calls['_validate_host_key'].args:
        raise T.Untranslatable('validate_host_based_auth changed shape')
    asked_validated = ast.unparse(calls['validate_host_based_user'].args[1]) == \
        ast.unparse(calls['_validate_host_key'].args[0])
    # (3) _ServerKbdIntAuth._process_info_response raises unless a flag set by _send_challenge (next to sending
    #     INFO_REQUEST) is set, and clears it
    atree = ast.parse(T.read_source('asyncssh/auth.py'))
    pir = T.find_def(atree, '_ServerKbdIntAuth._process_info_response')
    sch = T.find_def(atree, '_ServerKbdIntAuth._send_challenge')
    guards = [n.test.operand.attr for n in ast.walk(pir)
              if isinstance(n, ast.If) and isinstance(n.test, ast.UnaryOp) and isinstance(n.test.op, ast.Not) and
              is_self_attr(n.test.operand) and any(isinstance(b, ast.Raise) for b in n.body)]

    def assigns(fn: Any, attr: str, value: bool) -> bool:
        return any(isinstance(n, ast.Assign) and any(is_self_attr(t, attr) for t in n.targets) and
                   isinstance(n.value, ast.Constant) and n.value.value is value for n in ast.walk(fn))
    needs_request = any(assigns(sch, g, True) and assigns(pir, g, False) for g in guards)
    # (4) _process_userauth_request clears the key options: directly, or through a method of SSHServerConnection
    #     that assigns both self._key_options and self._cert_options
    srv = T.find_def(tree, 'SSHServerConnection')
    resetters = set()
    for fn in srv.body:
        if isinstance(fn, (ast.FunctionDef, ast.AsyncFunctionDef)):
            tg = {t.attr for n in fn.body if isinstance(n, ast.Assign) for t in n.targets if is_self_attr(t)}
            if {'_key_options', '_cert_options'} <= tg and len(fn.body) <= 3:
                resetters.add(fn.name)
    resets = any(isinstance(n, ast.Call) and isinstance(n.func, ast.Attribute) and n.func.attr in resetters
                 for n in ast.walk(req)) or \
        any(isinstance(n, ast.Assign) and any(isinstance(t, ast.Attribute) and t.attr == '_key_options' for t in n.targets)
            for n in ast.walk(req))
    return {'trustedKeysPerRequest': per_request, 'hostUserAskedValidatedHost': asked_validated,
            'infoResponseNeedsRequest': needs_request, 'keyOptionsResetPerRequest': resets}


_KEYS: List[Any] = []


def keys() -> List[Any]:
    while len(_KEYS) < 3:
        _KEYS.append(asyncssh.generate_private_key('ssh-ed25519'))
    return _KEYS


def S(b: bytes) -> bytes:
    return struct.pack('>I', len(b)) + b


_MARKER: List[Any] = []


def marker_keys_for(u: int) -> Any:
    """an authorized-keys object standing for "user u's keys are installed" (its one entry is a key no client holds,
    so the decision stays with the application callback, which looks at WHICH object the connection holds)"""
    if not _MARKER:
        _MARKER.append(asyncssh.generate_private_key('ssh-ed25519'))
    return asyncssh.import_authorized_keys(_MARKER[0].export_public_key('openssh').decode().strip() + ' user%d\n' % u)


class AuthServer(asyncssh.SSHServer):
    def __init__(self, app: Dict[str, Any], rec: Dict[str, Any]):
        self.app, self.rec = app, rec
        # per-user authorized keys, installed the documented way (conn.set_authorized_keys in begin_auth, nothing
        # for a user without keys - examples/simple_keyed_server.py)
        self.userkeys = {u: marker_keys_for(u) for u in sorted({u for u, _k in app.get('key', [])})}

    def _install(self, u: int) -> None:
        if self.app.get('peruser') and u in self.userkeys:
            self.rec['conn'].set_authorized_keys(self.userkeys[u])

    def _installed_user(self) -> Optional[int]:
        inst = getattr(self.rec['conn'], '_authorized_client_keys', None)
        return next((u for u, obj in self.userkeys.items() if obj is inst), None)

    def connection_made(self, conn: Any) -> None:
        self.rec['conn'] = conn

    def connection_lost(self, exc: Optional[Exception]) -> None:
        self.rec['lost'] = type(exc).__name__ if exc else 'None'

    def begin_auth(self, username: str) -> Any:
        u = int(username[4:]) if username.startswith('user') else -1
        self.rec['calls'].append(('begin', u))
        res = u not in self.app['noauth']
        if self.app['async']:
            fut = asyncio.get_event_loop().create_future()
            self.rec['begins'].append((fut, res))

            async def wait() -> bool:
                r = await fut
                self._install(u)                # per-user authorized keys are installed when begin_auth completes
                return r
            return wait()
        self._install(u)
        return res

    def password_auth_supported(self) -> bool:
        return True

    def kbdint_auth_supported(self) -> bool:
        return True

    def host_based_auth_supported(self) -> bool:
        return True

    def public_key_auth_supported(self) -> bool:
        return True

    def validate_password(self, username: str, password: str) -> Any:
        u = int(username[4:])
        c = int(password[2:]) if password.startswith('pw') and password[2:].isdigit() else -1
        ok = (u, c) in self.app['pw']
        self.rec['calls'].append(('validate_password', u, c))
        fut = asyncio.get_event_loop().create_future()
        if (u, c) in self.app.get('pwexp', []):
            self.rec['vals'].append((fut, asyncssh.PasswordChangeRequired('expired'), ('pwexp', u, c)))
        else:
            self.rec['vals'].append((fut, ok, ('pw', u, c)))
        return fut

    def change_password(self, username: str, old_password: str, new_password: str) -> Any:
        u = int(username[4:])
        c = int(old_password[2:]) if old_password.startswith('pw') and old_password[2:].isdigit() else -1
        self.rec['calls'].append(('change_password', u, c))
        fut = asyncio.get_event_loop().create_future()
        if (u, c) in self.app.get('chpwexp', []):
            self.rec['vals'].append((fut, asyncssh.PasswordChangeRequired('expired'), ('chpwexp', u, c)))
        else:
            self.rec['vals'].append((fut, (u, c) in self.app.get('chpw', []), ('chpw', u, c)))
        return fut

    def validate_host_public_key(self, client_host: str, client_addr: str, client_port: int, key: Any) -> bool:
        c = int(client_host[4:]) if client_host.startswith('host') and client_host[4:].isdigit() else -1
        # with app['khosts'] the trusted host keys are the server's known_client_hosts alone
        ok = not self.app.get('khosts') and c in self.app.get('hostkey', []) and \
            key.public_data == keys()[c % len(keys())].public_data
        self.rec['calls'].append(('validate_host_public_key', c, ok))
        return ok

    def validate_host_based_user(self, username: str, client_host: str, client_username: str) -> Any:
        u = int(username[4:])
        c = int(client_host[4:]) if client_host.startswith('host') and client_host[4:].isdigit() else -1
        if client_username != 'cu%d' % u:
            c = -1
        self.rec['calls'].append(('validate_host_based_user', u, c))
        fut = asyncio.get_event_loop().create_future()
        self.rec['vals'].append((fut, (u, c) in self.app.get('hostuser', []), ('host', u, c)))
        return fut

    def _kbd_answer(self, a: int) -> Any:
        return True if a == 1 else (('', 'more', 'en', (('Code:', False),)) if a == 2 else False)

    def get_kbdint_challenge(self, username: str, lang: str, submethods: str) -> Any:
        u = int(username[4:])
        a = dict(self.app.get('kbd0', [])).get(u, 0)
        self.rec['calls'].append(('get_kbdint_challenge', u))
        fut = asyncio.get_event_loop().create_future()
        self.rec['vals'].append((fut, self._kbd_answer(a), ('kbd', u, None, a == 1)))
        return fut

    def validate_kbdint_response(self, username: str, responses: Any) -> Any:
        u = int(username[4:])
        r = responses[0] if len(responses) == 1 else ''
        c = int(r[1:]) if r.startswith('r') and r[1:].isdigit() else -1
        a = {(x, y): z for x, y, z in self.app.get('kbd1', [])}.get((u, c), 0)
        self.rec['calls'].append(('validate_kbdint_response', u, c))
        fut = asyncio.get_event_loop().create_future()
        self.rec['vals'].append((fut, self._kbd_answer(a), ('kbd', u, c, a == 1)))
        return fut

    def validate_public_key(self, username: str, key: Any) -> Any:
        u = int(username[4:])
        k = next((i for i, kk in enumerate(keys()) if kk.public_data == key.public_data), -1)
        # per-user mode: the keys that count are those of the user whose key set the connection really holds
        ctx = self._installed_user() if self.app.get('peruser') else u
        ok = ctx is not None and (ctx, k) in self.app['key']
        self.rec['calls'].append(('validate_public_key', u, k))
        fut = asyncio.get_event_loop().create_future()
        self.rec['vals'].append((fut, ok, ('key', u, k)))
        return fut

    def auth_completed(self) -> None:
        self.rec['auth_completed'] = True


PK_BAD = ['wrong-session-id', 'wrong-user', 'other-key', 'flipped-bit', 'empty', 'empty', 'one-byte', 'empty-inner',
          'wrong-service-signed']
HOST_BAD = ['wrong-session-id', 'wrong-user', 'other-key', 'flipped-bit', 'empty', 'empty', 'one-byte', 'empty-inner',
            'wrong-client-host']


def build_request(u: int, method: str, c: int, sid: bytes, rng: random.Random,
                  forced: Optional[str] = None) -> Tuple[bytes, Dict[str, Any]]:
    user = S(b'user%d' % u)
    head = user + S(b'ssh-connection')
    info: Dict[str, Any] = {}
    if method == 'none':
        return head + S(b'none'), info
    if method == 'unknown':
        return head + S(b'frobnicate') + b'\0\0\0\0', info
    if method == 'password':
        return head + S(b'password') + b'\0' + S(b'pw%d' % c), info
    if method == 'pwchange':
        return head + S(b'password') + b'\1' + S(b'pw%d' % c) + S(b'new%d' % c), info
    if method == 'kbdint':
        return head + S(b'keyboard-interactive') + S(b'') + S(b''), info
    if method.startswith('hostsig'):
        # host c's own key is key c % 3; `hostsig1k<j>` names host c but presents (and correctly signs with) key j
        hkey = keys()[(int(method[9:]) if method.startswith('hostsig1k') else c) % len(keys())]
        body = head + S(b'hostbased') + S(hkey.algorithm) + S(hkey.public_data) + S(b'host%d' % c) + S(b'cu%d' % u)
        signed = S(sid) + bytes([MSG_USERAUTH_REQUEST]) + body
        if method == 'hostsig0':
            how = forced or rng.choice(HOST_BAD)
            info['badsig'] = 'host:' + how
            if how == 'wrong-session-id':
                sig = hkey.sign(S(bytes(len(sid))) + bytes([MSG_USERAUTH_REQUEST]) + body, hkey.algorithm)
            elif how == 'wrong-user':
                other = S(b'user%d' % (u + 1)) + S(b'ssh-connection') + S(b'hostbased') + S(hkey.algorithm) + \
                    S(hkey.public_data) + S(b'host%d' % c) + S(b'cu%d' % u)
                sig = hkey.sign(S(sid) + bytes([MSG_USERAUTH_REQUEST]) + other, hkey.algorithm)
            elif how == 'wrong-client-host':
                other = head + S(b'hostbased') + S(hkey.algorithm) + S(hkey.public_data) + S(b'host%d' % (c + 1)) + \
                    S(b'cu%d' % u)
                sig = hkey.sign(S(sid) + bytes([MSG_USERAUTH_REQUEST]) + other, hkey.algorithm)
            elif how == 'other-key':
                sig = keys()[(c + 1) % len(keys())].sign(signed, hkey.algorithm)
            elif how == 'empty':
                sig = b''
            elif how == 'one-byte':
                sig = b'\0'
            elif how == 'empty-inner':
                sig = S(hkey.algorithm) + S(b'')
            else:
                good = bytearray(hkey.sign(signed, hkey.algorithm))
                good[-1] ^= 1
                sig = bytes(good)
        else:
            sig = hkey.sign(signed, hkey.algorithm)
        return body + S(sig), info
    key = keys()[c % len(keys())]
    alg = key.algorithm
    blob = key.public_data
    if method == 'pkprobe':
        return head + S(b'publickey') + b'\0' + S(alg) + S(blob), info
    body = head + S(b'publickey') + b'\1' + S(alg) + S(blob)
    signed = S(sid) + bytes([MSG_USERAUTH_REQUEST]) + body
    if method == 'pksig0':
        how = forced or rng.choice(PK_BAD)
        info['badsig'] = how
        if how == 'wrong-session-id':
            signed = S(bytes(len(sid))) + bytes([MSG_USERAUTH_REQUEST]) + body
            sig = key.sign(signed, alg)
        elif how == 'wrong-user':
            other = S(b'user%d' % (u + 1)) + S(b'ssh-connection') + S(b'publickey') + b'\1' + S(alg) + S(blob)
            sig = key.sign(S(sid) + bytes([MSG_USERAUTH_REQUEST]) + other, alg)
        elif how == 'other-key':
            sig = keys()[(c + 1) % len(keys())].sign(signed, alg)
        elif how == 'empty':
            sig = b''                           # signature string of length zero
        elif how == 'one-byte':
            sig = b'\0'
        elif how == 'empty-inner':
            sig = S(alg) + S(b'')               # well-framed blob with an empty signature value
        elif how == 'wrong-service-signed':
            other = S(b'user%d' % u) + S(b'ssh-userauth') + S(b'publickey') + b'\1' + S(alg) + S(blob)
            sig = key.sign(S(sid) + bytes([MSG_USERAUTH_REQUEST]) + other, alg)
        else:
            good = bytearray(key.sign(signed, alg))
            good[-1] ^= 1
            sig = bytes(good)
    else:
        sig = key.sign(signed, alg)
    return body + S(sig), info


async def run_script(app: Dict[str, Any], events: List[str], seed: int, settle_each: bool = True) -> Dict[str, Any]:
    rng = random.Random(seed)
    rec: Dict[str, Any] = {'calls': [], 'begins': [], 'vals': [], 'auth_completed': False}
    out: Dict[str, Any] = {'events': events, 'app': app, 'seed': seed}
    host_opts: Dict[str, Any] = dict(trust_client_host=bool(app.get('trust', True)))
    if app.get('khosts') and app.get('hostkey'):
        # the server's known client hosts: host c holds key c % 3
        host_opts['known_client_hosts'] = asyncssh.import_known_hosts(''.join(
            'host%d %s\n' % (h, keys()[h % len(keys())].export_public_key('openssh').decode().strip())
            for h in app['hostkey']))

    async def fake_getnameinfo(sockaddr: Any, flags: int = 0) -> Tuple[str, str]:
        # the reverse lookup of the peer address is a parameter of the scenario (app['rhost'])
        return 'host%d' % app.get('rhost', 0), str(sockaddr[1])
    asyncio.get_event_loop().getnameinfo = fake_getnameinfo       # type: ignore
    with mock.patch.object(connmod.SSHClientConnection, 'try_next_auth', lambda self, **kw: None), \
            capture.PacketTap() as tap, capture.KeyTap() as kt:
        coro, s, hub = await pair.make_pair(server_factory=lambda: AuthServer(app, rec), connect=False,
                                            server_opts=dict(**host_opts, **ALGS), client_opts=dict(**ALGS))
        task = asyncio.ensure_future(coro)
        c = None
        for _ in range(600):
            t = hub.trans.get('client')
            c = t.proto if t is not None else None
            if c is not None and getattr(c, '_auth_in_progress', False):
                break
            await asyncio.sleep(0.005)
        if c is None or not getattr(c, '_auth_in_progress', False):
            out['skip'] = 'client-never-reached-auth'
            task.cancel()
            return out
        await pair.settle(5)

        from asyncssh import packet as packetmod

        class DummyAuth(packetmod.SSHPacketLogger):
            """stands in for the client's auth object so that the real client tolerates every reply"""
            def __init__(self_, conn: Any) -> None:
                self_._conn = conn

            @property
            def logger(self_) -> Any:
                return self_._conn.logger

            def auth_failed(self_) -> None:
                pass

            def auth_succeeded(self_) -> None:
                pass

            def cancel(self_) -> None:
                pass

            def process_packet(self_, *a: Any) -> bool:
                return True
        c._auth = DummyAuth(c)
        sid = kt.keys[id(c)][0][1]
        recv0 = len(tap.recv.get(id(c), []))
        infos = []
        for ev in events:
            parts = ev.split(':')
            try:
                if getattr(c, '_auth', None) is None and not getattr(c, '_auth_complete', False):
                    c._auth = DummyAuth(c)
                if parts[0] == 'req':
                    payload, info = build_request(int(parts[1]), parts[2], int(parts[3]), sid, rng,
                                                  parts[4] if len(parts) > 4 else None)
                    infos.append(info)
                    c.send_packet(MSG_USERAUTH_REQUEST, payload)
                elif parts[0] == 'begin':
                    k = int(parts[1])
                    if k < len(rec['begins']) and not rec['begins'][k][0].done():
                        rec['begins'][k][0].set_result(rec['begins'][k][1])
                elif parts[0] == 'val':
                    k = int(parts[1])
                    if k < len(rec['vals']) and not rec['vals'][k][0].done():
                        v = rec['vals'][k][1]
                        if isinstance(v, Exception):
                            rec['vals'][k][0].set_exception(v)
                        else:
                            rec['vals'][k][0].set_result(v)
                        d = rec['vals'][k][2]
                        rec.setdefault('completed_vals', []).append(
                            d if d[0] == 'kbd' else d + ((v is True),))
                        if d[0] == 'kbd' and isinstance(v, tuple):
                            # the application answered with a challenge for this user (now or earlier than
                            # every later entry of completed_vals)
                            rec.setdefault('kbd_challenged', []).append((len(rec['completed_vals']), d[1]))
                elif parts[0] == 'info':
                    c.send_packet(61, struct.pack('>I', 1) + S(b'r%d' % int(parts[1])))
                elif parts[0] == 'authmsg':
                    c.send_packet(62, b'')
                elif parts[0] == 'other':
                    # the client's own send_packet would hold a connection-level message back until ITS view of
                    # authentication is complete; a hostile client does not, so lift that for this one packet
                    saved = c._auth_complete
                    c._auth_complete = True
                    try:
                        c.send_packet(MSG_GLOBAL_REQUEST, S(b'keepalive@openssh.com') + b'\0')
                    finally:
                        c._auth_complete = saved
            except Exception as e:
                out.setdefault('client_exc', []).append(type(e).__name__)
            if settle_each or (parts[0] == 'req' and parts[2].startswith('hostsig')):
                await pair.settle(12)
        await pair.settle(25)
        replies = [p[0] for _q, p, _n in tap.recv.get(id(c), [])[recv0:]]
        out['replies'] = ''.join({51: 'F', 52: 'S', 60: 'P', 3: 'U'}.get(t, '') for t in replies)
        srv_user = s.get_extra_info('username')
        out['complete'] = (int(srv_user[4:]) if srv_user and srv_user.startswith('user') else None) \
            if rec['auth_completed'] else None
        out['closed'] = s.is_closed() or 'lost' in rec
        out['lost'] = rec.get('lost')
        out['calls'] = rec['calls']
        out['completed_vals'] = rec.get('completed_vals', [])
        out['kbd_challenged'] = rec.get('kbd_challenged', [])
        out['infos'] = infos
        for conn in (c, s):
            try:
                conn.abort()
            except Exception:
                pass
        task.cancel()
        await asyncio.gather(task, return_exceptions=True)
        for fut, _r in rec['begins']:
            if not fut.done():
                fut.cancel()
        for fut, _r, _d in rec['vals']:
            if not fut.done():
                fut.cancel()
        await pair.settle(5)
    return out


def gen_app(rng: random.Random) -> Dict[str, Any]:
    users = [1, 2, 3]
    pairs = lambda lo, hi: sorted({(rng.choice(users), rng.randrange(3)) for _ in range(rng.randint(lo, hi))})  # noqa: E731
    app = _gen_app_tables(rng, users, pairs)
    if rng.random() < 0.7:
        app['hostkey'] = sorted(set(app['hostkey']) | {c for _u, c in app['hostuser']})
    # hostbased: trusted host keys from known_client_hosts or from the application callback; the client's host name
    # taken from the request or from the reverse lookup of its address (host `rhost`)
    app['khosts'] = rng.random() < 0.6
    app['trust'] = rng.random() < 0.6
    app['rhost'] = rng.randrange(3)
    if not app['trust'] and rng.random() < 0.7:
        app['hostkey'] = sorted(set(app['hostkey']) | {app['rhost']})
    return app


def _gen_app_tables(rng: random.Random, users: List[int], pairs: Any) -> Dict[str, Any]:
    return {'async': rng.random() < 0.6, 'peruser': rng.random() < 0.5,
            'noauth': sorted(u for u in users if rng.random() < 0.1),
            'pw': pairs(0, 2), 'key': pairs(0, 2),
            'pwexp': pairs(0, 1), 'chpw': pairs(0, 2), 'chpwexp': pairs(0, 1),
            'hostkey': sorted({rng.randrange(3) for _ in range(rng.randint(0, 3))}), 'hostuser': pairs(0, 2),
            'kbd0': sorted({u: rng.choice([0, 1, 2, 2]) for u in users if rng.random() < 0.7}.items()),
            'kbd1': sorted((u, c, a) for (u, c), a in {(rng.choice(users), rng.randrange(3)): rng.choice([0, 1, 1, 2])
                                                     for _ in range(rng.randint(0, 3))}.items())}


ALL_METHODS = ['none', 'password', 'password', 'pkprobe', 'pksig1', 'pksig0', 'unknown', 'pwchange',
               'hostsig1', 'hostsig0', 'kbdint', 'kbdint']


def gen_events(rng: random.Random, app: Dict[str, Any]) -> List[str]:
    evs: List[str] = []
    nb = nv = 0          # upper bounds on how many begin / validator futures may exist
    # a fifth of the scripts dwell on one dialogue: hostbased requests naming different hosts with different keys,
    # or keyboard-interactive with responses sent at every position of the dialogue
    focus = rng.choice(['host', 'kbd']) if rng.random() < 0.22 else ''
    methods = {'host': ['hostsig1', 'hostsig1', 'hostsig1', 'hostsig0', 'password'],
               'kbd': ['kbdint', 'kbdint', 'kbdint', 'password', 'none']}.get(focus, ALL_METHODS)
    for _ in range(rng.randint(1, 8)):
        r = rng.random()
        if r < 0.55:
            u = rng.choice([1, 2, 3])
            m = rng.choice(methods)
            c = rng.randrange(3)
            if rng.random() < 0.5 and app.get('chpw') and m == 'pwchange':
                u, c = rng.choice(app['chpw'])
            if rng.random() < 0.6 and app.get('hostuser') and m.startswith('hostsig'):
                u, c = rng.choice(app['hostuser'])
            if m == 'hostsig1' and rng.random() < (0.6 if focus else 0.45):
                # present another host's key: one the server knows (for some host), or the resolved host's
                pool = list(app.get('hostkey', [])) + ([app.get('rhost', 0)] if not app.get('trust', True) else [])
                h0 = rng.choice(pool) if pool and rng.random() < 0.8 else rng.randrange(3)
                m = 'hostsig1k%d' % (h0 % 3)
                if rng.random() < (0.6 if focus else 0.4):
                    # first a request naming the key's own host (what the holder of that host's key can always send)
                    evs.append(f'req:{u}:hostsig1:{h0}')
                    nb += 1
                    nv += 1
            if m == 'kbdint':
                c = 0
            if rng.random() < 0.5 and app['pw'] and m == 'password':
                u, c = rng.choice(app['pw'])
            if rng.random() < 0.5 and app['key'] and m.startswith('pk'):
                u, c = rng.choice(app['key'])
            evs.append(f'req:{u}:{m}:{c}')
            nb += 1
            nv += 1
            if m == 'kbdint' and rng.random() < (0.5 if focus else 0.2):
                # a response right behind the request: before the challenge step has answered (or even started)
                if app['async'] and rng.random() < 0.7:
                    evs.append(f'begin:{nb - 1}')
                mine = [cc for uu, cc, a in app.get('kbd1', []) if uu == u and (a == 1 or rng.random() < 0.3)]
                evs.append(f'info:{rng.choice(mine) if mine else rng.randrange(3)}')
                nv += 1
        elif r < 0.70 and nb:
            evs.append(f'begin:{rng.randrange(nb)}')
        elif r < 0.86 and nv:
            evs.append(f'val:{rng.randrange(nv)}')
        elif r < 0.94:
            kb = [(u, c) for u, c, _a in app.get('kbd1', [])]
            evs.append(f'info:{rng.choice(kb)[1] if kb and rng.random() < 0.7 else rng.randrange(3)}')
            nv += 1
        elif r < 0.96:
            evs.append('authmsg')
        elif rng.random() < 0.3:
            evs.append('other')
    # let everything pending complete in some order at the end
    tail = [f'begin:{k}' for k in range(nb)] + [f'val:{k}' for k in range(nv)]
    rng.shuffle(tail)
    return evs + tail[:rng.randint(0, len(tail))]


def gen_case(rng: random.Random) -> Tuple[Dict[str, Any], List[str]]:
    """three quarters: independent tables and events; one quarter: a hostbased or keyboard-interactive dialogue
    whose tables and events are drawn together, so that requests are decided (not just refused at the door)"""
    r = rng.random()
    if r < 0.75:
        app = gen_app(rng)
        return app, gen_events(rng, app)
    app = gen_app(rng)
    evs: List[str] = []
    nb = nv = 0

    def drain() -> None:
        # everything pending completes (completions of futures that do not exist are no-ops on both sides)
        evs.extend([f'begin:{k}' for k in range(nb)] + [f'val:{k}' for k in range(nv)])
    if r < 0.89:
        hosts = [0, 1, 2]
        app['khosts'] = rng.random() < 0.75
        app['trust'] = rng.random() < 0.5
        app['hostkey'] = sorted(rng.sample(hosts, rng.randint(1, 3)))
        app['hostuser'] = sorted({(rng.choice([1, 2, 3]), rng.choice(hosts)) for _ in range(rng.randint(1, 3))})
        app['rhost'] = rng.choice(app['hostkey']) if rng.random() < 0.8 else rng.randrange(3)
        for _ in range(rng.randint(1, 4)):
            u, c = rng.choice(app['hostuser']) if rng.random() < 0.8 else (rng.choice([1, 2, 3]), rng.choice(hosts))
            q = rng.random()
            if q < 0.4:
                m = 'hostsig1'
            elif q < 0.9:
                h0 = rng.choice(app['hostkey'] + [app['rhost']])
                m = 'hostsig1k%d' % (h0 % 3)
                if rng.random() < 0.5:
                    # what the holder of host h0's key can always send first: a genuine request of host h0
                    evs.append(f'req:{u}:hostsig1:{h0}')
                    nb += 1
                    nv += 1
                    if rng.random() < 0.8:
                        drain()
            else:
                m = 'hostsig0'
            evs.append(f'req:{u}:{m}:{c}')
            nb += 1
            nv += 1
            if rng.random() < 0.8:
                drain()
    else:
        us = [1, 2, 3]
        app['kbd0'] = sorted({u: rng.choice([0, 1, 2, 2, 2]) for u in us}.items())
        app['kbd1'] = sorted((u, c, rng.choice([0, 1, 1, 2])) for u in us for c in range(3) if rng.random() < 0.7)
        for _ in range(rng.randint(1, 3)):
            u = rng.choice(us)
            evs.append(f'req:{u}:kbdint:0')
            nb += 1
            nv += 1
            if rng.random() < 0.7:
                evs.append(f'begin:{nb - 1}')       # (a no-op when begin_auth is synchronous)
            for _ in range(rng.randint(0, 4)):
                q = rng.random()
                if q < 0.45:
                    evs.append(f'info:{rng.randrange(3)}')
                    nv += 1
                elif q < 0.85:
                    drain()
                else:
                    evs.append(rng.choice([f'begin:{rng.randrange(nb)}', f'val:{rng.randrange(nv)}']))
            if rng.random() < 0.4:
                # the dialogue of user u is overtaken by a request naming ANOTHER user, and u's correct answer arrives
                # right behind it, while the new request's begin_auth is still pending: the answer belongs to a
                # dialogue that is over and must not count for anybody
                if rng.random() < 0.85:
                    app['async'] = True
                app['kbd0'] = sorted(dict(list(app['kbd0']) + [(u, 2)]).items())
                ok = [cc for uu, cc, a in app['kbd1'] if uu == u and a == 1]
                if not ok:
                    cc = rng.randrange(3)
                    app['kbd1'] = sorted([t for t in app['kbd1'] if (t[0], t[1]) != (u, cc)] + [(u, cc, 1)])
                    ok = [cc]
                evs.append(f'req:{u}:kbdint:0')
                nb += 1
                nv += 1
                evs.append(f'begin:{nb - 1}')
                evs.extend(f'val:{k}' for k in range(nv))       # the challenge is out: u is being prompted
                u2 = rng.choice([x for x in us if x != u])
                evs.append(f'req:{u2}:{rng.choice(["none", "password", "kbdint", "pksig1"])}:0')
                nb += 1
                nv += 1
                if rng.random() < 0.25:
                    evs.append(f'begin:{nb - 1}')
                evs.append(f'info:{rng.choice(ok)}')
                nv += 1
                evs.extend(f'val:{k}' for k in range(nv))       # the answer is checked before begin_auth returns
    if rng.random() < 0.7:
        drain()
    return app, evs


def model_line(app: Dict[str, Any], events: List[str], variant: str = 'new') -> str:
    f = lambda ps: ','.join(f'{a}:{b}' for a, b in ps) or '-'  # noqa: E731
    if variant == 'new':
        k1 = ','.join(f'{u}:{c}:{a}' for u, c, a in app.get('kbd1', [])) or '-'
        # developer aid: VERIF_C05_QUIRKS=<4 bits> runs the pre-repair model (Auth.stepQ) instead, to compare it with
        # an unrepaired checkout; the accumulation of trusted host keys only exists with known_client_hosts
        q = os.environ.get('VERIF_C05_QUIRKS', '')
        if q:
            q = 'q' + ('1' if q[0] == '1' and app.get('khosts') else '0') + q[1:]
        return (f'run2{q} {1 if app["async"] else 0}{1 if app.get("peruser") else 0}'
                f'{1 if app.get("trust", True) else 0}{app.get("rhost", 0)} {f([(u, 1) for u in app["noauth"]])} '
                f'{f(app["pw"])} {f(app["key"])} {f(app.get("pwexp", []))} {f(app.get("chpw", []))} '
                f'{f(app.get("chpwexp", []))} {f([(c, 1) for c in app.get("hostkey", [])])} {f(app.get("hostuser", []))} '
                f'{f(app.get("kbd0", []))} {k1} ' + ' '.join(':'.join(e.split(':')[:4]) for e in events))
    return (f'run {variant} {1 if app["async"] else 0}{1 if app.get("peruser") else 0} {f([(u, 1) for u in app["noauth"]])} {f(app["pw"])} '
            f'{f(app["key"])} ' + ' '.join(events))


CORPUS = [
    # a keyboard-interactive dialogue overtaken by a request naming another user; the first user's correct answer
    # arrives while the new request's begin_auth is pending (seed C05-superseded-auth-handler-left-attached)
    ({'async': True, 'noauth': [], 'pw': [], 'key': [], 'kbd0': [(1, 2), (2, 2)], 'kbd1': [(1, 1, 1)]},
     ['req:1:kbdint:0', 'begin:0', 'val:0', 'req:2:none:0', 'info:1', 'val:1', 'begin:1', 'val:2', 'val:3']),
    ({'async': True, 'noauth': [], 'pw': [], 'key': [], 'kbd0': [(1, 2), (2, 2)], 'kbd1': [(1, 1, 1)]},
     ['req:1:kbdint:0', 'begin:0', 'val:0', 'req:2:password:0', 'info:1', 'val:2', 'val:1', 'begin:1', 'val:3']),
    ({'async': True, 'peruser': True, 'noauth': [], 'pw': [], 'key': [(1, 1), (2, 2)]},
     ['req:1:pkprobe:1', 'begin:0', 'val:0', 'req:2:none:0', 'req:2:pksig1:1', 'val:1', 'begin:2', 'val:2']),   # second form of F1
    ({'async': True, 'noauth': [], 'pw': [(1, 7)], 'key': []},
     ['req:1:password:7', 'begin:0', 'req:2:none:0', 'val:0']),                   # F1: pipelined user switch
    ({'async': True, 'noauth': [2], 'pw': [], 'key': []},
     ['req:2:none:0', 'req:3:none:0', 'begin:0', 'begin:1']),                     # begin_auth for 2 answers after switch to 3
    ({'async': False, 'noauth': [], 'pw': [(1, 1)], 'key': [(2, 0)]},
     ['req:1:password:1', 'req:2:pksig1:0', 'val:0', 'val:1']),
    ({'async': False, 'noauth': [], 'pw': [], 'key': [(1, 0)]},
     ['req:1:pkprobe:0', 'val:0', 'req:1:pksig0:0', 'val:1', 'req:1:pksig1:0', 'val:2', 'req:1:none:0', 'other', 'req:1:none:0']),
] + [({'async': False, 'noauth': [], 'pw': [], 'key': [(1, 0)]}, [f'req:1:pksig0:0:{how}', 'val:0'])
     for how in sorted(set(PK_BAD))] + \
    [({'async': False, 'noauth': [], 'pw': [], 'key': [], 'hostkey': [0], 'hostuser': [(1, 0)]},
      [f'req:1:hostsig0:0:{how}', 'val:0', 'val:1']) for how in sorted(set(HOST_BAD))] + [
    ({'async': True, 'noauth': [], 'pw': [], 'key': [], 'hostkey': [1], 'hostuser': [(2, 1)]},
     ['req:2:hostsig1:1', 'begin:0', 'val:0']),
    ({'async': False, 'noauth': [], 'pw': [], 'key': [], 'kbd0': [(1, 2)], 'kbd1': [(1, 2, 2), (1, 1, 1), (1, 0, 0)]},
     ['req:1:kbdint:0', 'val:0', 'info:2', 'val:1', 'info:0', 'info:1', 'val:2', 'val:3']),     # second response cancels the first
    ({'async': False, 'noauth': [], 'pw': [], 'key': [], 'kbd0': [(1, 0)], 'kbd1': [(1, 1, 1)]},
     ['req:1:kbdint:0', 'info:1', 'val:0', 'val:1']),                                             # response before the challenge
    ({'async': False, 'noauth': [], 'pw': [], 'key': [], 'kbd0': [(1, 2), (2, 2)], 'kbd1': [(1, 1, 1)]},
     ['req:1:kbdint:0', 'val:0', 'info:1', 'req:2:kbdint:0', 'val:1', 'val:2']),                 # user switch under a pending response
    ({'async': False, 'noauth': [], 'pw': [(3, 0)], 'key': [], 'pwexp': [(3, 0)], 'chpw': [(3, 1)], 'chpwexp': [(3, 2)]},
     ['req:3:password:0', 'val:0', 'authmsg', 'req:3:pwchange:2', 'val:1', 'req:3:pwchange:1', 'val:2']),
    ({'async': False, 'noauth': [], 'pw': [], 'key': [], 'kbd0': [(1, 2)], 'kbd1': [(1, 0, 0), (1, 1, 1)]},
     ['req:1:kbdint:0', 'val:0', 'info:0', 'info:1', 'val:1', 'req:2:none:0', 'val:2']),       # superseded response must be dead
    # per-user keys must not survive a switch to a user who has none (reload_config resets them)
    ({'async': True, 'peruser': True, 'noauth': [], 'pw': [], 'key': [(1, 1)]},
     ['req:1:pkprobe:1', 'begin:0', 'val:0', 'req:2:pksig1:1', 'begin:1', 'val:1']),
    ({'async': False, 'peruser': True, 'noauth': [], 'pw': [], 'key': [(1, 1)]},
     ['req:1:none:0', 'req:2:pksig1:1', 'val:0']),
    # a superseded begin_auth must not install its user's keys after authentication moved on (third form of F1)
    ({'async': True, 'peruser': True, 'noauth': [], 'pw': [], 'key': [(1, 1)]},
     ['req:1:none:0', 'req:3:pksig1:1', 'begin:0', 'begin:1', 'val:0']),
    ({'async': True, 'peruser': True, 'noauth': [], 'pw': [], 'key': [(1, 1)]},
     ['req:1:none:0', 'req:3:pksig1:1', 'begin:1', 'begin:0', 'val:0']),
    ({'async': True, 'peruser': True, 'noauth': [], 'pw': [], 'key': [(1, 0), (3, 1)]},
     ['req:3:unknown:0', 'begin:0', 'req:1:pksig1:0', 'req:3:pkprobe:1', 'begin:1', 'val:0']),
    ({'async': False, 'noauth': [], 'pw': [], 'key': []}, ['info:0']),
    # hostbased with known_client_hosts (A-C05 D2): host0's key is known, user 1 may come from host1 only; the holder
    # of host0's key names host0 once and then host1, still signing with host0's key
    ({'async': False, 'noauth': [], 'pw': [], 'key': [], 'khosts': True, 'hostkey': [0], 'hostuser': [(1, 1)]},
     ['req:1:hostsig1:0', 'val:0', 'req:1:hostsig1k0:1', 'val:1']),
    ({'async': False, 'noauth': [], 'pw': [], 'key': [], 'khosts': True, 'hostkey': [0], 'hostuser': [(1, 1)]},
     ['req:1:hostsig1k0:1', 'val:0']),
    ({'async': True, 'noauth': [], 'pw': [], 'key': [], 'khosts': True, 'hostkey': [0, 1], 'hostuser': [(2, 1)]},
     ['req:2:hostsig1:0', 'begin:0', 'val:0', 'req:2:hostsig1:1', 'val:1']),              # two hosts, both genuine
    ({'async': False, 'noauth': [], 'pw': [], 'key': [], 'khosts': True, 'hostkey': [0, 2], 'hostuser': [(1, 1), (3, 2)]},
     ['req:3:hostsig1:2', 'req:1:hostsig1:0', 'val:0', 'req:1:hostsig1k2:1', 'val:1', 'req:1:hostsig1k0:1', 'val:2']),
    # the client's word about its host name is not trusted (A-C05 D3): the server resolves the peer to host0, whose
    # key the client holds; user 1 may come from host1 only and the request claims host1
    ({'async': False, 'noauth': [], 'pw': [], 'key': [], 'khosts': True, 'trust': False, 'rhost': 0, 'hostkey': [0],
      'hostuser': [(1, 1)]}, ['req:1:hostsig1k0:1', 'val:0']),
    ({'async': False, 'noauth': [], 'pw': [], 'key': [], 'khosts': False, 'trust': False, 'rhost': 0, 'hostkey': [0],
      'hostuser': [(1, 1)]}, ['req:1:hostsig1k0:1', 'val:0']),
    ({'async': False, 'noauth': [], 'pw': [], 'key': [], 'khosts': True, 'trust': False, 'rhost': 0, 'hostkey': [0],
      'hostuser': [(1, 0)]}, ['req:1:hostsig1k0:1', 'val:0']),                              # decided for host0: genuine
    ({'async': True, 'noauth': [], 'pw': [], 'key': [], 'khosts': True, 'trust': False, 'rhost': 2, 'hostkey': [1, 2],
      'hostuser': [(2, 1)]}, ['req:2:hostsig1:1', 'begin:0', 'val:0', 'req:2:hostsig1k2:1', 'val:1']),
    # keyboard-interactive: a response while the challenge is still being prepared (A-C06 #1) - the application
    # would refuse user 1 at the challenge step - and a second response while the first is being validated
    ({'async': True, 'noauth': [], 'pw': [], 'key': [], 'kbd0': [(1, 0)], 'kbd1': [(1, 1, 1)]},
     ['req:1:kbdint:0', 'begin:0', 'info:1', 'val:1', 'val:0']),
    ({'async': False, 'noauth': [], 'pw': [], 'key': [], 'kbd0': [(2, 2)], 'kbd1': [(2, 0, 0), (2, 1, 1)]},
     ['req:2:kbdint:0', 'info:1', 'val:1']),
    ({'async': False, 'noauth': [], 'pw': [], 'key': [], 'kbd0': [(2, 2)], 'kbd1': [(2, 0, 0), (2, 1, 1)]},
     ['req:2:kbdint:0', 'val:0', 'info:0', 'info:1', 'val:2', 'val:1']),
    ({'async': False, 'noauth': [], 'pw': [(1, 1)], 'key': []}, ['req:1:password:1', 'val:0', 'info:0']),
]


def correspondence(ctx: Ctx) -> CorrResult:
    res = CorrResult()
    hist = Hist()
    rng = ctx.subrng('corr')
    cases = list(CORPUS)
    for _ in range(ctx.n(150, 2500)):
        cases.append(gen_case(rng))

    async def run_all() -> List[Dict[str, Any]]:
        return [await run_script(app, evs, i) for i, (app, evs) in enumerate(cases)]
    outs = pair.run(run_all(), timeout=3300, sync_executor=True)
    keep = [o for o in outs if 'skip' not in o]
    lines = []
    for o in keep:
        # the model's pksig verdict comes from what the harness actually signed
        lines.append(model_line(o['app'], o['events']))
    model = ctx.model(DRIVER, lines) if lines else []
    for o, m in zip(keep, model):
        res.cases += 1
        comp = '-' if o['complete'] is None else str(o['complete'])
        impl = f'out={o["replies"]} complete={comp} closed={1 if o["closed"] else 0}'
        hist.hit('complete' if o['complete'] is not None else ('closed' if o['closed'] else 'pending'))
        if m != impl:
            res.disagreements.append(Disagreement({'app': o['app'], 'events': o['events']}, m, impl,
                                                  'correspondence:auth-script'))
    res.nontrivial = len(set((str(o['app']), tuple(o['events'])) for o in keep if len(o['events']) > 1))
    correspondence_options(ctx, res, hist)
    res.histogram = dict(hist)
    res.samples = [{'app': o['app'], 'events': o['events'], 'model': m} for o, m in list(zip(keep, model))[:3]]
    res.rule = ('seeded application tables (3 users, passwords, keys, no-auth users, sync/async begin_auth) and event '
                'lists of <= 8 requests/completions plus a shuffled tail of completions; distinct = distinct '
                '(application, event list) with more than one event')
    return res


def host_requests(o: Dict[str, Any]) -> List[Tuple[int, int, int]]:
    """(user, client host named, key presented) of the correctly signed hostbased requests of a script"""
    out = []
    for ev in o['events']:
        p = ev.split(':')
        if p[0] == 'req' and p[2].startswith('hostsig1'):
            c = int(p[3])
            out.append((int(p[1]), c, (int(p[2][9:]) if p[2].startswith('hostsig1k') else c) % 3))
    return out


def host_credential(o: Dict[str, Any], u: int, h: int) -> Optional[str]:
    """Judged from the property text: may an acceptance of (user u, client host h) by the application count as u's
    credential on this connection?  Only if some request of u was signed by a key the server trusts FOR HOST h, and h
    is the host that request is to be decided for: the host it names when the server trusts the client's word, else
    the reverse lookup of the client's address.  Returns None if so, else the reason."""
    app = o['app']
    trusted = lambda host, key: host in app.get('hostkey', []) and key == host % 3  # noqa: E731
    reqs = [(uu, c, k) for uu, c, k in host_requests(o) if uu == u]
    eff = (lambda c: c) if app.get('trust', True) else (lambda c: app.get('rhost', 0))  # noqa: E731
    if any(eff(c) == h and trusted(h, k) for _u, c, k in reqs):
        return None
    if any(eff(c) == h for _u, c, k in reqs):
        # a request to be decided for host h, signed with a key that is not h's (trusted for some other host at best)
        return 'hostbased:key-of-another-host-accepted'
    if any(trusted(eff(c), k) for _u, c, k in reqs):
        # the key was fine for the host the request is to be decided for, but the application was asked about h
        return 'hostbased:application-asked-about-unverified-host'
    return 'hostbased'


def denial(o: Dict[str, Any], u: int) -> Optional[str]:
    """the harness's own record: None if a credential check for u succeeded on this connection (or u needs none),
    else a classifier of what the server accepted instead"""
    if u in o['app']['noauth']:
        return None
    reason = ''
    challenged = o.get('kbd_challenged', [])
    for i, (kind, uu, c, ok) in enumerate(o['completed_vals']):
        if uu == u and ok and kind == 'pw' and (u, c) in [tuple(x) for x in o['app']['pw']]:
            return None
        if uu == u and ok and kind == 'chpw' and (u, c) in [tuple(x) for x in o['app'].get('chpw', [])]:
            return None
        if uu == u and ok and kind == 'kbd':
            # the application itself answered True for this user: to its own challenge step (c is None), or to
            # responses - which are a credential only as the answer to a challenge the application issued for u
            if c is None or any(j <= i and cu == u for j, cu in challenged):
                return None
            reason = reason or 'kbdint-response-accepted-without-challenge'
        if uu == u and ok and kind == 'host' and (u, c) in [tuple(x) for x in o['app'].get('hostuser', [])]:
            why = host_credential(o, u, c)
            if why is None:
                return None
            reason = reason or why
    # key: an authorised key for u AND a request signed over this session id for u with that key
    signed_ok = set()
    for ev in o['events']:
        p = ev.split(':')
        if p[0] == 'req' and p[2] == 'pksig1':
            signed_ok.add((int(p[1]), int(p[3]) % 3))
    truly = set(tuple(x) for x in o['app']['key'])
    for kind, uu, k, ok in o['completed_vals']:
        if kind == 'key' and uu == u and ok and (u, k) in signed_ok and (u, k) in truly:
            return None
    return reason


def granted(o: Dict[str, Any], u: int) -> bool:
    return denial(o, u) is None


def run_options(scripts: List[List[str]]) -> List[Dict[str, Any]]:
    async def go() -> List[Dict[str, Any]]:
        return [await X.run_options_script(t) for t in scripts]
    return [o for o in pair.run(go(), timeout=1200, sync_executor=True) if 'skip' not in o]


def correspondence_options(ctx: Ctx, res: CorrResult, hist: Hist) -> None:
    """whose key options are in force (Auth.St.keyOpts) after scripts of probes, signatures and passwords against a
    real server whose authorized_keys entries carry options"""
    outs = [o for o in run_options(X.options_scripts(ctx.subrng('corr-options'), ctx.n(40, 600)))
            if X.options_model_line(o['tokens'])]
    model = ctx.model(DRIVER, [X.options_model_line(o['tokens']) for o in outs]) if outs else []
    for o, m in zip(outs, model):
        res.cases += 1
        impl = X.options_impl_line(o)
        hist.hit('options:' + impl.split(' ')[-1])
        if m != impl:
            res.disagreements.append(Disagreement({'kind': 'options', 'tokens': o['tokens']}, m, impl,
                                                  'correspondence:key-options'))
    res.nontrivial += len(set(tuple(o['tokens']) for o in outs if len(o['tokens']) > 1))


def oracle_options(ctx: Ctx, res: OracleResult, hist: Hist, extra: Optional[List[List[str]]] = None) -> None:
    """the restrictions attached to the accepted credential are the ones enforced afterwards"""
    scripts = (extra or []) + X.options_scripts(ctx.subrng('oracle-options'), ctx.n(60, 1500))
    for o in run_options(scripts):
        res.evaluations += 1
        exp = X.options_expected(o['tokens'])
        hist.hit('options:' + ('not-authenticated' if exp is None else 'by-' + exp['by'].replace(' ', '')))
        key = {'kind': 'options', 'tokens': o['tokens']}
        if (exp is not None) != bool(o['complete']):
            res.failures.append(Failure(
                'authenticated-without-credential-check:options-script' if o['complete'] else
                'valid-credential-not-admitted:options-script',
                f'script {o["tokens"]}: server authenticated={o["complete"]}, replies {o["replies"]}', key))
            continue
        if exp is None:
            continue
        got = {k: o[k] for k in ('command', 'env', 'pty', 'portfwd')}
        if got != {k: exp[k] for k in got}:
            res.failures.append(Failure(
                'restrictions-of-another-credential-enforced:stale-key-or-certificate-options',
                f'script {o["tokens"]}: the session was authenticated by {exp["by"]} but runs under key options '
                f'{got} (those of that credential are { {k: exp[k] for k in got} })', key))
        gotc = {k: o[k] for k in ('cert_command', 'cert_pty')}
        if gotc != {k: exp[k] for k in gotc}:
            res.failures.append(Failure(
                'restrictions-of-another-credential-enforced:stale-key-or-certificate-options',
                f'script {o["tokens"]}: the session was authenticated by {exp["by"]} but runs under certificate '
                f'options {gotc} of a certificate that was only probed', key))
    res.nontrivial += len(set(tuple(t) for t in scripts if len(t) > 1))


def oracle_keysfile(ctx: Ctx, res: OracleResult, hist: Hist) -> None:
    """a server whose users' keys come from `AuthorizedKeysFile dir/%u dir/%u.2`: a valid password or key is
    admitted whatever the state of that user's files; an unlisted key is not"""
    import tempfile
    tmp = tempfile.mkdtemp(prefix='c05keys-', dir=ctx.tmpdir())
    cfg = X.keysfile_setup(tmp)

    async def go() -> List[Dict[str, Any]]:
        return [await X.run_keysfile_case(cfg, u, cred) for u, cred, _e, _d in X.KEYSFILE_CASES]
    for (user, cred, expect, desc), o in zip(X.KEYSFILE_CASES, pair.run(go(), timeout=600, sync_executor=True)):
        res.evaluations += 1
        hist.hit(f'keysfile:{cred}:{"admitted" if o["admitted"] else "refused"}')
        key = {'kind': 'keysfile', 'user': user, 'credential': cred}
        if expect and not o['admitted']:
            res.failures.append(Failure(
                'valid-credential-not-admitted:authorized-keys-file-missing-or-without-keys',
                f'user {user!r} ({desc}) presenting a valid {cred} was not admitted: {o["detail"]}; the server '
                f'connection ended with {o.get("server_lost")}, application callbacks {o["calls"]}', key))
        if o['admitted'] and not expect:
            res.failures.append(Failure(
                'authenticated-without-credential-check:authorized-keys-file',
                f'user {user!r} ({desc}) presenting {cred} was admitted', key))
    res.nontrivial += len(X.KEYSFILE_CASES)


def oracle(ctx: Ctx) -> OracleResult:
    res = OracleResult()
    hist = Hist()
    rng = ctx.subrng('oracle')
    cases = list(CORPUS)
    for s in ctx.suspects:
        if isinstance(s, dict) and 'events' in s:
            cases.append((s['app'], s['events']))
    for _ in range(ctx.n(250, 4000)):
        app, evs = gen_case(rng)
        if rng.random() < 0.5:
            app['async'] = True
        cases.append((app, evs))

    async def run_all() -> List[Dict[str, Any]]:
        outs = []
        for i, (app, evs) in enumerate(cases):
            outs.append(await run_script(app, evs, i, settle_each=(i % 3 != 0)))
        return outs
    outs = pair.run(run_all(), timeout=3300, sync_executor=True)
    for o in outs:
        if 'skip' in o:
            continue
        res.evaluations += 1
        key = {'app': o['app'], 'events': o['events'], 'seed': o['seed'],
               'bad_signature_kinds': [i.get('badsig') for i in o.get('infos', []) if i.get('badsig')]}
        u = o['complete']
        hist.hit('authenticated' if u is not None else 'not-authenticated')
        if u is not None and not granted(o, u):
            checked = sorted(set(c[1] for c in o['completed_vals'] if c[3]))
            sig = 'authenticated-without-credential-check'
            if denial(o, u):
                sig += ':' + str(denial(o, u))
            elif checked and u not in checked:
                sig += ':user-switched-while-validator-pending' if any(e.startswith('req') for e in o['events'][1:]) else ''
            res.failures.append(Failure(sig, f'server reports authentication as user{u}; successful checks were for '
                                             f'users {checked}; events {o["events"]} {key["bad_signature_kinds"]}', key))
    res.nontrivial = len(set((str(o['app']), tuple(o['events'])) for o in outs if 'skip' not in o))
    oracle_certs(ctx, res, hist)
    oracle_options(ctx, res, hist, [s['tokens'] for s in ctx.suspects if isinstance(s, dict) and 'tokens' in s])
    oracle_keysfile(ctx, res, hist)
    # one failure of every root cause first (the runner prints the first few)
    seen: set = set()
    firsts = [f for f in res.failures if not (f.signature in seen or seen.add(f.signature))]
    res.failures = firsts + [f for f in res.failures if all(f is not g for g in firsts)]
    res.histogram = dict(hist)
    res.samples = [{'app': o['app'], 'events': o['events'], 'complete': o.get('complete')} for o in outs[:3]]
    res.rule = 'as the correspondence, a third of the scripts fired without settling between events (true pipelining)'
    return res


def oracle_certs(ctx: Ctx, res: OracleResult, hist: Hist) -> None:
    """Certificate user authentication against a real server whose only authorisation is an authorized_keys CA line:
    access is granted exactly when the certificate was signed by that CA, is a user certificate, is valid now, and
    names the user (through the line's principals= option when it has one, else through its own principal list)."""
    import tempfile
    import time
    rng = ctx.subrng('oracle-certs')
    ca, other_ca = (asyncssh.generate_private_key('ssh-ed25519') for _ in range(2))
    user_key = asyncssh.generate_private_key('ssh-ed25519')
    now = int(time.time())
    tmp = tempfile.mkdtemp(prefix='c05certs-', dir=ctx.tmpdir())

    def cert(signer: Any, principals: Any, kind: str = 'user', va: int = 0, vb: int = 0xffffffffffffffff) -> Any:
        if kind == 'host':
            return signer.generate_host_certificate(user_key, 'k', principals=principals, valid_after=va, valid_before=vb)
        return signer.generate_user_certificate(user_key, 'k', principals=principals, valid_after=va, valid_before=vb)

    # (authorized_keys options, login name, certificate, expected admission, label)
    cases: List[Tuple[str, str, Any, bool, str]] = []
    for opts, restricted in (('cert-authority,principals="admin"', True), ('cert-authority', False),
                             ('cert-authority,principals="ops,adm*,!admin2"', True)):
        want_name = 'admin'
        cases += [
            (opts, want_name, cert(ca, ['admin']), True, 'names-admin'),
            (opts, want_name, cert(ca, ['guest']), False, 'names-guest'),
            (opts, want_name, cert(ca, ['guest', 'admin']), True, 'names-both'),
            (opts, want_name, cert(other_ca, ['admin']), False, 'other-ca'),
            (opts, want_name, cert(ca, ['admin'], 'host'), False, 'host-certificate'),
            (opts, want_name, cert(ca, ['admin'], va=now + 3600), False, 'not-yet-valid'),
            (opts, want_name, cert(ca, ['admin'], vb=now - 3600), False, 'expired'),
        ]
        if restricted:
            # a certificate naming nobody can never satisfy a principals= restriction
            cases.append((opts, want_name, cert(ca, []), False, 'no-principals-vs-principals-option'))
            cases.append((opts, 'somebody-else', cert(ca, []), False, 'no-principals-vs-principals-option-other-user'))
    rng.shuffle(cases)

    async def one(opts: str, name: str, crt: Any) -> Tuple[bool, str]:
        path = os.path.join(tmp, 'ak%d' % rng.randrange(1 << 30))
        with open(path, 'w') as f:
            f.write(opts + ' ' + ca.export_public_key('openssh').decode())
        try:
            c, s, hub = await asyncio.wait_for(pair.make_pair(
                server_factory=asyncssh.SSHServer,          # authentication required, decided by authorized_keys only
                server_opts=dict(authorized_client_keys=path, **ALGS),
                client_opts=dict(username=name, client_keys=[(user_key, crt)], **ALGS)), 20)
        except Exception as e:
            return False, type(e).__name__
        who = s.get_extra_info('username')
        c.abort()
        await pair.settle(5)
        return True, str(who)

    async def go() -> List[Tuple[Tuple[str, str, Any, bool, str], Tuple[bool, str]]]:
        return [(c, await one(c[0], c[1], c[2])) for c in cases]
    import os
    for (opts, name, _crt, expect, label), (admitted, detail) in pair.run(go(), timeout=600, sync_executor=True):
        res.evaluations += 1
        hist.hit(f'cert:{label}:{"admitted" if admitted else "refused"}')
        key = {'kind': 'cert', 'options': opts, 'user': name, 'label': label}
        if admitted and not expect:
            res.failures.append(Failure(f'authenticated-without-credential-check:certificate:{label}',
                                        f'server with authorized_keys line {opts!r} <CA> admitted user {name!r} '
                                        f'(reported as {detail}) presenting a certificate that is {label}', key))
        if expect and not admitted:
            res.notes.append(f'certificate {label} for {opts!r} refused ({detail})')
            hist.hit('note:valid-certificate-refused')
    res.nontrivial += len(set((c[0], c[4]) for c in cases))


def replay(ctx: Ctx, rep: Dict[str, Any]) -> List[Failure]:
    r = rep.get('replay', rep)
    if r.get('kind') in ('options', 'keysfile', 'cert'):
        res, hist = OracleResult(), Hist()
        if r['kind'] == 'options':
            oracle_options(ctx, res, hist, [r['tokens']])
            return [f for f in res.failures if f.replay.get('tokens') == r['tokens']]
        if r['kind'] == 'keysfile':
            oracle_keysfile(ctx, res, hist)
            return [f for f in res.failures if (f.replay['user'], f.replay['credential']) == (r['user'], r['credential'])]
        oracle_certs(ctx, res, hist)
        return [f for f in res.failures if f.replay.get('label') == r.get('label') and f.replay.get('options') == r.get('options')]
    o = pair.run(run_script(r['app'], r['events'], r.get('seed', 0)), sync_executor=True)
    if o.get('complete') is not None and not granted(o, o['complete']):
        return [Failure('authenticated-without-credential-check' + (':' + denial(o, o['complete']) if denial(o, o['complete']) else ''),
                        str(o['complete']), r)]
    return []
