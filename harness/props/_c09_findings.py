"""C09 — deterministic end-to-end scenarios on the real code (public API where the API reaches the situation, the
wire where it does not), one per way a pending operation was found to hang or a registration to outlive its owner.

Every scenario builds a real client/server pair in-process (`pair.make_pair`, no SSH sockets), plays a fixed
history, lets the event loop drain and then asks the property's question: is anything awaited still pending, did
every owner / session get its final notification, is anything still registered for something that is closed.
`run_all()` returns one record per scenario; `judge()` turns a record into (signature, what) pairs.
"""

from __future__ import annotations

import asyncio
import binascii
import os
import tempfile
from typing import Any, Dict, List, Optional, Tuple

import asyncssh
from asyncssh.packet import Boolean, String, UInt32

import pair

W = 1024                    # channel window used by the scenarios (small: a few packets fill it)


async def _drained(rounds: int = 400) -> int:
    """Let the loop run until nothing is ready any more (the in-memory hub moves bytes through call_soon)."""
    loop = asyncio.get_event_loop()
    n = 0
    idle = 0
    while n < rounds and idle < 3:
        await asyncio.sleep(0)
        n += 1
        idle = idle + 1 if len(loop._ready) == 0 else 0     # type: ignore[attr-defined]
    return n


def _state(t: Any) -> str:
    if not t.done():
        return 'pending'
    if t.cancelled():
        return 'cancelled'
    e = t.exception()
    return 'ok' if e is None else type(e).__name__


async def _finish(tasks: List[Any], hub: Any) -> None:
    for t in tasks:
        if not t.done():
            t.cancel()
    hub.cut_transport()
    await pair.settle(8)


# ---------------------------------------------------------------------------------------------------------
# 1. a writer blocked in drain() when the peer's CLOSE arrives while received data is still unread


async def drain_after_peer_close(variant: str) -> Dict[str, Any]:
    """Client: the documented idiom `stdin.write(big); await stdin.drain()`, then read.  Server: ignores stdin,
    prints 1.5 windows and exits (variant 'exit') or just closes (variant 'close')."""
    async def handler(process: Any) -> None:
        process.stdout.write(b'o' * (3 * W // 2))
        if variant == 'exit':
            process.exit(1)
        else:
            process.close()

    c, s, hub = await pair.make_pair(server_opts=dict(process_factory=handler, encoding=None, window=W))
    info: Dict[str, Any] = {'scenario': 'drain-after-peer-close', 'variant': variant}
    tasks: List[Any] = []
    try:
        p = await c.create_process('work', encoding=None, window=W)
        p.channel.set_write_buffer_limits(high=W)
        p.stdin.write(b'i' * (5 * W))
        tasks.append(asyncio.ensure_future(p.stdin.drain()))
        info['rounds'] = await _drained()
        info['drain'] = _state(tasks[0])
        info['connection_up'] = not c.is_closed()
        info['exit_status'] = p.exit_status
        # what the application would do next: read what the command printed -- everything must wind up
        rd = asyncio.ensure_future(p.stdout.read())
        wc = asyncio.ensure_future(p.wait_closed())
        tasks += [rd, wc]
        await _drained()
        info['read_after'] = _state(rd)
        info['wait_closed_after'] = _state(wc)
    finally:
        await _finish(tasks, hub)
    return info


# ---------------------------------------------------------------------------------------------------------
# 2. undecodable text found by resume_reading() (entered from read()) after the peer's CLOSE


async def decode_error_in_resume(variant: str) -> Dict[str, Any]:
    """Text-mode client session with a small window; the server writes two windows of bytes the last of which is
    0xff, and exits.  The client reads late: the bad byte is decoded inside resume_reading().  Variant
    'session-resume': a plain session object calls chan.resume_reading() itself."""
    # stream: the first window sits in the stream session's buffer, the second (with the bad byte) in the channel's;
    # plain session: everything the window allows is buffered in the channel
    total = 2 * W if variant == 'stream' else W

    async def handler(process: Any) -> None:
        process.stdout.write(b'a' * (total - 1) + b'\xff')
        process.exit(0)

    c, s, hub = await pair.make_pair(server_opts=dict(process_factory=handler, encoding=None, window=W))
    info: Dict[str, Any] = {'scenario': 'decode-error-in-resume', 'variant': variant}
    tasks: List[Any] = []
    owner_closed_before = c.is_closed()
    try:
        if variant == 'stream':
            p = await c.create_process('work', window=W)            # encoding utf-8
            await _drained()
            got = 0
            first: Optional[str] = None
            for _ in range(8):
                t = asyncio.ensure_future(p.stdout.read(4096))
                tasks.append(t)
                await _drained()
                if not t.done():
                    first = 'pending'
                    break
                if t.exception() is not None:
                    first = type(t.exception()).__name__
                    break
                if not t.result():
                    first = 'eof'
                    break
                got += len(t.result())
            info['chars_before_error'] = got
            info['first_failure'] = first
            waits = {'read': asyncio.ensure_future(p.stdout.read()), 'wait_closed': asyncio.ensure_future(p.wait_closed()),
                     'wait': asyncio.ensure_future(p.wait())}
        else:
            log: List[str] = []

            class Sess(asyncssh.SSHClientSession):
                def connection_made(self, chan: Any) -> None:
                    self.chan = chan
                    chan.pause_reading()

                def data_received(self, data: Any, datatype: Any) -> None:
                    log.append('data')

                def eof_received(self) -> bool:
                    log.append('eof')
                    return True

                def connection_lost(self, exc: Optional[Exception]) -> None:
                    log.append('lost:' + (type(exc).__name__ if exc else 'None'))

            chan, sess = await c.create_session(Sess, 'work', window=W)
            chan.pause_reading()
            await _drained()
            try:
                chan.resume_reading()
                info['first_failure'] = 'none-raised'
            except Exception as e:                  # noqa: BLE001
                info['first_failure'] = type(e).__name__
            waits = {'wait_closed': asyncio.ensure_future(chan.wait_closed())}
            info['session_log'] = log
        tasks += list(waits.values())
        info['rounds'] = await _drained()
        info['waits'] = {k: _state(t) for k, t in waits.items()}
        info['connection_up'] = not c.is_closed()
        info['registered'] = sorted(c._channels)
        if variant != 'stream':
            info['session_log'] = list(info['session_log'])
    finally:
        await _finish(tasks, hub)
    info['closed_before'] = owner_closed_before
    return info


# ---------------------------------------------------------------------------------------------------------
# 3. both ends close while each has more to send than the other's window allows


class _Log(asyncssh.SSHClientSession, asyncssh.SSHServerSession):      # type: ignore[misc]
    def __init__(self) -> None:
        self.log: List[str] = []
        self.chan: Any = None

    def connection_made(self, chan: Any) -> None:
        self.chan = chan
        self.log.append('made')

    def shell_requested(self) -> bool:
        return True

    def exec_requested(self, command: str) -> bool:
        return True

    def session_started(self) -> None:
        self.log.append('started')

    def data_received(self, data: Any, datatype: Any) -> None:
        if self.log[-1] != 'data':
            self.log.append('data')

    def eof_received(self) -> bool:
        self.log.append('eof')
        return True

    def connection_lost(self, exc: Optional[Exception]) -> None:
        self.log.append('lost:' + (type(exc).__name__ if exc else 'None'))


async def mutual_close(variant: str) -> Dict[str, Any]:
    """'dropped': both sides write 1.5 windows and close before anything is delivered (the data that then arrives
    is dropped by `_accept_data`).  'discarded': both readers are paused on a full window of undelivered data,
    both sides write some more and close (the undelivered data is discarded by `_discard_recv`)."""
    ssess: List[_Log] = []

    class Srv(pair.DefaultServer):
        def session_requested(self) -> Any:
            ssess.append(_Log())
            return ssess[-1]

    c, s, hub = await pair.make_pair(server_factory=Srv, server_opts=dict(encoding=None, window=W))
    info: Dict[str, Any] = {'scenario': 'mutual-close', 'variant': variant}
    tasks: List[Any] = []
    try:
        cchan, csess = await c.create_session(_Log, encoding=None, window=W)
        await _drained()
        schan = ssess[0].chan
        if variant == 'discarded':
            cchan.pause_reading()
            schan.pause_reading()
            cchan.write(b'c' * W)
            schan.write(b's' * W)
            await _drained()                    # each reader now holds a full window of undelivered data
            n = W // 2
        else:
            n = 3 * W // 2
        # the two applications act before either has seen anything more from the other
        cchan.write(b'c' * n)
        cchan.close()
        schan.write(b's' * n)
        schan.close()
        tasks = [asyncio.ensure_future(cchan.wait_closed()), asyncio.ensure_future(schan.wait_closed())]
        info['rounds'] = await _drained(1200)
        info['wait_closed'] = [_state(t) for t in tasks]
        info['connection_up'] = not c.is_closed()
        info['client_log'] = list(csess.log)
        info['server_log'] = list(ssess[0].log)
        info['registered'] = [sorted(c._channels), sorted(s._channels)]
    finally:
        await _finish(tasks, hub)
    return info


# ---------------------------------------------------------------------------------------------------------
# 4. the connection dies of an exception asyncio refuses to store in a future


async def cleanup_with_odd_exception(excname: str) -> Dict[str, Any]:
    """Session A's `data_received` raises (StopIteration is what `next()` on an exhausted iterator raises) while
    `create_session` B is waiting for the answer to its exec request."""
    exc_cls = {'StopIteration': StopIteration, 'ValueError': ValueError, 'KeyError': KeyError}[excname]
    ssess: List[_Log] = []
    owner: List[str] = []

    class Srv(pair.DefaultServer):
        def session_requested(self) -> Any:
            ssess.append(_Log())
            return ssess[-1]

    class Owner(asyncssh.SSHClient):
        def connection_made(self, conn: Any) -> None:
            owner.append('made')

        def connection_lost(self, exc: Optional[Exception]) -> None:
            owner.append('lost:' + (type(exc).__name__ if exc else 'None'))

    class A(_Log):
        def data_received(self, data: Any, datatype: Any) -> None:
            raise exc_cls()

    c, s, hub = await pair.make_pair(server_factory=Srv, client_opts=dict(client_factory=Owner))
    info: Dict[str, Any] = {'scenario': 'cleanup-with-odd-exception', 'variant': excname}
    tasks: List[Any] = []
    try:
        achan, asess = await c.create_session(A)
        await _drained()
        bsess = _Log()
        hub.trans['server'].pause_reading()         # the server does not get to read B's requests: the reply stays out
        tb = asyncio.ensure_future(c.create_session(lambda: bsess, 'cmd'))
        tasks.append(tb)
        hub.trans['server'].resume_reading()
        # let the OPEN through and the confirmation back, then hold the exec request
        for _ in range(200):
            await asyncio.sleep(0)
            if bsess.log:
                break
        hub.trans['server'].pause_reading()
        await _drained()
        wc = asyncio.ensure_future(c.wait_closed())
        cwc = asyncio.ensure_future(achan.wait_closed())
        tasks += [wc, cwc]
        ssess[0].chan.write('x')                     # data for A -> A.data_received raises
        info['rounds'] = await _drained()
        info['create_session_B'] = _state(tb)
        info['conn_wait_closed'] = _state(wc)
        info['chan_wait_closed_A'] = _state(cwc)
        info['closed'] = c.is_closed()
        info['owner'] = list(owner)
        info['A'] = list(asess.log)
        info['B'] = list(bsess.log)
        info['registered'] = sorted(c._channels)
        info['loop_errors'] = [type(x.get('exception')).__name__ + ':' + str(x.get('exception'))[:60]
                               for x in pair.LOOP_ERRORS]
        pair.LOOP_ERRORS.clear()
    finally:
        await _finish(tasks, hub)
    return info


# ---------------------------------------------------------------------------------------------------------
# 5. / 6. channel requests the server finishes in a task (x11-req, auth-agent-req) and a CLOSE right behind them


def _listening_sockets() -> set:
    """(local address, inode) of the TCP sockets of THIS process that are in LISTEN state."""
    mine = set()
    try:
        for fd in os.listdir('/proc/self/fd'):
            try:
                l = os.readlink('/proc/self/fd/' + fd)
            except OSError:
                continue
            if l.startswith('socket:['):
                mine.add(l[8:-1])
    except OSError:
        return set()
    out = set()
    for fn in ('/proc/self/net/tcp', '/proc/self/net/tcp6'):
        try:
            for line in open(fn).read().splitlines()[1:]:
                f = line.split()
                if f[3] == '0A' and f[9] in mine:
                    out.add((f[1], f[9]))
        except OSError:
            pass
    return out


async def x11_request_then_close() -> Dict[str, Any]:
    """The client sends x11-req and closes the channel before the server's task has bound its X11 listener."""
    ssess: List[_Log] = []

    class Srv(pair.DefaultServer):
        def session_requested(self) -> Any:
            ssess.append(_Log())
            return ssess[-1]

    class Cli(_Log):
        def connection_made(self, chan: Any) -> None:
            _Log.connection_made(self, chan)
            chan._send_request(b'x11-req', Boolean(False), String(b'MIT-MAGIC-COOKIE-1'),
                               String(binascii.b2a_hex(b'\x11' * 16)), UInt32(0))
            chan.abort()        # CLOSE goes out right behind the x11-req

    info: Dict[str, Any] = {'scenario': 'x11-request-then-close', 'variant': '-'}
    with tempfile.TemporaryDirectory(prefix='c09x11-') as d:
        xa = os.path.join(d, 'xauth')
        open(xa, 'wb').close()
        before = _listening_sockets()
        c, s, hub = await pair.make_pair(server_factory=Srv,
                                         server_opts=dict(x11_forwarding=True, x11_auth_path=xa))
        tasks: List[Any] = []
        try:
            t = asyncio.ensure_future(c.create_session(Cli))
            tasks.append(t)
            for _ in range(20):                         # the listener is bound through real (loopback) socket calls
                await _drained(50)
                await asyncio.sleep(0.01)
            info['create_session'] = _state(t)
            info['server_session'] = list(ssess[0].log) if ssess else []
            info['listening_after_channel_closed'] = sorted(a for a, _i in _listening_sockets() - before)
            info['connection_up'] = not c.is_closed()
            c.close()
            await _drained()
            hub.cut_transport()
            for _ in range(10):
                await _drained(50)
                await asyncio.sleep(0.01)
            info['closed'] = [c.is_closed(), s.is_closed()]
            leaked = _listening_sockets() - before
            info['listening_after_connection_closed'] = sorted(a for a, _i in leaked)
            lst = getattr(s, '_x11_listener', None)
            if lst is not None:                         # tidy up what the code under test left behind
                try:
                    lst._tcp_listener.close()
                except Exception:                       # noqa: BLE001
                    pass
        finally:
            await _finish(tasks, hub)
    return info


async def agent_request_exec_close() -> Dict[str, Any]:
    """One burst `auth-agent-req@openssh.com ; exec ; CLOSE` on a second channel: what `create_session(...,
    agent forwarding)` followed by an immediate abort sends.  A long-lived session on the same connection must
    not notice."""
    ssess: List[_Log] = []
    owner: List[str] = []

    class Srv(pair.DefaultServer):
        def session_requested(self) -> Any:
            ssess.append(_Log())
            return ssess[-1]

        def connection_lost(self, exc: Optional[Exception]) -> None:
            owner.append('lost:' + (type(exc).__name__ if exc else 'None'))

    class Short(_Log):
        def connection_made(self, chan: Any) -> None:
            _Log.connection_made(self, chan)
            chan._send_request(b'auth-agent-req@openssh.com')
            asyncio.get_event_loop().call_soon(chan.abort)       # same loop iteration as create() sending `exec`

    c, s, hub = await pair.make_pair(server_factory=Srv)
    info: Dict[str, Any] = {'scenario': 'agent-request-exec-close', 'variant': '-'}
    tasks: List[Any] = []
    hold = {'on': False, 'buf': b''}

    def flt(direction: str, data: bytes) -> bytes:
        if direction == pair.C2S and hold['on']:
            hold['buf'] += data                  # the three packets leave in one TCP segment
            return b''
        return data
    try:
        vchan, vsess = await c.create_session(_Log)
        await _drained()
        hub.filter = flt
        shorts: List[Short] = []

        def factory() -> Short:
            shorts.append(Short())
            hold['on'] = True                    # from `connection_made` on: agent request, exec request, CLOSE
            return shorts[-1]
        t = asyncio.ensure_future(c.create_session(factory, 'true'))
        tasks.append(t)
        await _drained()
        hold['on'] = False
        hub.inject(pair.C2S, hold['buf'])
        for _ in range(10):
            await _drained(50)
            await asyncio.sleep(0.01)
        info['short_create_session'] = _state(t)
        info['victim_client'] = list(vsess.log)
        info['victim_server'] = list(ssess[0].log) if ssess else []
        info['short_server'] = list(ssess[1].log) if len(ssess) > 1 else []
        info['server_owner'] = list(owner)
        info['connection_up'] = not c.is_closed() and not s.is_closed()
        info['loop_errors'] = [str(x.get('exception'))[:80] for x in pair.LOOP_ERRORS]
        pair.LOOP_ERRORS.clear()
    finally:
        await _finish(tasks, hub)
    return info


# ---------------------------------------------------------------------------------------------------------

SCENARIOS: List[Tuple[str, Any, Tuple[Any, ...]]] = [
    ('drain-after-peer-close', drain_after_peer_close, ('exit',)),
    ('drain-after-peer-close', drain_after_peer_close, ('close',)),
    ('decode-error-in-resume', decode_error_in_resume, ('stream',)),
    ('decode-error-in-resume', decode_error_in_resume, ('session-resume',)),
    ('mutual-close', mutual_close, ('dropped',)),
    ('mutual-close', mutual_close, ('discarded',)),
    ('cleanup-with-odd-exception', cleanup_with_odd_exception, ('StopIteration',)),
    ('cleanup-with-odd-exception', cleanup_with_odd_exception, ('ValueError',)),
    ('cleanup-with-odd-exception', cleanup_with_odd_exception, ('KeyError',)),
    ('x11-request-then-close', x11_request_then_close, ()),
    ('agent-request-exec-close', agent_request_exec_close, ()),
]


async def run_one(name: str, args: Tuple[Any, ...]) -> Dict[str, Any]:
    for n, fn, a in SCENARIOS:
        if n == name and tuple(a) == tuple(args):
            try:
                return await asyncio.wait_for(fn(*a), 60)
            except Exception as e:                          # noqa: BLE001
                return {'scenario': n, 'variant': a[0] if a else '-', 'harness_exception': type(e).__name__ + ':' + str(e)[:200]}
    return {'scenario': name, 'variant': '-', 'harness_exception': 'unknown scenario'}


async def run_all() -> List[Dict[str, Any]]:
    out = []
    for n, _fn, a in SCENARIOS:
        out.append(await run_one(n, a))
        out[-1]['args'] = list(a)
    return out


def judge(info: Dict[str, Any]) -> List[Tuple[str, str]]:
    """(signature, what) for every way the record violates the property."""
    sc = info.get('scenario')
    v = info.get('variant')
    bad: List[Tuple[str, str]] = []
    if 'harness_exception' in info:
        return [(f'scenario-not-executable:{sc}', info['harness_exception'])]
    if sc == 'drain-after-peer-close':
        if info['drain'] == 'pending':
            bad.append(('drain-never-completes:peer-closed-with-unread-data',
                        f'stdin.write(5 windows); await stdin.drain(): the server printed 1.5 windows and '
                        f'{"exited" if v == "exit" else "closed"}; its CLOSE has arrived (exit status known to the client: '
                        f'{info["exit_status"]}), the connection is up ({info["connection_up"]}), the loop has drained after '
                        f'{info["rounds"]} iterations and drain() is still pending (it can only be released by the '
                        f'application reading, which it cannot do while it waits in drain())'))
        for k in ('read_after', 'wait_closed_after'):
            if info.get(k) == 'pending':
                bad.append((f'stream-waiter-never-completes:{k}:peer-closed', f'{k} pending after the drain scenario: {info}'))
    elif sc == 'decode-error-in-resume':
        pend = sorted(k for k, s in info['waits'].items() if s == 'pending')
        if pend:
            bad.append(('waiter-hangs-after-decode-error-in-resume_reading',
                        f'variant {v}: undecodable text was found while resume_reading() flushed the receive buffer after '
                        f'the peer\'s CLOSE (first failure seen by the caller: {info["first_failure"]}); afterwards the '
                        f'connection is up: {info["connection_up"]}, channels still registered: {info["registered"]}, and '
                        f'still pending with the loop drained: {pend}'))
    elif sc == 'mutual-close':
        if 'pending' in info['wait_closed'] or info['registered'] != [[], []]:
            root = 'data-dropped-after-close' if v == 'dropped' else 'buffered-data-discarded-by-close'
            bad.append(('both-closed-channel-never-cleaned-up:' + root,
                        f'both applications wrote more than the peer\'s window and called close(); after {info["rounds"]} '
                        f'loop iterations with nothing left to deliver: wait_closed() client/server = {info["wait_closed"]}, '
                        f'connection up: {info["connection_up"]}, session logs {info["client_log"]} / {info["server_log"]}, '
                        f'channels registered {info["registered"]}'))
    elif sc == 'cleanup-with-odd-exception':
        sym = []
        if info['create_session_B'] == 'pending':
            sym.append('create_session-pending')
        if info['conn_wait_closed'] == 'pending':
            sym.append('conn-wait_closed-pending')
        if info['chan_wait_closed_A'] == 'pending':
            sym.append('chan-wait_closed-pending')
        if not any(x.startswith('lost') for x in info['owner']):
            sym.append('owner-connection_lost-missing')
        if info['B'] and not any(x.startswith('lost') for x in info['B']):
            sym.append('session-connection_lost-missing')
        if info['registered']:
            sym.append('channel-registered-on-dead-connection')
        if sym:
            bad.append(('connection-cleanup-aborted-by-exception:' + v,
                        f'a session callback raised {v} while create_session was waiting for a request reply; the '
                        f'connection was force-closed, the loop drained after {info["rounds"]} iterations, yet: '
                        f'{", ".join(sym)}; owner log {info["owner"]}; exceptions that reached the event loop: '
                        f'{info["loop_errors"]}'))
    elif sc == 'x11-request-then-close':
        if info['listening_after_connection_closed']:
            bad.append(('listener-outlives-closed-connection:x11',
                        f'x11-req followed at once by CLOSE: the server task bound its X11 listener after the channel '
                        f'was cleaned up; listening (this process) after the channel closed: '
                        f'{info["listening_after_channel_closed"]}, after the SSH connection closed {info["closed"]}: '
                        f'{info["listening_after_connection_closed"]}'))
        elif info['listening_after_channel_closed']:
            bad.append(('listener-outlives-closed-channel:x11',
                        f'X11 listener for a channel that is closed: {info["listening_after_channel_closed"]}'))
    elif sc == 'agent-request-exec-close':
        if not info['connection_up'] or any(x.startswith('lost') for x in info['victim_server'] + info['victim_client']):
            bad.append(('connection-killed-by-request-served-after-channel-close',
                        f'the burst auth-agent-req ; exec ; CLOSE on one channel ended the whole connection: server owner '
                        f'{info["server_owner"]}, the other (long-lived) session client/server logs {info["victim_client"]} / '
                        f'{info["victim_server"]}; the closed channel\'s queued exec request was served after its _cleanup'))
    return bad
