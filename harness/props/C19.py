"""C19 — Stream and process APIs deliver what was sent, split as asked.

Lean: Model/Stream.lean (receive buffer as chunk list + channel queue, read/readexactly/readuntil/readline with the
search window as coded), Model/StreamProc.lean (client channel + process: data/EOF/exit-status/CLOSE ordering, wait(),
redirect, drain incl. the process override with a redirect source registered), Model/StreamSrc.lean (redirect SOURCES
of a process: set_reader/feed_data/feed_eof, when EOF goes out), Props/C19.lean (chunk independence of readexactly for
call sequences, read-to-EOF, read(n), readuntil single/multi separator with the window lemma, F10 negation witness,
two streams sharing the session's pause flag, exit-with-complete-output, drain contract, sources copy all then EOF).
Correspondence: the Lean driver vs real SSHReader objects — driven directly through the session's entry points, through
real channels from a raw peer (client stdout and server stdin side), through real channels under transport
re-chunking — and vs a real SSHClientProcess fed every kind of ordering by a raw peer; drain against the real session.
The raw peers keep to the receive window the reader's side advertised (since asyncssh counts data buffered while
reading is paused against the window, anything else is a protocol error): what does not fit waits in the peer and is
sent, split at the window edge, when a WINDOW_ADJUST has arrived; the model is run on the script as it was realized.
Sends that ignore the window exist only as explicit hostile-peer oracle scenarios (expected: 'Window exceeded').
Oracle: results must equal the specification of each call for several chunkings of the same stream; whenever wait()
reports an exit status/signal the collected output must be everything sent before CLOSE; redirect targets receive all
data then EOF; drain returns only when writable and fails when the channel is gone.
"""

from __future__ import annotations

import asyncio
import io
import itertools
import os
from typing import Any, Dict, List, Optional, Sequence, Tuple

import asyncssh
from asyncssh.stream import SSHWriter, SSHServerStreamSession

import pair
from vlib import (Ctx, CorrResult, OracleResult, Failure, Disagreement, Hist, hx, unhx)
from props import _c19_impl as I
from props import _c19_gen as G
from props import _c19_translate
from props import _c19_redir as RD

PROPERTY = 'C19'
MANIFEST = {
    'text': 'Lean 4 theorems about an executable model of the stream reader (chunk list + channel queue + pause '
            'limit): for EVERY stream, chunking, wake-up grouping and pause state any sequence of readexactly calls '
            'returns the stream cut at the cumulative sums with IncompleteReadError(partial) at EOF '
            '(readexactly_chunk_independent), read(-1)/read(n) (read_all_to_eof, read_n_prefix), readuntil/readline '
            'return the shortest prefix ending in a separator with the search-window arithmetic proved not to skip a '
            'separator spanning a chunk boundary (readuntil_window_never_skips, readuntil_single_sep, '
            'readuntil_multi_sep for EVERY separator list, readuntil_multi_sep_chunk_independent, '
            'readuntil_regex_alternation_partial under "no separator strictly inside another", with the machine-checked '
            'witness that the code before the repair of F10 depended on the chunking); for EVERY ordering of data/EOF/exit-status/'
            'CLOSE, loop turn, wait()/redirect moment and pause limit, wait() returns everything sent before CLOSE '
            '(exit_with_complete_output_partial, hypothesis: channel not torn down by a connection loss, with negation '
            'witness = finding F33); redirect targets get all data and write_eof exactly once (redirect_copies_all, '
            'redirect_eof_exactly_once, with the witness that before the repair of A-C19-4 a target redirected with '
            'recv_eof=False after EOF was closed all the same); readuntil/readline report an empty partial result only at EOF, '
            'for EVERY session state incl. those where the OTHER stream of the session (shared _recv_buf_len/_read_paused) '
            'caused the pause (readuntil_empty_partial_only_at_eof, readline_waits_on_empty_stream, witness of A-C19-3 '
            'before its repair); drain on a process session — the override SSHProcess._should_block_drain with a redirect '
            'source registered, waiters woken only by _unblock_drain calls — keeps waiting exactly while something blocks '
            'and never across the loss of the channel (drain_contract, drain_never_outlives_channel, witness '
            'drain_hangs_after_channel_loss_prefix = A-C19-1 before its repair); the peer\'s CLOSE arriving while '
            'connection_lost is held back by unread data ends the wait of a paused writer with BrokenPipeError, while a '
            'wait that ends because the data WAS sent returns normally also after write_eof / a redirect\'s EOF '
            '(drain_fails_when_peer_closes_on_paused_writer, drain_returns_when_data_was_sent, witnesses '
            'drain_after_peer_close_witnesses: hang before C09\'s repair 352f310, normal return with that repair alone); '
            'redirect sources of a process: for every '
            'history of two well-behaved sources nothing is refused, the channel carries what they delivered in order and '
            'EOF goes out when and only when the last one has ended (sources_copy_all_then_eof, witness of A-C19-2 before '
            'its repair); the model\'s window/pause/loop/give-up/drain/EOF tests proved equal to the '
            'expressions regenerated from stream.py and process.py (T1). Model tied to the code by differential runs against real '
            'SSHReader/SSHClientProcess/SSHServerProcess objects (direct incl. two streams of one session, raw-peer over '
            'real channels both directions, transport re-chunking, redirect targets of both kinds, redirect sources fed by '
            'hand) and the property itself evaluated on the real code against an independent specification.',
    'note': 'regex separators are modelled for alternations of literals (arbitrary re.Pattern objects are not); '
            'receive-window arithmetic itself is C08; text mode exercised with a 1-byte codec (multi-byte boundaries '
            'are C07); redirect/drain: sync writers, another process as target, and drain on stream and process '
            'sessions are modelled, async file/pipe/StreamWriter targets only exercised; the pause/resume fan-out over '
            'several sources (tasks started by resume_reading) and sources outliving their channel are reached by the '
            'oracle only (asyncio task life cycle is not modelled); readuntil results while reading is paused (more than a '
            'window without separator, or the other stream holding the window) are checked by correspondence, the '
            'partial line returned in the second case is a recorded finding; cancellation of a waiting read is not '
            'modelled (recorded finding); the raw peers of the harness are window-conforming '
            'senders (the model is run on the realized script); a peer that exceeds the window is an explicit oracle '
            'scenario whose expected outcome is the connection closed with Window exceeded',
    'technique': 'Lean 4 proof by induction over schedules / buffers / event lists + differential correspondence + '
                 'specification oracle over several chunkings',
}
LEAN_PROPS = ['AsyncsshModel.Props.C19']
DRIVER = 'Drivers/C19.lean'
TRUSTED = [
    'asyncio scheduling is abstracted as: a blocked reader runs once after every group of arrivals (realised in '
    'the harness by settling the loop after each scripted group)',
    'the stand-in channel of the direct mode mirrors SSHChannel._accept_data/_flush_recv_buf; the real channel is '
    'exercised in the wire modes and must agree with the same model',
    're module: pat.search for an alternation of escaped literals = leftmost position, first alternative '
    '(validated by the correspondence on every run)',
    'window account of the raw peers: window advertised at channel open + the CHANNEL_WINDOW_ADJUST values seen '
    'arriving at the peer (class-level wrapper of SSHPacketLogger.log_received_packet, observation only) - bytes sent',
    'drain model, event peerClose: the stand-in channel of the directly driven sessions does what '
    'SSHChannel._process_close does for the writer (discard, record it, resume a paused session); that the real channel '
    'does so is tied by the generated facts processCloseResumesWriting / closeSendRecordsDiscard and exercised by the '
    'oracle scenario drain-peer-close on real channels',
    'drain model: a waiter completed by _unblock_drain runs before the next event (the harness settles the loop after '
    'every event); the directly driven process session (SSHServerProcess over a stand-in channel, events = calls of '
    'pause_writing / resume_writing / connection_lost / set_reader / feed_eof) stands for the real one, which the '
    'oracle exercises through the public API on real channels',
    'source model: a refused write (BrokenPipeError out of chan.write in a feeder task) is observed as the server '
    'connection being torn down',
]
ASSUMPTIONS = [
    'peer respects the advertised receive window (the raw peers of the harness do; a peer that does not gets the '
    'connection closed with Window exceeded, checked by the hostile-peer oracle scenarios; the arithmetic is C08) and '
    'sends no data after EOF / nothing after CLOSE (C08/C06 cover what happens otherwise; the model predicts it and '
    'the correspondence checks the prediction)',
    'readuntil theorems: fewer bytes than the pause limit arrive between separators (reading never paused)',
    'exit_with_complete_output: the channel is closed by CLOSE, not torn down by connection loss (F33 otherwise)',
    'sources_copy_all_then_eof: both sources are registered (redirect() has returned) before the first of them ends, '
    'each delivers only while registered, send_eof as by default',
]



def translate(ctx: Ctx) -> Dict[str, Any]:
    """regenerate lean/AsyncsshModel/Gen/C19.lean (search-window start, pause test, read loop tests, drain test) from
    the current asyncssh/stream.py; Props/C19.lean proves the model's definitions equal to them"""
    return _c19_translate.translate(ctx)


SIG_F10 = 'readuntil-multi-sep:separator-inside-another:result-depends-on-chunking'
SIG_F33 = 'exit-status-with-truncated-output:connection-closed-while-reading-paused'
SIG_F33B = 'wait-raises-assertion-error:connection-lost-while-eof-queued-behind-paused-data'


# ---------------------------------------------------------------------------
# correspondence


def _kinds(results: Sequence[str], hist: Hist, prefix: str) -> None:
    for r in results:
        hist.hit(prefix + r.split(':')[0].split('=')[0])


async def _run_direct(cases: List[Tuple[int, List[Tuple], bool]]) -> List[Tuple[List[str], List[Tuple]]]:
    out = []
    for limit, toks, text in cases:
        try:
            out.append(await I.run_script(I.DirectFeeder(limit, text), toks))
        except Exception as e:      # noqa: BLE001  (the code under test broke the stand-in set-up)
            out.append((['harness-scenario-failed:' + type(e).__name__], list(toks)))
    return out


async def _run_wire(cases: List[Tuple[int, List[Tuple]]], mode: str,
                    chunker_factory: Any = None) -> List[Tuple[List[str], List[Tuple]]]:
    """every case on a fresh channel of a shared connection, fed by a window-conforming raw peer; returns
    (results, realized script) per case.  A case that fails (the connection died, no channel could be opened, the
    reader raised something unexpected) is recorded as its outcome and the rig is reopened for the next one."""
    out: List[Tuple[List[str], List[Tuple]]] = []
    rig = I.Rig(chunker_factory)
    for limit, toks in cases:
        cp = None
        try:
            f, cp = await rig.feeder(mode, limit)
            res, real = await asyncio.wait_for(I.run_script(f, toks), 30)
            if not rig.alive():
                res = res + ['connection-closed']
            out.append((res, real))
        except asyncio.TimeoutError:
            out.append((['harness-timeout'], list(toks)))
        except Exception as e:      # noqa: BLE001
            out.append((['harness-scenario-failed:%s' % type(e).__name__], list(toks)))
        try:
            if cp is not None:
                cp.channel.abort()
        except Exception:       # noqa: BLE001
            pass
    await rig.close()
    return out


def _determinate(toks: Sequence[Tuple]) -> bool:
    """script whose results do not depend on the wake-up grouping (no read(n>0), no at_eof polling)"""
    for t in toks:
        if t[0] == 'Q' or (t[0] == 'R' and t[1] > 0):
            return False
    return True


def _drain_cases(evs: Sequence[str] = ('p', 'r', 'l0', 'l1', 'c0', 'c1')) -> List[Tuple[List[str], List[str]]]:
    out = []
    for npre in range(0, 3):
        for pre in itertools.product(evs, repeat=npre):
            for npost in range(0, 3):
                for post in itertools.product(evs, repeat=npost):
                    out.append((list(pre), list(post)))
    return out


async def _run_drain(cases: List[Tuple[List[str], List[str]]]) -> List[str]:
    out = []
    loop = asyncio.get_event_loop()
    for pre, post in cases:
        chan = I.StandInChannel(loop, 0, None)
        sess = SSHServerStreamSession(None)
        chan.session = sess
        sess.connection_made(chan)      # type: ignore
        writer = SSHWriter(sess, chan)  # type: ignore

        def apply(ev: str) -> None:
            if ev == 'p':
                chan.pause_session()
            elif ev == 'r':
                chan.resume_session()
            elif ev == 'l0':
                sess.connection_lost(None)
            elif ev in ('c0', 'c1'):
                chan.peer_close(ev == 'c1')
            else:
                sess.connection_lost(asyncssh.ConnectionLost('lost'))
        for ev in pre:
            apply(ev)
        task = asyncio.ensure_future(writer.drain())
        await pair.settle(3)
        for ev in post:
            if task.done():
                break
            apply(ev)
            await pair.settle(3)
        if not task.done():
            task.cancel()
            try:
                await task
            except BaseException:       # noqa: BLE001
                pass
            out.append('blocked')
        else:
            try:
                task.result()
                out.append('returned')
            except BrokenPipeError:
                out.append('brokenpipe')
            except asyncssh.ConnectionLost:
                out.append('exc')
            except BaseException as e:  # noqa: BLE001
                out.append('raised:' + type(e).__name__)
    return out


def _conformance_stats(toks: Sequence[Tuple], real: Sequence[Tuple], hist: Hist, mode: str) -> None:
    """how often the window made the peer hold data back / split it (the scripts must keep reaching those states)"""
    scripted = [a for t in toks if t[0] == 'G' for a in t[1]]
    sent = [a for t in real if t[0] == 'G' for a in t[1]]
    if sent != scripted:
        hist.hit(mode + ':peer-held-data-back-for-the-window')
        if b''.join(a[1] for a in sent if a[0] == 'd') != b''.join(a[1] for a in scripted if a[0] == 'd'):
            hist.hit(mode + ':part-of-the-stream-never-fitted')


def conf_ok(evs: Sequence[Tuple]) -> bool:
    """process event list whose end a redirect target on the far side can observe: conformant wire part, no disconnect"""
    return is_conformant(evs) and not any(e[0] == 'x' for e in evs)


def gen_late_redirect_events(rng: Any) -> Tuple[int, List[Tuple], Dict[str, Any]]:
    """data and EOF (channel left open or closed) arrive, THEN stdout is redirected: to a file object (r) or to
    another process's stdin (q), with recv_eof either way"""
    limit = rng.choice([16, 64, 1024])
    evs: List[Tuple] = [('d', bytes([65 + i]) * rng.randint(1, 6)) for i in range(rng.randint(0, 3))]
    evs.append(('e',))
    if rng.random() < 0.4:
        evs.insert(rng.randint(0, len(evs)), ('s', rng.choice([0, 3])))
    close_first = rng.random() < 0.3
    if close_first:
        evs.append(('c',))
    evs += [('t',), (rng.choice('qqr'), rng.choice([0, 0, 1])), ('t',)]
    if not close_first and rng.random() < 0.7:
        evs += [('c',), ('t',)]
    if rng.random() < 0.5:
        evs += [('w',), ('t',)]
    return limit, evs, {'late_wait': True, 'disconnect': False, 'redirect': True}


def gen_two_stream_script(rng: Any) -> Tuple[int, List[Tuple]]:
    """reader script for one stream while the OTHER stream of the session receives data (O<n>) and is read (T<n>):
    the other stream's unread bytes hover around the pause limit"""
    limit = rng.choice([4, 8, 8, 16, 32])
    data = G.gen_stream(rng, 24)
    chunks = G.gen_chunking(rng, data)
    arr: List[Tuple] = [('d', c) for c in chunks]
    if rng.random() < 0.6:
        arr.append(('e',))
    toks: List[Tuple] = []
    other = 0
    ai = 0

    def other_step() -> None:
        nonlocal other
        r = rng.random()
        if r < 0.55:
            n = rng.choice([1, limit - 1, limit, limit + 1, max(1, limit - other), max(1, limit // 2)])
            n = max(1, n)
            toks.append(('O', n))
            other += n
        elif other > 0:
            n = rng.choice([other, other, max(1, other // 2), 1])
            toks.append(('T', n))
            other -= n
    for _ in range(rng.randint(1, 5)):
        for _ in range(rng.choice([0, 1, 1, 2])):
            other_step()
        for _ in range(rng.choice([0, 1, 1, 2])):
            if ai < len(arr):
                k = rng.choice([1, 1, 2, len(arr)])
                toks.append(('G', arr[ai:ai + k]))
                ai += k
        for _ in range(rng.choice([0, 1, 1])):
            other_step()
        r = rng.random()
        rest = len(data)
        if r < 0.35:
            toks.append(('L',))
        elif r < 0.6:
            toks.append(('V', G.gen_seps(rng, data, 'single')[0]))
        elif r < 0.7:
            toks.append(('U', G.gen_seps(rng, data, 'multi')))
        elif r < 0.8:
            toks.append(('X', max(1, G.gen_n(rng, rest, limit))))
        elif r < 0.9:
            toks.append(('R', rng.choice([-1, max(1, G.gen_n(rng, rest, limit))])))
        else:
            toks.append(('Q',))
        # what the call waits for arrives while it waits (groups directly after a call)
        for _ in range(rng.choice([0, 0, 1, 2])):
            if ai < len(arr):
                k = rng.choice([1, 2, len(arr)])
                toks.append(('G', arr[ai:ai + k]))
                ai += k
    if other > 0 and rng.random() < 0.7:
        toks.append(('T', other))
    if ai < len(arr):
        toks.append(('G', arr[ai:]))
    if rng.random() < 0.5:
        toks.append(('L',))
    return limit, toks


def correspondence(ctx: Ctx) -> CorrResult:
    res = CorrResult()
    hist = Hist()
    lines: List[str] = []
    expect: List[Tuple[str, Any, str]] = []     # (leg name, case, impl output)

    # (1) direct: everything the session can be told, incl. soft EOF, feed_data, exceptions anywhere ----------
    rng = ctx.subrng('corr-direct')
    direct = []
    for _ in range(ctx.n(6000, 40000)):
        limit, toks, info = G.gen_reader_script(rng, 'direct')
        direct.append((limit, toks, rng.random() < 0.25))
    out = pair.run(_run_direct(direct), timeout=900)
    for (limit, _toks, text), (r, real) in zip(direct, out):
        lines.append(I.script_line(limit, real))
        expect.append(('reader-direct', {'mode': 'direct', 'limit': limit, 'text': text}, ';'.join(r)))
        _kinds(r, hist, 'direct:')
    res.nontrivial += len(set(lines))

    # (1b) direct, TWO streams of one session: `_recv_buf_len` / `_read_paused` are shared, so unread data of the other
    # stream pauses reading for the stream under test (O<n> = n bytes arrive for the other stream, T<n> = the
    # application reads n of them)
    rng = ctx.subrng('corr-two-streams')
    two = [gen_two_stream_script(rng) for _ in range(ctx.n(800, 6000))]

    async def run_two() -> List[Tuple[List[str], List[Tuple]]]:
        o = []
        for limit, toks in two:
            try:
                o.append(await I.run_script(I.DirectFeeder(limit, False, two_streams=True), toks))
            except Exception as e:      # noqa: BLE001
                o.append((['harness-scenario-failed:' + type(e).__name__], list(toks)))
        return o
    n0 = len(lines)
    for (limit, _toks), (r, real) in zip(two, pair.run(run_two(), timeout=900)):
        lines.append(I.script_line(limit, real))
        expect.append(('reader-two-streams', {'mode': 'direct-two-streams', 'limit': limit}, ';'.join(r)))
        _kinds(r, hist, 'two-streams:')
    res.nontrivial += len(set(lines[n0:]))

    # (2) real channel, raw peer: client stdout side and server stdin side ----------------------------------------
    for mode, nq, nt in (('client', 600, 4000), ('server', 250, 1500)):
        rng = ctx.subrng('corr-wire-' + mode)
        cases = []
        for _ in range(ctx.n(nq, nt)):
            limit, toks, info = G.gen_reader_script(rng, mode)
            cases.append((limit, toks))
        if mode == 'server':
            cases.sort(key=lambda c: c[0])      # one connection per window size
        out = pair.run(_run_wire(cases, mode), timeout=900)
        n0 = len(lines)
        for (limit, toks), (r, real) in zip(cases, out):
            # the model runs on what the window-conforming peer really sent and when (the realized script)
            lines.append(I.script_line(limit, real))
            expect.append(('reader-wire-' + mode, {'mode': mode, 'limit': limit, 'scripted': I.script_line(limit, toks)},
                           ';'.join(r)))
            _kinds(r, hist, mode + ':')
            _conformance_stats(toks, real, hist, mode)
        res.nontrivial += len(set(lines[n0:]))

    # (3) real channel with the transport bytes re-chunked (wake-up grouping out of the script's hands) --------------
    rng = ctx.subrng('corr-chunker')
    cases = []
    while len(cases) < ctx.n(300, 2000):
        limit, toks, info = G.gen_reader_script(rng, 'client')
        if _determinate(toks) and len(info['data']) < 30:
            cases.append((4096, toks))
    out = pair.run(_run_wire(cases, 'client',
                             chunker_factory=lambda k: pair.seeded_chunker(ctx.subrng('corr-chunker-hub%d' % k), 48)),
                   timeout=900)
    for (limit, toks), (r, real) in zip(cases, out):
        lines.append(I.script_line(limit, real))
        expect.append(('reader-rechunked', {'mode': 'client', 'limit': limit, 'chunker': True}, ';'.join(r)))
        _kinds(r, hist, 'rechunked:')

    # (4) process layer: raw peer plays every kind of ordering against a real SSHClientProcess -------------------
    rng = ctx.subrng('corr-proc')
    pcases = [G.gen_proc_events(rng, rng.random() < 0.7) for _ in range(ctx.n(500, 3000))]
    # redirect targets of the kind that does not look at recv_eof itself (another process's stdin): `q` in place of
    # `r`, in runs whose end the target's side can observe (conformant peer, connection stays up); plus runs made
    # for it: data, EOF, then the redirect
    rq = ctx.subrng('corr-proc-target-kind')
    pcases = [(l, [('q', e[1]) if e[0] == 'r' else e for e in evs], info)
              if (conf_ok(evs) and info['redirect'] and rq.random() < 0.6) else (l, evs, info)
              for l, evs, info in pcases]
    for _ in range(ctx.n(60, 400)):
        pcases.append(gen_late_redirect_events(rq))

    async def run_procs() -> List[Tuple[str, List[Tuple]]]:
        o = []
        for limit, evs, info in pcases:
            try:
                obs = await asyncio.wait_for(I.run_proc_events(limit, evs), 30)
                o.append((I.canon_proc(obs), obs['events']))
            except asyncio.TimeoutError:
                o.append(('harness-timeout', list(evs)))
            except Exception as e:      # noqa: BLE001
                o.append(('harness-scenario-failed:' + type(e).__name__, list(evs)))
        return o
    out_p = pair.run(run_procs(), timeout=900)
    n0 = len(lines)
    for (limit, evs, info), (r, real_evs) in zip(pcases, out_p):
        lines.append(I.proc_line(limit, real_evs))      # what the window-conforming peer really sent, in that order
        expect.append(('process-events', {'limit': limit, 'events': [I.pev_str(e) for e in real_evs],
                                          'scripted': [I.pev_str(e) for e in evs]}, r))
        hist.hit('proc:' + r.split(',')[0].split(' ')[0])
        if [e for e in real_evs if e[0] in I.WIRE_EVENTS] != [e for e in evs if e[0] in I.WIRE_EVENTS]:
            hist.hit('proc:peer-held-data-back-for-the-window')
        for k in ('late_wait', 'disconnect', 'redirect'):
            if info[k]:
                hist.hit('proc:' + k)
        if any(e[0] == 'q' for e in evs):
            hist.hit('proc:redirect-to-process-stdin')
    res.nontrivial += len(set(lines[n0:]))

    # (5) drain: every short event sequence (exhaustive) ---------------------------------------------------------
    dcases = _drain_cases()
    out_d = pair.run(_run_drain(dcases), timeout=300)
    for (pre, post), r in zip(dcases, out_d):
        lines.append('D ' + ' '.join(pre) + ' | ' + ' '.join(post))
        expect.append(('drain', {'pre': pre, 'post': post}, r))
        hist.hit('drain:' + r)
    res.nontrivial += len(dcases)

    # (5b) drain on a PROCESS session (the override SSHProcess._should_block_drain): the same events (p r l0 l1, and
    # c0 / c1 = the peer's CLOSE arrives while connection_lost is held back, send buffer empty / not) plus a redirect
    # source being registered (s) and ending (f), every sequence of length <= 2+2
    pdcases = _drain_cases(['p', 'r', 'l0', 'l1', 's', 'f', 'c0', 'c1'])
    out_pd = pair.run(RD.run_proc_drain(pdcases), timeout=600)
    for (pre, post), r in zip(pdcases, out_pd):
        lines.append('D ' + ' '.join(pre) + ' | ' + ' '.join(post))
        expect.append(('drain-process', {'pre': pre, 'post': post}, r))
        hist.hit('drain-process:' + r)
    res.nontrivial += len(pdcases)

    # (6) redirect sources of a real server process (two asyncio.StreamReaders fed by hand) vs Model/StreamSrc
    rng = ctx.subrng('corr-sources')
    scases = [RD.gen_source_script(rng) for _ in range(ctx.n(150, 1200))]

    async def run_sources() -> List[str]:
        o = []
        for evs in scases:
            try:
                o.append(await asyncio.wait_for(RD.run_source_script(evs), 30))
            except Exception as e:      # noqa: BLE001  (TimeoutError included)
                o.append('harness-scenario-failed:' + type(e).__name__)
        return o
    n0 = len(lines)
    for evs, r in zip(scases, pair.run(run_sources(), timeout=900)):
        lines.append('R ' + ' '.join(RD.src_ev_str(e) for e in evs))
        expect.append(('redirect-sources', {'events': [RD.src_ev_str(e) for e in evs]}, r))
        hist.hit('sources:' + r.split('=')[0].split(':')[0])
    res.nontrivial += len(set(lines[n0:]))
    nsrc = len(scases)

    model = ctx.model(DRIVER, lines)
    model = [RD.canon_source_model(m) if l.startswith('R ') and m.startswith('out=') else m
             for l, m in zip(lines, model)]
    for line, (name, case, impl), mod in zip(lines, expect, model):
        res.cases += 1
        if mod != impl:
            res.disagreements.append(Disagreement(case={'leg': name, **case, 'line': line}, model=mod, impl=impl,
                                                  name='correspondence:' + name))
    res.histogram = dict(hist)
    res.samples = [{'line': lines[i], 'model': model[i], 'impl': expect[i][2]}
                   for i in (0, len(direct), len(lines) - nsrc - len(pdcases) - len(dcases) - 1,
                             len(lines) - nsrc - 1, len(lines) - 1)]
    res.rule = ('seeded reader scripts (stream over a 4-letter alphabet + 15% random bytes, random chunking incl. '
                '1-byte and single-chunk, groups of arrivals between calls, EOF/soft-EOF/signal/break/resize/feed_data '
                'at random places, separators single/list/regex from substrings of the stream incl. infix-related and '
                'empty ones, n around the buffered amount and the limit) run in 4 ways; process event lists '
                '(70% protocol-conformant orderings with exit status at every position, 30% not) with loop turns, '
                'wait()/redirect/disconnect at random moments; on real channels the raw peer keeps to the advertised '
                'window (limits 8..4096 with up to 48 / 168 bytes: reading pauses, the channel buffer fills to the last '
                'byte, the peer holds back and splits data) and the model runs on the realized script; drain over all '
                'event sequences of length <= 2+2; distinct = distinct script lines')
    return res


# ---------------------------------------------------------------------------
# oracle (a): every call returns what its specification says, whatever the chunking


def spec_results(data: bytes, ops: Sequence[Tuple], actual: Sequence[str]) -> Tuple[List[str], Optional[int]]:
    """Expected results of `ops` on a stream `data` that ends with EOF (all of it arrives eventually).
    read(n>0) may return any non-empty prefix of at most n bytes: its expectation follows the actual length.
    Returns (expected, index of first op whose actual result is outside the specification)."""
    exp: List[str] = []
    rem = data
    bad: Optional[int] = None
    for i, t in enumerate(ops):
        act = actual[i] if i < len(actual) else '<missing>'
        if t[0] == 'X':
            n = t[1]
            if n <= len(rem):
                e, rem = 'ok:' + hx(rem[:n]), rem[n:]
            else:
                e, rem = 'inc:' + hx(rem), b''
        elif t[0] == 'R' and t[1] < 0:
            e, rem = 'ok:' + hx(rem), b''
        elif t[0] == 'R':
            n = t[1]
            if n == 0:
                e = 'ok:-'
            elif not rem:
                e = 'ok:-'
            else:
                got = unhx(act[3:]) if act.startswith('ok:') else None
                if got is not None and 1 <= len(got) <= n and rem.startswith(got):
                    e, rem = act, rem[len(got):]
                else:
                    e = 'ok:<1..%d bytes prefix of %s>' % (n, hx(rem[:n]))
        elif t[0] == 'L':
            k = G.first_end([b'\n'], rem)
            if k is None:
                e, rem = 'ok:' + hx(rem), b''
            else:
                e, rem = 'ok:' + hx(rem[:k]), rem[k:]
        else:
            seps = [t[1]] if t[0] == 'V' else (t[1] if t[0] == 'U' else t[2])
            k = G.first_end(seps, rem)
            if k is None:
                e, rem = 'inc:' + hx(rem), b''
            elif t[0] == 'P' and len(seps) > 1 and not G.infix_free(seps):
                # the caller's own regex with one alternative inside another: "the first match" is what the regex
                # engine says (leftmost start) on the buffer as it stands; any prefix ending in a separator is
                # accepted (documented caveat).  A separator LIST has no such freedom: the shortest prefix ending in
                # a separator, whatever the chunking (defect F10 when it is not)
                got = unhx(act[3:]) if act.startswith('ok:') else None
                if got is not None and rem.startswith(got) and any(got.endswith(x) for x in seps):
                    e, rem = act, rem[len(got):]
                else:
                    e, rem = 'ok:' + hx(rem[:k]), rem[k:]
            else:
                e, rem = 'ok:' + hx(rem[:k]), rem[k:]
        exp.append(e)
        if bad is None and e != act:
            bad = i
    return exp, bad


def gen_spec_case(rng: Any, small: bool = False) -> Tuple[bytes, List[Tuple]]:
    data = G.gen_stream(rng, 8 if small else 40)
    ops: List[Tuple] = []
    consumed = 0
    for _ in range(rng.randint(1, 5)):
        rest = data[min(consumed, len(data)):]
        r = rng.random()
        if r < 0.25:
            n = max(1, G.gen_n(rng, len(rest), 8))
            ops.append(('X', n))
            consumed += n
        elif r < 0.35:
            n = max(1, G.gen_n(rng, len(rest), 8))
            ops.append(('R', n))
            consumed += n
        elif r < 0.42:
            ops.append(('L',))
        elif r < 0.48:
            ops.append(('R', -1))
        elif r < 0.7:
            ops.append(('V', G.gen_seps(rng, rest, 'single')[0]))
        elif r < 0.85:
            ops.append(('U', G.gen_seps(rng, rest, 'multi')))
        elif r < 0.93:
            seps = G.gen_seps(rng, rest, rng.choice(['single', 'multi']))
            # max_separator_len: exact, generous, or the default 0 (= search the whole buffer every time)
            ops.append(('P', rng.choice([max(len(s) for s in seps), 0, 0, max(len(s) for s in seps) + 2]), seps))
        else:
            ops.append(('U', G.gen_seps(rng, rest, 'infix')))
    return data, ops


def seps_of(t: Tuple) -> Optional[List[bytes]]:
    if t[0] == 'V':
        return [t[1]]
    if t[0] == 'U':
        return list(t[1])
    if t[0] == 'P':
        return list(t[2])
    return None


def make_delivery(rng: Any, chunks: List[bytes], ops: Sequence[Tuple]) -> List[Tuple]:
    """token script: the chunks (then EOF) arrive before / between / during the calls at random"""
    arr: List[Tuple] = [('d', c) for c in chunks] + [('e',)]
    groups: List[List[Tuple]] = []
    i = 0
    while i < len(arr):
        k = rng.choice([1, 1, 2, 3, len(arr)])
        groups.append(arr[i:i + k])
        i += k
    slots = len(ops) + 1
    where = sorted(rng.randrange(slots) for _ in groups)
    toks: List[Tuple] = []
    gi = 0
    for s in range(slots):
        if s > 0:
            toks.append(ops[s - 1])
        while gi < len(groups) and where[gi] == s:
            toks.append(('G', groups[gi]))
            gi += 1
    while gi < len(groups):
        toks.append(('G', groups[gi]))
        gi += 1
    # a call placed before groups it needs is fed them by run_script(arrivals_independent=True)
    return toks


def classify_spec_failure(ops: Sequence[Tuple], idx: int) -> str:
    t = ops[idx]
    seps = seps_of(t)
    if t[0] == 'U' and seps is not None and len(seps) > 1 and not G.infix_free(seps):
        return SIG_F10
    kind = {'X': 'readexactly', 'R': 'read', 'L': 'readline', 'V': 'readuntil-single-sep', 'U': 'readuntil-multi-sep',
            'P': 'readuntil-regex'}[t[0]]
    return 'stream-read:%s:differs-from-specification' % kind


async def eval_spec_case(data: bytes, ops: Sequence[Tuple], deliveries: Sequence[Tuple[str, int, List[Tuple]]],
                         wire: Optional[I.Rig] = None) -> List[Tuple[Tuple[str, int, List[Tuple]], List[str], List[str], int, str]]:
    """run the same calls under several deliveries of the same stream; returns
    [(delivery, actual, expected, bad index, signature)] for those that leave the specification, and — for separator
    lists where one separator lies inside another — for deliveries that disagree with the first one"""
    bad = []
    runs: List[Tuple[Tuple[str, int, List[Tuple]], List[str]]] = []
    for d in deliveries:
        name, limit, toks = d
        cp = None
        try:
            if name.startswith('wire'):
                # real channel; the raw peer conforms to the window `limit` and keeps sending as it re-opens
                assert wire is not None
                feeder: I.Feeder
                feeder, cp = await wire.feeder('client', limit)
            else:
                feeder = I.DirectFeeder(limit, name.endswith('text'))
            actual, _real = await asyncio.wait_for(I.run_script(feeder, toks, arrivals_independent=True), 30)
            if cp is not None and not wire.alive():     # type: ignore
                actual = actual + ['connection-closed']
        except asyncio.TimeoutError:
            actual = ['harness-timeout']
        except Exception as e:      # noqa: BLE001
            actual = ['scenario-failed:%s' % type(e).__name__]
        try:
            if cp is not None:
                cp.channel.abort()
        except Exception:       # noqa: BLE001
            pass
        runs.append((d, actual))
        exp, idx = spec_results(data, ops, actual)
        if idx is not None:
            bad.append((d, actual, exp, idx, classify_spec_failure(ops, idx)))
        elif actual[-1:] == ['connection-closed'] and ops:
            bad.append((d, actual, exp + ['connection still open'], len(ops) - 1,
                        'stream-read:connection-closed-although-the-peer-kept-to-the-window'))
    # chunking dependence for the ambiguous separator lists
    amb = [i for i, t in enumerate(ops) if t[0] == 'U' and len(seps_of(t)) > 1 and not G.infix_free(seps_of(t))]
    if amb and runs:
        i0 = amb[0]
        d0, a0 = runs[0]
        for d, a in runs[1:]:
            if a[:i0 + 1] != a0[:i0 + 1] and len(a) > i0 and len(a0) > i0 and a[:i0] == a0[:i0]:
                bad.append((d, a, ['%s (same stream delivered as [%s])' % (a0[i0], ' '.join(I.tok_str(t) for t in d0[2]))
                                   if k == i0 else x for k, x in enumerate(a0)], i0, SIG_F10))
                break
    return bad


def deliveries_for(rng: Any, data: bytes, ops: Sequence[Tuple], n_direct: int, with_wire: bool,
                   chunkings: Optional[List[List[bytes]]] = None) -> List[Tuple[str, int, List[Tuple]]]:
    out: List[Tuple[str, int, List[Tuple]]] = []
    uses_until = any(seps_of(t) is not None or t[0] == 'L' for t in ops)
    cks = chunkings if chunkings is not None else \
        [[data] if data else []] + [G.gen_chunking(rng, data) for _ in range(n_direct - 1)]
    for i, ck in enumerate(cks):
        # readuntil is specified while reading is not paused: no limit for those; small limits for the others
        limit = 0 if (uses_until or i % 2 == 0) else rng.choice([1, 3, 8])
        out.append(('direct-text' if i % 5 == 4 else 'direct', limit, make_delivery(rng, ck, ops)))
    if uses_until and ops and ops[0][0] == 'X' and 1 <= ops[0][1] < len(data):
        # reading pauses because the whole stream arrives before the first call and fills the buffer; the first
        # (exact) read leaves less than the limit, so reading must resume and every later call, readuntil included,
        # behaves as with no limit at all
        n0 = ops[0][1]
        ck = G.gen_chunking(rng, data)
        toks: List[Tuple] = [('G', [('d', c) for c in ck])]
        for t in ops:
            toks.append(t)
        toks.append(('G', [('e',)]))
        out.append(('direct', len(data) - n0 + 1, toks))
    if with_wire:
        window = 4096 if uses_until else rng.choice([8, 16, 64])
        ck = G.gen_chunking(rng, data, max(1, window // 2))
        out.append(('wire', window, make_delivery(rng, ck, ops)))
    return out


def spec_failure(data: bytes, ops: Sequence[Tuple], d: Tuple[str, int, List[Tuple]], actual: List[str],
                 exp: List[str], idx: int, sig: str) -> Failure:
    name, limit, toks = d
    return Failure(
        signature=sig,
        what='call #%d %s on stream %r delivered as [%s] (%s, limit %d) returned %s; expected %s'
             % (idx, I.tok_str(ops[idx]), data, ' '.join(I.tok_str(t) for t in toks), name, limit,
                actual[idx] if idx < len(actual) else '<missing>', exp[idx] if idx < len(exp) else '?'),
        replay={'kind': 'spec-case', 'data': data.hex(), 'ops': [I.tok_str(t) for t in ops],
                'deliveries': [[name, limit, [I.tok_str(t) for t in toks]]]})


F10_CORPUS = [(b'xabcd', [('U', [b'abc', b'b'])]), (b'xab', [('U', [b'ab', b'a'])]),
              (b'12abcabd', [('U', [b'cab', b'a']), ('R', -1)])]
SPEC_CORPUS = [(b'ab\r\ncd', [('V', b'\r\n'), ('R', -1)]), (b'aaab', [('V', b'aab')]), (b'abcabd', [('V', b'abd')]),
               (b'hello\nworld', [('L',), ('L',), ('L',)]), (b'0123456789', [('X', 3), ('X', 3), ('X', 3), ('X', 3)]),
               (b'0123456789', [('X', 20), ('X', 1)]), (b'ab', [('U', [b'\n', b'\r\n'])]),
               (b'ab\r\ncd', [('U', [b'\n', b'\r\n']), ('R', 1), ('R', -1)]), (b'', [('R', -1), ('X', 1), ('L',)]),
               (b'aXbXXc', [('P', 2, [b'XX'])]), (b'abcabc', [('R', 4), ('X', 2)]),
               (b'aXbXXc', [('P', 0, [b'XX'])]), (b'ab\ncd', [('P', 0, [b'\n']), ('R', -1)]),
               (b'xxxxxxxxxxtail-begin-tail-end\nrest', [('X', 5), ('L',), ('R', -1)]),
               (b'0123456789abcdef;gh', [('X', 10), ('V', b';'), ('X', 2)])]


def oracle_spec(ctx: Ctx, res: OracleResult, hist: Hist) -> None:
    rng = ctx.subrng('oracle-spec')
    cases: List[Tuple[bytes, List[Tuple], Optional[List[List[bytes]]]]] = []
    for data, ops in F10_CORPUS + SPEC_CORPUS:
        cases.append((data, ops, G.all_chunkings(data) if len(data) <= 7 else None))
    for s in ctx.suspects:
        if isinstance(s, dict) and str(s.get('line', '')).startswith('S '):
            toks = [I.parse_tok(x) for x in s['line'].split()[2:]]
            data = b''.join(a[1] for t in toks if t[0] == 'G' for a in t[1] if a[0] == 'd')
            ops = []
            for t in toks:
                sp = seps_of(t)
                if t[0] in 'XRL' or (sp and all(sp) and not (t[0] == 'P' and 0 < t[1] < max(len(x) for x in sp))):
                    ops.append(t)
            if ops:
                cases.append((data, ops, G.all_chunkings(data) if 0 < len(data) <= 7 else None))
    for _ in range(ctx.n(700, 5000)):
        data, ops = gen_spec_case(rng)
        cases.append((data, ops, None))
    # exhaustive chunkings of short streams (thorough / escalated)
    for _ in range(ctx.n(25, 300)):
        data, ops = gen_spec_case(rng, small=True)
        cases.append((data, ops, G.all_chunkings(data) if 0 < len(data) <= 7 else None))

    async def run_all() -> List[Failure]:
        fails: List[Failure] = []
        wire = I.Rig(lambda k: pair.seeded_chunker(ctx.subrng('oracle-spec-hub%d' % k), 64))
        for ci, (data, ops, cks) in enumerate(cases):
            with_wire = ci % 4 == 0
            dels = deliveries_for(rng, data, ops, 3, with_wire, cks)
            bad = await eval_spec_case(data, ops, dels, wire)
            res.evaluations += len(dels)
            for t in ops:
                hist.hit('spec-op:' + t[0])
            seen = set()
            for d, actual, exp, idx, sig in bad:
                hist.hit('spec-fail:' + sig)
                if sig in seen:
                    continue
                seen.add(sig)
                f = spec_failure(data, ops, d, actual, exp, idx, sig)
                if sig == SIG_F10:      # the replay needs both deliveries
                    f.replay['deliveries'] = [[n, l, [I.tok_str(t) for t in tk]] for n, l, tk in (dels[0], d)]
                fails.append(f)
        await wire.close()
        return fails
    fails = pair.run(run_all(), timeout=1500)
    res.failures += fails
    res.nontrivial += len(set((d, tuple(I.tok_str(t) for t in o)) for d, o, _ in cases))
    res.samples.append({'stream': cases[-1][0].hex(), 'ops': [I.tok_str(t) for t in cases[-1][1]]})


# ---------------------------------------------------------------------------
# oracle (b): exit status / signal comes with complete output


def conformant_orderings(items: Sequence[Tuple]) -> List[List[Tuple]]:
    """all orderings of the wire items in which data precedes EOF, EOF precedes CLOSE and CLOSE is last"""
    out = []
    for p in G.orderings(items):
        if p[-1] != ('c',):
            continue
        if ('e',) in p:
            ie = p.index(('e',))
            if any(x[0] in 'dD' for x in p[ie + 1:]):
                continue
        out.append(p)
    return out


def is_conformant(evs: Sequence[Tuple]) -> bool:
    """the wire part respects the protocol: no data after EOF, one EOF, nothing after CLOSE"""
    seen_eof = seen_close = False
    for e in evs:
        if e[0] in 'twrx':
            continue
        if e[0] in 'vV':
            return False    # data sent without regard to the window
        if seen_close:
            return False
        if e[0] in 'dD' and seen_eof:
            return False
        if e[0] == 'e':
            if seen_eof:
                return False
            seen_eof = True
        if e[0] == 'c':
            seen_close = True
    return True


def exit_predicate(evs: Sequence[Tuple], obs: Dict[str, Any]) -> Optional[Tuple[str, str]]:
    """None if fine, else (signature, description)"""
    w = obs['wait']
    if not is_conformant(evs) and not (isinstance(w, str) and 'AssertionError' in w):
        return None     # a peer that breaks the protocol gets the connection torn down; no claim about its output
    sent_out = b''.join(e[1] for e in itertools.takewhile(lambda e: e[0] not in 'cx', evs) if e[0] == 'd')
    sent_err = b''.join(e[1] for e in itertools.takewhile(lambda e: e[0] not in 'cx', evs) if e[0] == 'D')
    disconnected = any(e[0] == 'x' for e in evs)
    if isinstance(w, str):
        if 'AssertionError' in w:
            return SIG_F33B, 'wait() raised AssertionError'
        return 'wait-raises:' + w, 'wait() raised ' + w
    if w is None:
        return None
    st, sig, out, err = w
    if st is None and sig is None:
        return None
    got_out = obs['target'] + out
    if got_out != sent_out or err != sent_err:
        what = ('exit status %r / signal %r reported with stdout %d of %d bytes, stderr %d of %d bytes'
                % (st, sig, len(got_out), len(sent_out), len(err), len(sent_err)))
        if disconnected:
            return SIG_F33, what
        return 'exit-status-with-incomplete-output:ordering-of-data-eof-status-close', what
    return None


async def eval_exit_case(limit: int, evs: Sequence[Tuple]) -> Tuple[Optional[Tuple[str, str]], List[Tuple]]:
    """play the events (window-conforming raw peer) and judge what was really sent; a scenario that cannot be played
    is an outcome of its own, never a harness crash.  Returns (None or (signature, description), realized events)."""
    try:
        obs = await asyncio.wait_for(I.run_proc_events(limit, evs), 30)
    except asyncio.TimeoutError:
        return ('process-scenario:timed-out', 'the scenario did not finish within 30 s'), list(evs)
    except Exception as e:      # noqa: BLE001
        return ('process-scenario:failed:' + type(e).__name__, 'the scenario could not be played: %s: %s'
                % (type(e).__name__, e)), list(evs)
    real = obs['events']
    if obs.get('hostile'):
        return hostile_proc_predicate(real, obs), real
    bad = exit_predicate(real, obs)
    if bad is None and is_conformant(real) and obs.get('conn_lost') not in (None, 'clean') and \
            not any(e[0] == 'x' for e in real):
        bad = ('connection-closed-although-the-peer-kept-to-the-protocol:' + str(obs['conn_lost']).split(':')[0],
               'the client connection was closed with %s' % obs['conn_lost'])
    return bad, real


def gen_exit_case(rng: Any, disconnect: bool) -> Tuple[int, List[Tuple]]:
    limit = rng.choice([8, 16, 32, 64])
    maxd = max(1, limit // 2)
    nd = rng.randint(1, 7)
    wire: List[Tuple] = [('D' if rng.random() < 0.3 else 'd', bytes([65 + i]) * rng.randint(1, maxd)) for i in range(nd)]
    if rng.random() < 0.8:
        wire.append(('e',))
    st = ('s', rng.choice([0, 1, 3, 255])) if rng.random() < 0.8 else ('S', rng.choice([2, 9, 15]))
    wire.insert(rng.randint(0, len(wire)), st)
    wire.append(('c',))
    evs: List[Tuple] = []
    wait_at = rng.choice([0, len(wire), len(wire), rng.randint(0, len(wire))])
    redirect_at = rng.randint(0, len(wire)) if rng.random() < 0.2 else None
    for i in range(len(wire) + 1):
        if redirect_at == i:
            evs += [('t',), ('r', 1), ('t',)]
        if wait_at == i:
            if disconnect and i == len(wire):
                evs += [('t',), ('x', rng.choice([0, 0, 1])), ('t',)]
            evs += [('t',), ('w',), ('t',)]
        if i < len(wire):
            evs.append(wire[i])
            if rng.random() < 0.4:
                evs.append(('t',))
    evs.append(('t',))
    return limit, evs


# (the loop turn after the first 8 bytes lets the WINDOW_ADJUST reach the peer: the rest is sent inside the window)
EXIT_CORPUS = [
    (8, [('d', b'AAAA'), ('d', b'BBBB'), ('t',), ('d', b'CC'), ('s', 3), ('e',), ('c',), ('t',), ('w',), ('t',)]),
    (8, [('s', 3), ('d', b'AAAA'), ('D', b'EE'), ('t',), ('d', b'BBBB'), ('d', b'CC'), ('c',), ('t',), ('w',), ('t',)]),
    (8, [('t',), ('w',), ('t',), ('d', b'AAAA'), ('d', b'BBBB'), ('t',), ('d', b'CC'), ('e',), ('S', 9), ('c',), ('t',)]),
    # the channel's own buffer filled to the last byte of the window while reading is paused, then collected
    (8, [('d', b'AAAA'), ('d', b'BBBB'), ('t',), ('d', b'CCCC'), ('D', b'EEEE'), ('s', 3), ('e',), ('c',), ('t',),
         ('w',), ('t',)]),
    # more than two windows: the peer has to wait for wait() before it can send the tail, the status and CLOSE
    (8, [('d', b'AAAA'), ('d', b'BBBB'), ('t',), ('d', b'CCCC'), ('d', b'DDDD'), ('d', b'EEEE'), ('d', b'FF'), ('s', 3),
         ('e',), ('c',), ('t',), ('w',), ('t',)]),
]
F33_CORPUS = [
    (8, [('d', b'AAAA'), ('d', b'BBBB'), ('t',), ('d', b'CC'), ('s', 3), ('e',), ('c',), ('t',), ('x', 0), ('t',),
         ('w',), ('t',)]),
    (8, [('d', b'AAAA'), ('d', b'BBBB'), ('t',), ('d', b'CC'), ('e',), ('t',), ('x', 1), ('t',), ('w',), ('t',)]),
]


async def run_exit_api(window: int, pieces: List[Tuple[str, bytes]], status: Tuple[str, int], late: bool,
                       server_disconnects: bool, chunker: Any) -> Dict[str, Any]:
    """A server written against the public API only: writes stdout/stderr pieces, exits with a status/signal
    (optionally closing the connection afterwards); the client waits now or later."""
    sent = {'out': b'', 'err': b''}

    async def handler(process: Any) -> None:
        try:
            for k, data in pieces:
                (process.stderr if k == 'D' else process.stdout).write(data)
                sent['err' if k == 'D' else 'out'] += data
                if len(data) % 3 == 0:
                    await asyncio.sleep(0)
            if status[0] == 's':
                process.exit(status[1])
            else:
                process.exit_with_signal(I.SIGNALS[status[1]])
        except Exception:       # noqa: BLE001
            pass
        if server_disconnects:
            await pair.settle(30)
            process.channel.get_connection().close()
    c, sconn, hub = await pair.make_pair(server_opts=dict(process_factory=handler, encoding=None), chunker=chunker)
    obs: Dict[str, Any] = {}
    try:
        p = await c.create_process('x', encoding=None, window=window, max_pktsize=max(4, window // 2))
        if late and server_disconnects:
            try:
                await asyncio.wait_for(c.wait_closed(), 10)     # the server has gone away before we collect
            except asyncio.TimeoutError:
                pass
            await pair.settle(10)
        elif late:
            for _ in range(400):
                await asyncio.sleep(0)
                if not (hub.queues[pair.C2S] or hub.queues[pair.S2C]):
                    await pair.settle(10)
                    if not (hub.queues[pair.C2S] or hub.queues[pair.S2C]):
                        break
        try:
            r = await asyncio.wait_for(p.wait(), 20)
            obs['wait'] = (r.exit_status, None if r.exit_signal is None else r.exit_signal[0], bytes(r.stdout),
                           bytes(r.stderr))
        except asyncio.TimeoutError:
            obs['wait'] = None
        except BaseException as e:      # noqa: BLE001
            obs['wait'] = 'raised:' + type(e).__name__
    finally:
        c.abort()
        await pair.settle(10)
    obs['sent'] = (sent['out'], sent['err'])
    return obs


def oracle_exit(ctx: Ctx, res: OracleResult, hist: Hist) -> None:
    rng = ctx.subrng('oracle-exit')
    cases: List[Tuple[int, List[Tuple], str]] = [(l, e, 'corpus') for l, e in EXIT_CORPUS]
    cases += [(l, e, 'corpus-disconnect') for l, e in F33_CORPUS]
    # every conformant ordering of a small multiset, wait() first and wait() last
    base = [('d', b'AAAA'), ('d', b'BBB'), ('D', b'EE'), ('e',), ('s', 7), ('c',)]
    ords = conformant_orderings(base)
    if not (ctx.tier == 'thorough' or ctx.escalated):
        ords = [ords[i] for i in sorted(rng.sample(range(len(ords)), min(20, len(ords))))]
    for o in ords:
        for late in (False, True):
            evs = ([] if late else [('t',), ('w',), ('t',)]) + list(o) + [('t',)] + ([('w',), ('t',)] if late else [])
            cases.append((rng.choice([8, 16]), evs, 'ordering'))
    for s in ctx.suspects:
        if isinstance(s, dict) and str(s.get('line', '')).startswith('P '):
            parts = s['line'].split()
            cases.append((int(parts[1]), [I.parse_pev(x) for x in parts[2:]], 'suspect'))
    for _ in range(ctx.n(150, 1500)):
        l, e = gen_exit_case(rng, False)
        cases.append((l, e, 'random'))
    for _ in range(ctx.n(25, 250)):
        l, e = gen_exit_case(rng, True)
        cases.append((l, e, 'random-disconnect'))

    async def run_raw() -> List[Failure]:
        fails: List[Failure] = []
        for limit, evs, origin in cases:
            res.evaluations += 1
            hist.hit('exit:' + origin)
            bad, real = await eval_exit_case(limit, evs)
            if real != list(evs):
                hist.hit('exit:peer-held-data-back-for-the-window')
            if bad:
                hist.hit('exit-fail:' + bad[0])
                fails.append(Failure(signature=bad[0],
                                     what='%s for wire/application events [%s] with pause limit %d (scripted for the '
                                          'window-conforming peer as [%s])'
                                          % (bad[1], ' '.join(I.pev_str(e) for e in real), limit,
                                             ' '.join(I.pev_str(e) for e in evs)),
                                     replay={'kind': 'proc-events', 'limit': limit,
                                             'events': [I.pev_str(e) for e in evs]}))
        return fails
    res.failures += _dedupe(pair.run(run_raw(), timeout=1500))

    # servers written against the public API, through real flow control and transport re-chunking
    api_cases = []
    for i in range(ctx.n(80, 700)):
        window = rng.choice([16, 32, 64, 256])
        pieces = [('D' if rng.random() < 0.25 else 'd', bytes([97 + (j % 26)]) * rng.randint(1, window))
                  for j in range(rng.randint(1, 6))]
        status = ('s', rng.choice([0, 1, 3, 255])) if rng.random() < 0.8 else ('S', rng.choice([2, 9, 15]))
        api_cases.append((window, pieces, status, rng.random() < 0.5, False))
    # orderly server shutdown after the command, client collects late (F33 through the public API only)
    for i in range(ctx.n(6, 60)):
        window = rng.choice([16, 32, 64])
        api_cases.append((window, [('d', b'a' * window), ('d', b'b' * (window // 2))], ('s', 3), True, True))

    async def run_api() -> List[Failure]:
        fails: List[Failure] = []
        for k, (window, pieces, status, late, disc) in enumerate(api_cases):
            chunker = pair.seeded_chunker(ctx.subrng('oracle-exit-hub%d' % k), 64) if k % 2 else None
            res.evaluations += 1
            hist.hit('exit-api:' + ('disconnect' if disc else 'late' if late else 'early'))
            desc = None
            sig = None
            try:
                obs = await asyncio.wait_for(run_exit_api(window, pieces, status, late, disc, chunker), 60)
                w = obs['wait']
            except Exception as e:      # noqa: BLE001  (TimeoutError included)
                obs, w = {'sent': (b'', b'')}, 'scenario'
                sig, desc = ('process-scenario:failed:public-api-server:' + type(e).__name__,
                             'the scenario could not be played: %s: %s' % (type(e).__name__, e))
            if sig:
                pass
            elif isinstance(w, str):
                sig, desc = ('wait-raises:' + w, 'wait() raised ' + w)
                if 'AssertionError' in w:
                    sig = SIG_F33B
            elif w is not None and (w[0] is not None or w[1] is not None):
                if (w[2], w[3]) != obs['sent']:
                    desc = ('exit status %r / signal %r reported with stdout %d of %d bytes, stderr %d of %d bytes'
                            % (w[0], w[1], len(w[2]), len(obs['sent'][0]), len(w[3]), len(obs['sent'][1])))
                    sig = SIG_F33 if disc else 'exit-status-with-incomplete-output:public-api-server'
            elif w is None and not disc:
                sig, desc = 'wait-never-returns:public-api-server', 'wait() did not return'
            if sig:
                hist.hit('exit-fail:' + sig)
                fails.append(Failure(signature=sig,
                                     what='%s: server wrote %s then %s%s; client window %d, wait() %s'
                                          % (desc, [(k2, len(d)) for k2, d in pieces], status,
                                             ' and closed the connection' if disc else '', window,
                                             'late' if late else 'at once'),
                                     replay={'kind': 'proc-api', 'window': window,
                                             'pieces': [[k2, d.hex()] for k2, d in pieces], 'status': list(status),
                                             'late': late, 'disconnect': disc, 'chunker_seed': k if k % 2 else None}))
        return fails
    res.failures += _dedupe(pair.run(run_api(), timeout=1500))
    res.nontrivial += len(cases) + len(api_cases)
    res.samples.append({'exit_events': [I.pev_str(e) for e in cases[-1][1]], 'limit': cases[-1][0]})


def _dedupe(fails: List[Failure]) -> List[Failure]:
    seen, out = set(), []
    for f in fails:
        if f.signature not in seen:
            seen.add(f.signature)
            out.append(f)
    return out


# ---------------------------------------------------------------------------
# oracle (b'): hostile peer — the only scenarios in which the raw peer ignores the receive window.
# Before asyncssh counted paused data against the window these sends were silently accepted (and every raw-peer
# scenario above used them); now they are kept as scenarios of their own with the expected outcome: the connection
# is closed with 'Window exceeded', the stream API hands out only what was sent inside the window and then reports
# the error — while a packet that fills the window to its last byte (the control) is accepted and delivered.

SIG_HOSTILE_ACCEPTED = 'hostile-peer:data-beyond-the-window-not-rejected'
SIG_HOSTILE_LEAK = 'hostile-peer:data-beyond-the-window-delivered'
SIG_FULL_WINDOW = 'conforming-peer:packet-filling-the-window-exactly-rejected-or-lost'


async def run_hostile_reader(rig: I.Rig, mode: str, window: int, chunks: List[bytes], pre_read: int,
                             over: int) -> Tuple[Optional[Tuple[str, str]], Dict[str, Any]]:
    """conforming delivery of `chunks` (the peer holds back what does not fit), an optional readexactly(pre_read),
    then one packet of `left + over` bytes.  Returns (None or (signature, description), facts for the histogram)."""
    f, cp = await rig.feeder(mode, window)
    toks: List[Tuple] = [('G', [('d', c) for c in chunks])]
    if pre_read:
        toks.append(('X', pre_read))
    results, real = await asyncio.wait_for(I.run_script(f, toks), 30)
    sent = b''.join(a[1] for t in real if t[0] == 'G' for a in t[1] if a[0] == 'd')
    got = b''
    for r in results:
        if r.startswith('ok:') or r.startswith('inc:'):
            got += unhx(r.split(':', 1)[1])
    left = f.credit.left()
    nread = len(got)
    facts = {'left': left, 'held_back': f.has_pending(), 'paused': len(sent) - len(got) >= window}
    f.pending.clear()
    packet = f.send_hostile(over)
    await f.settle()
    if over == 0:
        await f.apply([('e',)])
        await f.settle()
    elif rig.alive():
        try:
            cp.channel.abort()
        except Exception:       # noqa: BLE001
            pass
        return (SIG_HOSTILE_ACCEPTED + ':%s-reader' % mode,
                "%s reader, window %d, %d bytes sent inside the window (%d read), %d left, then one packet of %d bytes: "
                "expected the connection to be closed with ProtocolError('Window exceeded'); it is still open"
                % (mode, window, len(sent), len(got), left, len(packet))), facts
    exc: Optional[BaseException] = None
    for _ in range(200):
        try:
            d = await asyncio.wait_for(f.reader.read(-1), 10)
        except asyncio.TimeoutError:
            return ('hostile-peer:read-never-returns', 'read() blocked after the peer had sent %d bytes into a window '
                    'of %d' % (len(packet), left)), facts
        except BaseException as e:      # noqa: BLE001
            exc = e
            break
        if not d:
            break
        got += d
    closed = not rig.alive()
    try:
        cp.channel.abort()
    except Exception:       # noqa: BLE001
        pass
    where = '%s reader, window %d, %d bytes sent inside the window (%d read before the packet), %d left, then one ' \
        'packet of %d bytes' % (mode, window, len(sent), nread, left, len(packet))
    if over == 0:
        if closed or exc is not None or got != sent + packet:
            return (SIG_FULL_WINDOW, '%s: connection closed=%r, reader raised %r, %d of %d bytes delivered'
                    % (where, closed, exc, len(got), len(sent) + len(packet))), facts
        return None, facts
    if bytes([I.HOSTILE_FILL]) in got or not sent.startswith(got):
        return (SIG_HOSTILE_LEAK, '%s: the reader returned %r, which is not a prefix of the %d bytes sent inside '
                'the window' % (where, got, len(sent))), facts
    reason = getattr(exc, 'reason', '')
    if not closed or not isinstance(exc, asyncssh.ProtocolError) or 'Window exceeded' not in str(reason):
        return (SIG_HOSTILE_ACCEPTED + ':%s-reader' % mode,
                "%s: expected the connection to be closed and the reader to raise ProtocolError('Window exceeded') "
                'after the buffered data; connection closed=%r, reader %s'
                % (where, closed, 'reached EOF' if exc is None else 'raised %s(%r)' % (type(exc).__name__, reason))), facts
    return None, facts


def hostile_proc_predicate(real: Sequence[Tuple], obs: Dict[str, Any]) -> Optional[Tuple[str, str]]:
    """events contain one v<n>/V<n> with n > 0, sent while the connection was up"""
    upto = list(itertools.takewhile(lambda e: e[0] not in 'vV', real))
    sent_out = b''.join(e[1] for e in upto if e[0] == 'd')
    sent_err = b''.join(e[1] for e in upto if e[0] == 'D')
    w = obs['wait']
    waited = any(e[0] == 'w' for e in real)
    got_out, got_err = obs['target'], b''
    if isinstance(w, tuple):
        got_out, got_err = got_out + w[2], w[3]
    fill = bytes([I.HOSTILE_FILL])
    if fill in got_out or fill in got_err or not sent_out.startswith(got_out) or not sent_err.startswith(got_err):
        return SIG_HOSTILE_LEAK, ('stdout %r / stderr %r handed to the application; inside the window the peer had sent '
                                  '%r / %r' % (got_out, got_err, sent_out, sent_err))
    lost = str(obs.get('conn_lost'))
    if not obs.get('closed') or not lost.startswith('ProtocolError') or 'Window exceeded' not in lost:
        return SIG_HOSTILE_ACCEPTED + ':process', ("expected the client connection to be closed with ProtocolError("
                                                  "'Window exceeded'); closed=%r, connection_lost got %s"
                                                  % (obs.get('closed'), lost))
    if waited and w is None:
        return 'hostile-peer:wait-never-returns', 'wait() still pending after the connection was closed'
    if isinstance(w, str) and 'ProtocolError' not in w:
        return 'hostile-peer:wait-raises:' + w.split(':')[-1], 'wait() ' + w
    return None


def gen_hostile_proc(rng: Any) -> Tuple[int, List[Tuple]]:
    limit = rng.choice([8, 16, 32, 64])
    maxd = max(1, limit // 2)
    wire: List[Tuple] = [('D' if rng.random() < 0.3 else 'd', bytes([65 + i]) * rng.randint(1, maxd))
                         for i in range(rng.randint(0, 6))]
    if rng.random() < 0.4:
        wire.insert(rng.randint(0, len(wire)), ('s', rng.choice([0, 3])))
    over = rng.choice([0, 0, 1, 1, 1, 2, limit, 5 * limit])
    hostile_at = rng.randint(0, len(wire))
    wire.insert(hostile_at, (rng.choice('vvV'), over))
    tail: List[Tuple] = [('e',), ('s', 7), ('c',)] if over == 0 and not any(e[0] == 's' for e in wire) else \
        ([('e',), ('c',)] if over == 0 else [])
    wire += tail
    wait_at = rng.choice([0, len(wire), len(wire), rng.randint(0, len(wire))])
    evs: List[Tuple] = []
    for i in range(len(wire) + 1):
        if wait_at == i:
            evs += [('t',), ('w',), ('t',)]
        if i < len(wire):
            if wire[i][0] in 'vV':
                # every WINDOW_ADJUST on its way has reached the peer: what it believes is left of the window is
                # what the receiver believes, so `over` more than that is a violation the receiver can see
                evs.append(('t',))
            evs.append(wire[i])
            if rng.random() < 0.5 or wire[i][0] in 'vV':
                evs.append(('t',))
    evs.append(('t',))
    return limit, evs


HOSTILE_PROC_CORPUS = [
    # reading paused, the channel's buffer half full: one byte too many / exactly full
    (8, [('d', b'AAAA'), ('d', b'BBBB'), ('t',), ('d', b'CCCC'), ('t',), ('v', 1), ('t',), ('w',), ('t',)]),
    (8, [('d', b'AAAA'), ('d', b'BBBB'), ('t',), ('d', b'CCCC'), ('t',), ('v', 0), ('t',), ('s', 3), ('e',), ('c',),
         ('t',), ('w',), ('t',)]),
    # exit status already received, then the violation: the output that comes with the status is a prefix only
    (8, [('d', b'AAAA'), ('d', b'BBBB'), ('t',), ('s', 3), ('d', b'CCCC'), ('t',), ('V', 1), ('t',), ('w',), ('t',)]),
    # nothing paused (wait() collects): a packet larger than the whole window
    (16, [('t',), ('w',), ('t',), ('d', b'AAAA'), ('t',), ('v', 1), ('t',)]),
]


def oracle_hostile(ctx: Ctx, res: OracleResult, hist: Hist) -> None:
    rng = ctx.subrng('oracle-hostile')
    rcases: List[Tuple[str, int, List[bytes], int, int]] = []
    for mode in ('client', 'server'):
        for window, nbytes, pre, over in ((8, 8, 0, 1), (8, 16, 0, 1), (8, 12, 0, 0), (8, 16, 0, 0), (8, 3, 0, 6),
                                         (8, 12, 5, 1), (16, 0, 0, 17), (16, 0, 0, 0)):
            data = bytes(97 + (i % 8) for i in range(nbytes))
            rcases.append((mode, window, G.gen_chunking(rng, data, max(1, window // 2)), pre, over))
    for _ in range(ctx.n(60, 500)):
        window = rng.choice([8, 16, 64])
        data = bytes(rng.choice(b'abc\n') for _ in range(rng.choice([0, rng.randint(0, 3 * window), window, 2 * window])))
        pre = rng.choice([0, 0, rng.randint(1, max(1, len(data)))]) if data else 0
        rcases.append((rng.choice(['client', 'server']), window, G.gen_chunking(rng, data, max(1, window // 2)),
                       min(pre, len(data)), rng.choice([0, 1, 1, 1, 2, window, 5 * window])))
    rcases.sort(key=lambda c: (c[0], c[1]) if c[0] == 'server' else ('', 0))     # one server connection per window

    async def run_readers() -> List[Failure]:
        fails: List[Failure] = []
        rig = I.Rig(per_conn=25)
        for mode, window, chunks, pre, over in rcases:
            res.evaluations += 1
            replay = {'kind': 'hostile-reader', 'mode': mode, 'window': window, 'chunks': [c.hex() for c in chunks],
                      'pre_read': pre, 'over': over}
            try:
                bad, facts = await asyncio.wait_for(run_hostile_reader(rig, mode, window, chunks, pre, over), 60)
            except Exception as e:      # noqa: BLE001  (TimeoutError included)
                bad, facts = ('hostile-peer:scenario-failed:' + type(e).__name__,
                              'the scenario could not be played: %s: %s' % (type(e).__name__, e)), {}
            hist.hit('hostile-reader:%s:%s' % (mode, 'window-filled-exactly' if over == 0 else 'window-exceeded'))
            if facts.get('paused'):
                hist.hit('hostile-reader:while-reading-paused')
            if facts.get('left') == 0:
                hist.hit('hostile-reader:no-window-left')
            if bad:
                hist.hit('hostile-fail:' + bad[0])
                fails.append(Failure(signature=bad[0], what=bad[1], replay=replay))
        await rig.close()
        return fails
    res.failures += _dedupe(pair.run(run_readers(), timeout=1500))

    pcases = list(HOSTILE_PROC_CORPUS) + [gen_hostile_proc(rng) for _ in range(ctx.n(60, 500))]

    async def run_procs() -> List[Failure]:
        fails: List[Failure] = []
        for limit, evs in pcases:
            res.evaluations += 1
            bad, real = await eval_exit_case(limit, evs)
            control = not any(e[0] in 'vV' for e in real)
            hist.hit('hostile-process:' + ('window-filled-exactly' if control else 'window-exceeded'))
            if bad:
                hist.hit('hostile-fail:' + bad[0])
                fails.append(Failure(signature=bad[0],
                                     what='%s for wire/application events [%s] with window %d (scripted as [%s])'
                                          % (bad[1], ' '.join(I.pev_str(e) for e in real), limit,
                                             ' '.join(I.pev_str(e) for e in evs)),
                                     replay={'kind': 'proc-events', 'limit': limit,
                                             'events': [I.pev_str(e) for e in evs]}))
        return fails
    res.failures += _dedupe(pair.run(run_procs(), timeout=1500))
    res.nontrivial += len(rcases) + len(pcases)


# ---------------------------------------------------------------------------
# oracle (c): redirections copy all data and then EOF;  (d): drain


class TextSink(io.StringIO):
    def __init__(self) -> None:
        super().__init__()
        self.final: Optional[str] = None

    def close(self) -> None:
        if self.final is None:
            self.final = self.getvalue()
        super().close()

    def content(self) -> str:
        return self.final if self.final is not None else self.getvalue()


async def run_redirect_case(kind: str, data: bytes, pieces: List[bytes], window: int, recv_eof: bool, chunker: Any,
                            tmpdir: str, tag: str) -> Optional[str]:
    """returns a description of what went wrong, or None"""
    text = kind in ('stringio',)

    async def writer_proc(process: Any) -> None:
        try:
            for p in pieces:
                process.stdout.write(p.decode('latin-1') if text else p)
                if len(p) % 2:
                    await asyncio.sleep(0)
                else:
                    await process.stdout.drain()
            process.stderr.write('E' if text else b'E')
            process.exit(0)
        except Exception:       # noqa: BLE001
            pass

    async def cat_proc(process: Any) -> None:
        try:
            while True:
                d = await process.stdin.read(7)
                if not d:
                    break
                process.stdout.write(d)
            process.exit(0)
        except Exception:       # noqa: BLE001
            pass

    async def eof_then_idle_proc(process: Any) -> None:
        try:
            for p in pieces:
                process.stdout.write(p)
            process.stdout.write_eof()
            await asyncio.sleep(3600)
        except Exception:       # noqa: BLE001
            pass

    async def handler(process: Any) -> None:
        if process.command == 'cat':
            await cat_proc(process)
        elif process.command == 'eof-then-idle':
            await eof_then_idle_proc(process)
        else:
            await writer_proc(process)
    enc = 'latin-1' if text else None
    c, sconn, hub = await pair.make_pair(server_opts=dict(process_factory=handler, encoding=enc), chunker=chunker)
    try:
        if kind in ('bytesio', 'stringio'):
            sink: Any = TextSink() if text else I.Sink()
            p = await c.create_process('w', encoding=enc, window=window, stdout=sink, recv_eof=recv_eof)
            r = await asyncio.wait_for(p.wait(), 20)
            await pair.settle(10)
            got = sink.content().encode('latin-1') if text else sink.content()
            if got != data:
                return 'target holds %d of %d bytes' % (len(got), len(data))
            if sink.closed != recv_eof:
                return 'target closed=%r with recv_eof=%r' % (sink.closed, recv_eof)
            if r.exit_status != 0:
                return 'exit status %r' % (r.exit_status,)
        elif kind == 'late-bytesio':
            # data and EOF have arrived (channel still open) before the redirect is set up
            sink = I.Sink()
            p = await c.create_process('eof-then-idle', encoding=None, window=window)
            for _ in range(3000):
                await asyncio.sleep(0)
                if not (hub.queues[pair.C2S] or hub.queues[pair.S2C]):
                    break
            await pair.settle(20)
            await p.redirect_stdout(sink, recv_eof=recv_eof)
            for _ in range(3000):
                await asyncio.sleep(0)
                if not (hub.queues[pair.C2S] or hub.queues[pair.S2C]):
                    break
            await pair.settle(20)
            if sink.content() != data:
                return 'target holds %d of %d bytes' % (len(sink.content()), len(data))
            if sink.closed != recv_eof:
                return 'EOF was received before the redirect: target closed=%r with recv_eof=%r' % (sink.closed, recv_eof)
        elif kind in ('path', 'fileobj'):
            path = os.path.join(tmpdir, 'out-' + tag)
            if kind == 'path':
                p = await c.create_process('w', encoding=None, window=window, stdout=path)
                await asyncio.wait_for(p.wait(), 20)
            else:
                with open(path, 'wb') as f:
                    p = await c.create_process('w', encoding=None, window=window, stdout=f, recv_eof=recv_eof)
                    await asyncio.wait_for(p.wait(), 20)
                    await pair.settle(10)
                    if f.closed != recv_eof:
                        return 'file closed=%r with recv_eof=%r' % (f.closed, recv_eof)
                    if not f.closed:
                        f.flush()
            await pair.settle(10)
            got = open(path, 'rb').read()
            if got != data:
                return 'file holds %d of %d bytes' % (len(got), len(data))
        elif kind == 'devnull':
            p = await c.create_process('w', encoding=None, window=window, stdout=asyncssh.DEVNULL)
            r = await asyncio.wait_for(p.wait(), 20)
            if r.stdout not in (b'', None) or r.exit_status != 0:
                return 'DEVNULL: stdout %r status %r' % (r.stdout, r.exit_status)
        elif kind == 'stderr-to-stdout':
            p = await c.create_process('w', encoding=None, window=window, stderr=asyncssh.STDOUT)
            r = await asyncio.wait_for(p.wait(), 20)
            if sorted(r.stdout) != sorted(data + b'E') or r.stdout.replace(b'E', b'', 1) not in (data,) and \
                    r.stdout.replace(b'E', b'') != data.replace(b'E', b''):
                return 'stderr=STDOUT: got %d bytes for %d+1' % (len(r.stdout), len(data))
        elif kind in ('process', 'stdin-bytesio', 'stdin-file'):
            # the data travels into another process's stdin; `cat` sends it back
            p2 = await c.create_process('cat', encoding=None, window=max(window, 16))
            if kind == 'process':
                p1 = await c.create_process('w', encoding=None, window=window, stdout=p2.stdin)
                await asyncio.wait_for(p1.wait(), 20)
            elif kind == 'stdin-bytesio':
                await p2.redirect_stdin(io.BytesIO(data), bufsize=5)
            else:
                path = os.path.join(tmpdir, 'in-' + tag)
                with open(path, 'wb') as f:
                    f.write(data)
                await p2.redirect_stdin(path, bufsize=5)
            r2 = await asyncio.wait_for(p2.wait(), 20)
            if r2.stdout != data:
                return 'through %s: got %d of %d bytes back' % (kind, len(r2.stdout), len(data))
            if r2.exit_status != 0:
                return 'through %s: receiving process never saw EOF (status %r)' % (kind, r2.exit_status)
    except asyncio.TimeoutError:
        return 'timed out (EOF never delivered?)'
    except Exception as e:      # noqa: BLE001
        return 'raised %s: %s' % (type(e).__name__, e)
    finally:
        c.abort()
        await pair.settle(10)
    return None


REDIRECT_KINDS = ['bytesio', 'stringio', 'path', 'fileobj', 'devnull', 'process', 'stdin-bytesio', 'stdin-file',
                  'late-bytesio']


def oracle_redirect(ctx: Ctx, res: OracleResult, hist: Hist) -> None:
    rng = ctx.subrng('oracle-redirect')
    tmpdir = ctx.tmpdir()
    cases = []
    for i in range(ctx.n(72, 540)):
        kind = REDIRECT_KINDS[i % len(REDIRECT_KINDS)]
        window = rng.choice([8, 16, 64, 1024])
        n = rng.choice([0, 1, window - 1, window, window + 1, 3 * window, rng.randint(0, 200)])
        data = bytes(rng.choice(b'abc\n') for _ in range(max(0, n)))
        pieces = G.gen_chunking(rng, data)
        recv_eof = rng.random() < 0.7 if kind in ('bytesio', 'stringio', 'fileobj', 'late-bytesio') else True
        cases.append((kind, data, pieces, window, recv_eof, i))

    async def run_all() -> List[Failure]:
        fails: List[Failure] = []
        for kind, data, pieces, window, recv_eof, i in cases:
            chunker = pair.seeded_chunker(ctx.subrng('oracle-redirect-hub%d' % i), 64) if i % 2 else None
            try:
                bad = await asyncio.wait_for(
                    run_redirect_case(kind, data, pieces, window, recv_eof, chunker, tmpdir, str(i)), 120)
            except Exception as e:      # noqa: BLE001  (TimeoutError included)
                bad = 'the scenario could not be played: %s: %s' % (type(e).__name__, e)
            res.evaluations += 1
            hist.hit('redirect:' + kind)
            if bad:
                hist.hit('redirect-fail:' + kind)
                fails.append(Failure(signature='redirect-%s:data-or-eof-not-copied' % kind,
                                     what='redirect target %s, %d bytes in %d pieces, window %d, recv_eof=%r: %s'
                                          % (kind, len(data), len(pieces), window, recv_eof, bad),
                                     replay={'kind': 'redirect', 'target': kind, 'data': data.hex(),
                                             'pieces': [p.hex() for p in pieces], 'window': window,
                                             'recv_eof': recv_eof, 'chunker_seed': i if i % 2 else None}))
        return fails
    res.failures += _dedupe(pair.run(run_all(), timeout=1500))
    res.nontrivial += len(cases)


async def run_drain_case(window: int, total: int, how: str) -> Optional[str]:
    """server writes `total` bytes and drains; the client reads / closes / the link is cut. Returns what went wrong."""
    obs: Dict[str, Any] = {}
    started = asyncio.Event()

    async def handler(process: Any) -> None:
        w = process.stdout
        try:
            w.write(b'z' * total)
            obs['size_before'] = w.channel.get_write_buffer_size()
            started.set()
            await w.drain()
            obs['drain'] = 'returned'
            obs['size_after'] = w.channel.get_write_buffer_size()
        except BrokenPipeError:
            obs['drain'] = 'BrokenPipeError'
        except asyncssh.Error as e:
            obs['drain'] = 'exc:' + type(e).__name__
        except BaseException as e:      # noqa: BLE001
            obs['drain'] = 'raised:' + type(e).__name__
        obs['done_at'] = obs.get('phase', 'before-client-acted')
    c, sconn, hub = await pair.make_pair(server_opts=dict(process_factory=handler, encoding=None))
    try:
        p = await c.create_process('x', encoding=None, window=window, max_pktsize=max(4, window // 2))
        await asyncio.wait_for(started.wait(), 10)
        await pair.settle(30)
        high = 65536
        paused = obs['size_before'] > high
        if paused and 'drain' in obs:
            return 'drain() finished (%s) while %d bytes were still buffered above the high-water mark and the ' \
                   'client had done nothing' % (obs['drain'], obs['size_before'])
        obs['phase'] = how
        if how == 'read':
            got = await asyncio.wait_for(p.stdout.readexactly(total), 12)
            await pair.settle(30)
            if obs.get('drain') != 'returned':
                return 'client read everything but drain() is %r' % (obs.get('drain'),)
            if obs['size_after'] > high:
                return 'drain() returned with %d bytes still buffered' % obs['size_after']
            if len(got) != total:
                return 'short read'
        elif how == 'close':
            p.close()
            await pair.settle(40)
            if paused and obs.get('drain') == 'returned':
                return 'channel closed with %d bytes unsent, drain() returned normally' % obs['size_before']
            if 'drain' not in obs:
                return 'channel closed, drain() still waiting'
        else:
            hub.cut_transport()
            await pair.settle(40)
            if paused and obs.get('drain') == 'returned':
                return 'connection lost with %d bytes unsent, drain() returned normally' % obs['size_before']
            if 'drain' not in obs:
                return 'connection lost, drain() still waiting'
    except asyncio.TimeoutError:
        return 'timed out'
    except asyncio.IncompleteReadError as e:
        return 'client readexactly(%d) raised IncompleteReadError after %d bytes with no EOF sent' % (total, len(e.partial))
    except Exception as e:      # noqa: BLE001
        return 'client side raised %s: %s' % (type(e).__name__, e)
    finally:
        c.abort()
        await pair.settle(10)
    return None


def oracle_drain(ctx: Ctx, res: OracleResult, hist: Hist) -> None:
    rng = ctx.subrng('oracle-drain')
    cases = []
    for i in range(ctx.n(12, 48)):
        how = ['read', 'close', 'cut'][i % 3]
        total = rng.choice([100, 70000, 70000, 140000])
        cases.append((rng.choice([64, 4096]), total, how))

    async def run_all() -> List[Failure]:
        fails = []
        for window, total, how in cases:
            try:
                bad = await asyncio.wait_for(run_drain_case(window, total, how), 120)
            except Exception as e:      # noqa: BLE001  (TimeoutError included)
                bad = 'the scenario could not be played: %s: %s' % (type(e).__name__, e)
            res.evaluations += 1
            hist.hit('drain:' + how)
            if bad:
                fails.append(Failure(signature='drain:%s:contract-broken' % how,
                                     what='server wrote %d bytes (client window %d), client action %s: %s'
                                          % (total, window, how, bad),
                                     replay={'kind': 'drain', 'window': window, 'total': total, 'how': how}))
        return fails
    res.failures += _dedupe(pair.run(run_all(), timeout=900))
    res.nontrivial += len(cases)


# ---------------------------------------------------------------------------
# oracle (d'): TEXT-mode readers.  The unit of read(n) is a character; packets cut the byte stream anywhere, also
# inside a multi-byte character.  Whatever the cut points: the pieces add up to the decoded text, read(n) gives at
# most n characters, and an empty result means EOF and nothing else.

TEXT_SAMPLES = ['a\u20acb', '\u20ac', 'x\u00e9y\u00e9z\n', '\U0001f600\U0001f600', 'ab\ncd\n', '\u00e9' * 7, 'k\u20ac\n\U0001f600!']


async def run_text_read_case(text: str, cuts: List[int], op: str, n: int) -> Optional[str]:
    data = text.encode('utf-8')
    bounds = [0] + sorted(set(c for c in cuts if 0 < c < len(data))) + [len(data)]
    chunks = [data[a:b] for a, b in zip(bounds, bounds[1:])]

    async def handler(process: Any) -> None:
        for ch in chunks:
            process.stdout.write(ch)
            await pair.settle(6)            # each chunk travels as a packet of its own
        process.exit(0)
    c, sconn, hub = await pair.make_pair(server_opts=dict(process_factory=handler, encoding=None))
    try:
        p = await c.create_process('t', encoding='utf-8')
        got: List[str] = []
        for _ in range(len(data) + 4):
            if op == 'read':
                d = await asyncio.wait_for(p.stdout.read(n), 10)
            elif op == 'readline':
                d = await asyncio.wait_for(p.stdout.readline(), 10)
            else:
                try:
                    d = await asyncio.wait_for(p.stdout.readexactly(n), 10)
                except asyncio.IncompleteReadError as e:
                    d = e.partial
                    got.append(d)
                    break
            if d == '':
                if not p.stdout.at_eof():
                    return '%s returned an empty string although no EOF had been received (so far %r of %r)' \
                           % (op, ''.join(got), text)
                break
            if op in ('read', 'readexactly') and len(d) > n:
                return '%s(%d) returned %d characters' % (op, n, len(d))
            if op == 'readexactly' and len(d) != n:
                return 'readexactly(%d) returned %d characters without raising' % (n, len(d))
            got.append(d)
        if ''.join(got) != text:
            return '%s pieces add up to %r, sent %r' % (op, ''.join(got), text)
    except asyncio.TimeoutError:
        return '%s timed out' % op
    except Exception as e:      # noqa: BLE001
        return 'client side raised %s: %s' % (type(e).__name__, e)
    finally:
        c.abort()
        await pair.settle(10)
    return None


def oracle_text_reads(ctx: Ctx, res: OracleResult, hist: Hist) -> None:
    rng = ctx.subrng('oracle-text')
    cases: List[Tuple[str, List[int], str, int]] = [('\u20ac', [2], 'read', 10), ('a\u20acb', [2, 3], 'read', 1),
                                                      ('\U0001f600x', [1, 2, 3], 'readexactly', 1),
                                                      ('\u00e9\n', [1], 'readline', 0)]
    for _ in range(ctx.n(24, 200)):
        text = rng.choice(TEXT_SAMPLES)
        nb = len(text.encode('utf-8'))
        cuts = sorted(rng.sample(range(1, nb), min(nb - 1, rng.randint(1, 4)))) if nb > 1 else []
        cases.append((text, cuts, rng.choice(['read', 'read', 'readline', 'readexactly']), rng.choice([1, 2, 3, 100])))

    async def run_all() -> List[Failure]:
        fails = []
        for text, cuts, op, n in cases:
            try:
                bad = await asyncio.wait_for(run_text_read_case(text, cuts, op, n), 60)
            except Exception as e:      # noqa: BLE001
                bad = 'the scenario could not be played: %s: %s' % (type(e).__name__, e)
            res.evaluations += 1
            hist.hit('text-read:' + op)
            if bad:
                sig = 'stream-read:empty-result-without-eof:partial-character' if 'empty string' in bad \
                    else 'text-read:%s:contract-broken' % op
                fails.append(Failure(signature=sig,
                                     what='text reader, UTF-8 bytes of %r cut at %s, %s(%d): %s' % (text, cuts, op, n, bad),
                                     replay={'kind': 'text-read', 'text': text, 'cuts': cuts, 'op': op, 'n': n}))
        return fails
    res.failures += _dedupe(pair.run(run_all(), timeout=900))
    res.nontrivial += len(cases)


# ---------------------------------------------------------------------------
# oracle (e): redirect SOURCES, drain on a redirected stream, two streams sharing the session's pause limit
# (scenario code: _c19_redir.py; one signature per root cause)

REDIR_SCENARIOS = {
    'drain-gone': RD.drain_gone, 'two-sources': RD.two_sources, 'other-stream-direct': RD.other_stream_direct,
    'other-stream-wire': RD.other_stream_wire, 'late-redirect': RD.late_redirect, 'backpressure': RD.backpressure,
    'closed-channel': RD.closed_channel, 'cancelled-read': RD.cancelled_read, 'undecodable': RD.undecodable,
    'drain-peer-close': RD.drain_peer_close, 'drain-idiom': RD.drain_idiom,
}


def _enc(x: Any) -> Any:
    if isinstance(x, (bytes, bytearray)):
        return {'hex': bytes(x).hex()}
    if isinstance(x, (list, tuple)):
        return [_enc(y) for y in x]
    return x


def _dec(x: Any) -> Any:
    if isinstance(x, dict) and 'hex' in x:
        return bytes.fromhex(x['hex'])
    if isinstance(x, list):
        return [_dec(y) for y in x]
    return x


def _dec_args(name: str, args: List[Any]) -> List[Any]:
    a = _dec(args)
    if name == 'two-sources':
        a[1] = [tuple(x) for x in a[1]]
    return a


def gen_two_source_script(rng: Any) -> List[Tuple]:
    """both sources deliver and end, in a random interleaving"""
    left = {'o': rng.randint(0, 3), 'E': rng.randint(0, 3)}
    ended = {'o': False, 'E': False}
    out: List[Tuple] = []
    while not (ended['o'] and ended['E']):
        k = rng.choice([x for x in 'oE' if not ended[x]])
        if left[k] > 0 and rng.random() < 0.7:
            out.append(('d' if k == 'o' else 'D', bytes([rng.choice(b'xyz\n')]) * rng.randint(1, 40)))
            left[k] -= 1
        else:
            out.append(('z' if k == 'o' else 'Z',))
            ended[k] = True
    return out


def redir_cases(ctx: Ctx) -> List[Tuple[str, List[Any]]]:
    rng = ctx.subrng('oracle-sources')
    cases: List[Tuple[str, List[Any]]] = []
    # A-C19-1
    for side in ('client', 'server'):
        for how in ('exit', 'cut', 'disconnect'):
            cases.append(('drain-gone', [side, how]))
    # drain() across the peer's CLOSE with data unsent (must end, must fail), and after data that DID go out (must
    # return normally although the channel is closed for further writes by write_eof / the redirect's EOF)
    cases.append(('drain-peer-close', [300000, 1024, 1536]))
    cases.append(('drain-peer-close', [100000, 64, 96]))
    for kind in ('eof', 'redirect'):
        cases.append(('drain-idiom', [kind, 200000, 65536]))
    for _ in range(ctx.n(2, 20)):
        w = rng.choice([64, 1024, 4096])
        # (one window is delivered and pauses the reader, up to one more waits in the channel: CLOSE can follow)
        cases.append(('drain-peer-close', [rng.choice([90000, 200000, 500000]), w, w + rng.randint(1, w)]))
        cases.append(('drain-idiom', [rng.choice(['eof', 'redirect']), rng.choice([70000, 150000, 400000]),
                                      rng.choice([4096, 65536])]))
    # A-C19-2: the corpus (examples/redirect_server.py: the program writes to both, one closes early) + interleavings
    for kind in ('pipe', 'stream'):
        cases.append(('two-sources', [kind, [('d', b'hello\n'), ('z',), ('D', b'oops\n'), ('Z',)]]))
        cases.append(('two-sources', [kind, [('D', b'oops\n'), ('Z',), ('d', b'hello\n'), ('z',)]]))
        cases.append(('two-sources', [kind, [('z',), ('D', b'a'), ('D', b'b'), ('Z',)]]))
        cases.append(('two-sources', [kind, [('d', b'hello\n'), ('D', b'oops\n')]]))
    for _ in range(ctx.n(24, 200)):
        cases.append(('two-sources', [rng.choice(['pipe', 'stream']), gen_two_source_script(rng)]))
    # A-C19-3
    cases.append(('other-stream-wire', [1024, b'', b'hello world\n']))
    cases.append(('other-stream-wire', [64, b'', b'x\n']))
    cases.append(('other-stream-wire', [1024, b'hello ', b'world\n']))
    for limit, other, mine, op in ((16, 16, b'', 'readline'), (16, 16, b'', 'readuntil'), (16, 40, b'', 'readline'),
                                   (16, 10, b'hello ', 'readline'), (8, 4, b'hello wo', 'readline'),
                                   (16, 15, b'', 'readline'), (16, 3, b'abc', 'readuntil')):
        cases.append(('other-stream-direct', [limit, other, mine, op]))
    for _ in range(ctx.n(40, 400)):
        limit = rng.choice([8, 16, 64])
        m = rng.choice([0, 0, 0, 1, limit // 2, limit - 1])
        other = rng.choice([limit, limit - m, limit - m, limit + 3, 2 * limit, max(0, limit - m - 1)])
        cases.append(('other-stream-direct', [limit, other, bytes(rng.choice(b'abc') for _ in range(m)),
                                              rng.choice(['readline', 'readuntil'])]))
    # A-C19-4
    for early in (True, False):
        cases.append(('late-redirect', [early, b'one\n', b'two\n']))
    cases.append(('late-redirect', [False, b'', b'x']))
    # A-C19-6
    for send_eof in (False, True):
        cases.append(('backpressure', [300000, 65536, send_eof]))
    for _ in range(ctx.n(0, 8)):
        cases.append(('backpressure', [rng.choice([70000, 150000, 400000]), rng.choice([4096, 65536]), rng.random() < 0.5]))
    # A-C19-8
    for later in ('eof', 'data'):
        cases.append(('closed-channel', [later]))
    # A-C19-5 / A-C19-7 (recorded findings)
    cases.append(('cancelled-read', [b'0123456789', 16, b'ABCDEFGHIJ']))
    cases.append(('cancelled-read', [b'0123456789', 0, b'ABCDEFGHIJ', 'read']))
    cases.append(('undecodable', [64]))
    return cases


async def eval_redir_case(name: str, args: List[Any]) -> Optional[Tuple[str, str]]:
    try:
        return await asyncio.wait_for(REDIR_SCENARIOS[name](*args), 90)
    except asyncio.TimeoutError:
        return 'process-scenario:timed-out:' + name, 'scenario %s%r did not finish within 90 s' % (name, tuple(args))
    except Exception as e:      # noqa: BLE001
        return ('process-scenario:failed:%s:%s' % (name, type(e).__name__),
                'scenario %s%r could not be played: %s: %s' % (name, tuple(args), type(e).__name__, e))


def oracle_sources(ctx: Ctx, res: OracleResult, hist: Hist) -> None:
    cases = redir_cases(ctx)
    fails: List[Failure] = []
    for name, args in cases:
        # one loop per scenario: a scenario that leaves the loop in a bad state cannot touch the next one
        bad = pair.run(eval_redir_case(name, args), timeout=120)
        res.evaluations += 1
        hist.hit('sources:' + name)
        if bad:
            hist.hit('sources-fail:' + bad[0])
            fails.append(Failure(signature=bad[0], what=bad[1],
                                 replay={'kind': 'redir', 'scenario': name, 'args': _enc(args)}))
    # findings recorded as known (not repaired) go last, so that a new root cause is reported in front of them
    recorded = (RD.SIG_OTHER_CUT, RD.SIG_CANCELLED_READ, RD.SIG_UNDECODABLE)
    fails.sort(key=lambda f: f.signature in recorded)
    res.failures += _dedupe(fails)
    res.nontrivial += len(cases)
    res.samples.append({'redir_scenario': cases[-1][0], 'args': _enc(cases[-1][1])})


def oracle(ctx: Ctx) -> OracleResult:
    res = OracleResult()
    hist = Hist()
    oracle_spec(ctx, res, hist)
    oracle_exit(ctx, res, hist)
    oracle_hostile(ctx, res, hist)
    oracle_redirect(ctx, res, hist)
    oracle_drain(ctx, res, hist)
    oracle_text_reads(ctx, res, hist)
    oracle_sources(ctx, res, hist)
    res.failures = _dedupe(res.failures)
    res.histogram = dict(hist)
    res.rule = ('(a) streams + call sequences (readexactly/read/readline/readuntil single, list, regex; infix-related '
                'separator lists as a separate class) each run under >=3 deliveries (chunkings incl. all 2^(n-1) for '
                'short streams, arrivals before/between/during the calls, limits 0/1/3/8, text mode, a real channel '
                'under transport re-chunking) against a Python specification; (b) all conformant orderings of '
                '{2 stdout, 1 stderr, EOF, exit-status, CLOSE} x wait() first/last + random event lists with loop '
                'turns, redirect, late wait, disconnect after CLOSE (window-conforming raw peer) + servers written '
                'against the public API; (b\') hostile peer: one packet exceeding what is left of the window by '
                '1..5 windows (reader on either side, process; paused or not, buffer empty/partly/completely full) '
                'must close the connection with Window exceeded and deliver only a prefix of what was sent inside the '
                'window, a packet filling the window exactly must be delivered; (c) 9 redirect target kinds (incl. redirect set up after data+EOF arrived); (d) drain vs read/close/cut; '
                '(e) redirect SOURCES and shared session state: drain() on a stream fed by a source while the channel is '
                'closed / the transport cut / the connection closed (both sides); stdout and stderr of a server process '
                'redirected from two sources (pipes, StreamReaders) with every interleaving of deliveries and ends; '
                'readline/readuntil on one stream while unread data of the other fills the pause limit (direct and over a '
                'real channel); redirect to another process\'s stdin with recv_eof=False before/after EOF; back-pressure '
                'over two StreamReader sources; a source outliving its channel; a cancelled read; undecodable text '
                'flushed inside read(); distinct = distinct cases')
    return res


# ---------------------------------------------------------------------------
# replay


def replay(ctx: Ctx, rep: Dict[str, Any]) -> List[Failure]:
    r = rep.get('replay', rep)
    kind = r.get('kind')
    if kind == 'spec-case':
        data = bytes.fromhex(r['data'])
        ops = [I.parse_tok(x) for x in r['ops']]
        dels = [(n, l, [I.parse_tok(x) for x in tk]) for n, l, tk in r['deliveries']]

        async def go() -> List[Failure]:
            wire = I.Rig()
            bad = await eval_spec_case(data, ops, dels, wire)
            await wire.close()
            return [spec_failure(data, ops, d, a, e, i, sig) for d, a, e, i, sig in bad]
        return pair.run(go())
    if kind == 'proc-events':
        evs = [I.parse_pev(x) for x in r['events']]
        bad, _real = pair.run(eval_exit_case(r['limit'], evs))
        return [Failure(bad[0], bad[1], r)] if bad else []
    if kind == 'hostile-reader':
        async def go_h() -> List[Failure]:
            rig = I.Rig()
            try:
                bad, _f = await run_hostile_reader(rig, r['mode'], r['window'], [bytes.fromhex(c) for c in r['chunks']],
                                                   r['pre_read'], r['over'])
            except Exception as e:      # noqa: BLE001
                bad = ('hostile-peer:scenario-failed:' + type(e).__name__, str(e))
            await rig.close()
            return [Failure(bad[0], bad[1], r)] if bad else []
        return pair.run(go_h())
    if kind == 'proc-api':
        import random
        chunker = pair.seeded_chunker(random.Random(r['chunker_seed']), 64) if r.get('chunker_seed') is not None else None
        pieces = [(k, bytes.fromhex(d)) for k, d in r['pieces']]
        obs = pair.run(run_exit_api(r['window'], pieces, tuple(r['status']), r['late'], r['disconnect'], chunker))
        w = obs['wait']
        if isinstance(w, str):
            return [Failure('wait-raises:' + w, w, r)]
        if w is not None and (w[0] is not None or w[1] is not None) and (w[2], w[3]) != obs['sent']:
            return [Failure(SIG_F33 if r['disconnect'] else 'exit-status-with-incomplete-output:public-api-server',
                            'stdout %d of %d bytes' % (len(w[2]), len(obs['sent'][0])), r)]
        return []
    if kind == 'redirect':
        import random
        chunker = pair.seeded_chunker(random.Random(r['chunker_seed']), 64) if r.get('chunker_seed') is not None else None
        bad = pair.run(run_redirect_case(r['target'], bytes.fromhex(r['data']), [bytes.fromhex(p) for p in r['pieces']],
                                         r['window'], r['recv_eof'], chunker, ctx.tmpdir(), 'replay'))
        return [Failure('redirect-%s:data-or-eof-not-copied' % r['target'], bad, r)] if bad else []
    if kind == 'redir':
        bad = pair.run(eval_redir_case(r['scenario'], _dec_args(r['scenario'], r['args'])), timeout=120)
        return [Failure(bad[0], bad[1], r)] if bad else []
    if kind == 'drain':
        bad = pair.run(run_drain_case(r['window'], r['total'], r['how']))
        return [Failure('drain:%s:contract-broken' % r['how'], bad, r)] if bad else []
    if kind == 'text-read':
        bad = pair.run(run_text_read_case(r['text'], list(r['cuts']), r['op'], r['n']))
        sig = 'stream-read:empty-result-without-eof:partial-character' if bad and 'empty string' in bad \
            else 'text-read:%s:contract-broken' % r['op']
        return [Failure(sig, bad, r)] if bad else []
    return []
