"""C15 helpers: canonical rendering of DER values (same token grammar as lean/Drivers/C15.lean),
seeded generators for wire/DER/base64 inputs, and the implementation-side evaluators used by the
correspondence.  Only public functions of asyncssh.packet / asyncssh.asn1 / binascii are called."""

from __future__ import annotations

import binascii
from typing import Any, List, Tuple

from asyncssh import asn1
from asyncssh import packet as pkt

from vlib import hx


# ---------------------------------------------------------------------------
# DER values <-> tokens


def render(v: Any) -> str:
    if v is None:
        return 'N'
    if isinstance(v, bool):
        return 'B1' if v else 'B0'
    if isinstance(v, int):
        return 'I%d' % v
    if isinstance(v, (bytes, bytearray)):
        return 'O' + hx(bytes(v))
    if isinstance(v, str):
        return 'U' + hx(v.encode('utf-8'))
    if isinstance(v, (tuple, list)):
        return 'S( ' + ''.join(render(i) + ' ' for i in v) + ')'
    if isinstance(v, (set, frozenset)):
        return 'E( ' + ''.join(i + ' ' for i in sorted(set(render(i) for i in v))) + ')'
    if isinstance(v, asn1.BitString):
        return 'T%d:%s' % (v.unused, hx(v.value))
    if isinstance(v, asn1.IA5String):
        return 'A' + hx(bytes(v.value))
    if isinstance(v, asn1.ObjectIdentifier):
        return 'D' + v.value
    if isinstance(v, asn1.TaggedDERObject):
        return 'X%d:%d( %s )' % (v.asn1_class, v.tag, render(v.value))
    if isinstance(v, asn1.RawDERObject):
        return 'R%d:%d:%s' % (v.asn1_class, v.tag, hx(v.content))
    raise TypeError('cannot render %r' % (v,))


class Spec:
    """A DER value *description* that may or may not be constructible/encodable in Python; rendered
    with the same grammar so that the Lean side can say enc=0 for the unencodable ones."""

    def __init__(self, kind: str, *args: Any):
        self.kind, self.args = kind, args

    def tokens(self) -> str:
        k, a = self.kind, self.args
        if k == 'null':
            return 'N'
        if k == 'bool':
            return 'B1' if a[0] else 'B0'
        if k == 'int':
            return 'I%d' % a[0]
        if k == 'octets':
            return 'O' + hx(a[0])
        if k == 'utf8':
            return 'U' + hx(a[0])
        if k == 'ia5':
            return 'A' + hx(a[0])
        if k == 'bits':
            return 'T%d:%s' % (a[0], hx(a[1]))
        if k == 'oid':
            return 'D' + '.'.join(str(c) for c in a[0])
        if k == 'seq':
            return 'S( ' + ''.join(i.tokens() + ' ' for i in a[0]) + ')'
        if k == 'set':
            return 'E( ' + ''.join(i.tokens() + ' ' for i in a[0]) + ')'
        if k == 'tagged':
            return 'X%d:%d( %s )' % (a[0], a[1], a[2].tokens())
        if k == 'raw':
            return 'R%d:%d:%s' % (a[0], a[1], hx(a[2]))
        raise ValueError(k)

    def build(self) -> Any:
        """the Python value (raises what the asyncssh constructors raise)"""
        k, a = self.kind, self.args
        if k == 'null':
            return None
        if k == 'bool':
            return bool(a[0])
        if k == 'int':
            return int(a[0])
        if k == 'octets':
            return bytes(a[0])
        if k == 'utf8':
            return a[0].decode('utf-8')
        if k == 'ia5':
            return asn1.IA5String(a[0])
        if k == 'bits':
            return asn1.BitString(a[1], a[0])
        if k == 'oid':
            return asn1.ObjectIdentifier('.'.join(str(c) for c in a[0]))
        if k == 'seq':
            return tuple(i.build() for i in a[0])
        if k == 'set':
            return frozenset(i.build() for i in a[0])
        if k == 'tagged':
            return asn1.TaggedDERObject(a[1], a[2].build(), a[0])
        if k == 'raw':
            return asn1.RawDERObject(a[1], a[2], a[0])
        raise ValueError(k)


INTERESTING_INTS = [0, 1, -1, 127, 128, -128, -129, 255, 256, -255, -256, 32767, 32768, -32768, -32769,
                    65535, 65536, 2 ** 31 - 1, 2 ** 31, -2 ** 31, 2 ** 63, -2 ** 63, 2 ** 64, 2 ** 255 - 19]

OIDS = [[1, 2, 840, 113549, 1, 1, 1], [1, 2, 840, 10040, 4, 1], [1, 2, 840, 10045, 2, 1], [1, 3, 132, 0, 34],
        [1, 3, 101, 112], [1, 3, 101, 113], [2, 16, 840, 1, 101, 3, 4, 1, 42], [1, 2, 840, 113549, 1, 5, 13],
        [2, 5, 4, 3], [0, 0], [1, 39], [2, 47], [0, 39, 0, 128, 16383, 16384]]


def gen_int(rng: Any) -> int:
    r = rng.random()
    if r < 0.3:
        return rng.choice(INTERESTING_INTS)
    if r < 0.6:
        k = rng.choice([7, 8, 15, 16, 23, 24, 31, 32, 63, 64, 127, 128, 255, 256, 511, 512, 1023, 1024, 2047, 2048])
        base = 1 << k
        return rng.choice([1, -1]) * (base + rng.choice([-2, -1, 0, 1, 2]))
    bits = rng.choice([4, 9, 17, 33, 70, 130, 260, 521, 1024, 2048])
    return rng.choice([1, -1]) * rng.getrandbits(rng.randint(1, bits))


def gen_bytes(rng: Any, maxlen: int = 40) -> bytes:
    r = rng.random()
    if r < 0.15:
        return b''
    if r < 0.25:
        n = rng.choice([127, 128, 129, 255, 256, 257, 300])
    else:
        n = rng.randint(0, maxlen)
    return bytes(rng.getrandbits(8) for _ in range(n))


def gen_spec(rng: Any, depth: int = 0, valid: bool = True) -> Spec:
    """valid=True: a value in the round-trip universe (Lean `wf`); otherwise anything describable."""
    kinds = ['null', 'bool', 'int', 'int', 'int', 'octets', 'octets', 'utf8', 'ia5', 'bits', 'oid', 'raw']
    if depth < 3:
        kinds += ['seq', 'seq', 'seq', 'set', 'tagged', 'tagged']
    k = rng.choice(kinds)
    if k == 'null':
        return Spec('null')
    if k == 'bool':
        return Spec('bool', rng.random() < 0.5)
    if k == 'int':
        return Spec('int', gen_int(rng))
    if k == 'octets':
        return Spec('octets', gen_bytes(rng, 300 if rng.random() < 0.1 else 40))
    if k == 'utf8':
        if valid or rng.random() < 0.7:
            s = ''.join(rng.choice(['a', 'Z', '0', ' ', 'é', '€', '\U0001f511', '\x00', '߿', '퟿',
                                    '', '￿', '\U00010000', '\U0010ffff'])
                        for _ in range(rng.randint(0, 8)))
            return Spec('utf8', s.encode('utf-8'))
        return Spec('utf8', gen_bytes(rng, 6))
    if k == 'ia5':
        return Spec('ia5', gen_bytes(rng, 12))
    if k == 'bits':
        if valid:
            u = rng.choice([0, 0, 0, 1, 3, 7])
            b = gen_bytes(rng, 12)
            if u:
                b = (b or b'\x80')
                b = b[:-1] + bytes([b[-1] & ~((1 << u) - 1) & 0xff])
            return Spec('bits', u, b)
        return Spec('bits', rng.choice([0, 1, 5, 7, 8, 9]), gen_bytes(rng, 4))
    if k == 'oid':
        if valid or rng.random() < 0.5:
            c = list(rng.choice(OIDS))
            if rng.random() < 0.3:
                c = c + [rng.choice([0, 1, 127, 128, 16383, 16384, 2 ** 32, 2 ** 70])]
            return Spec('oid', c)
        return Spec('oid', rng.choice([[1], [3, 1], [1, 40], [0, 40, 5], [2, 48], [2, 999, 3], [2, 175], []]))
    if k == 'seq':
        return Spec('seq', [gen_spec(rng, depth + 1, valid) for _ in range(rng.randint(0, 4))])
    if k == 'set':
        items = [gen_spec(rng, depth + 1, valid) for _ in range(rng.randint(0, 4))]
        # a Python frozenset cannot hold both True and 1 (they are equal), nor duplicates
        items = [i for i in items if i.kind != 'bool']
        items = list({i.tokens(): i for i in items}.values())
        if valid:
            # canonical listing: sorted by encoding, distinct
            enc = {}
            for i in items:
                try:
                    enc[asn1.der_encode(i.build())] = i
                except Exception:
                    pass
            items = [enc[e] for e in sorted(enc)]
        return Spec('set', items)
    if k == 'tagged':
        if valid:
            cls = rng.choice([1, 2, 2, 2, 3])
            tag = rng.choice([0, 1, 2, 3, 30, 32, 127, 128, 16383, 16384, 2 ** 21])
        else:
            cls = rng.choice([0, 1, 2, 3, 4])
            tag = rng.choice([0, 2, 16, 30, 31, 32, 5])
        return Spec('tagged', cls, tag, gen_spec(rng, depth + 1, valid))
    # raw
    if valid:
        cls = rng.choice([0, 1, 2, 3])
        tag = rng.choice([0, 7, 8, 9, 10, 11, 13, 19, 23, 30, 32, 200, 10 ** 6]) if cls == 0 else \
            rng.choice([0, 1, 5, 16, 30, 32, 127, 128, 129])
    else:
        cls = rng.choice([0, 1, 2, 3, 5])
        tag = rng.choice([2, 4, 5, 16, 31, 0])
    return Spec('raw', cls, tag, gen_bytes(rng, 12))


def impl_der_encode(spec: Spec) -> str:
    try:
        v = spec.build()
    except (asn1.ASN1EncodeError, UnicodeDecodeError, ValueError) as e:
        return 'raise:' + type(e).__name__
    try:
        return 'ok ' + hx(asn1.der_encode(v))
    except asn1.ASN1EncodeError:
        return 'raise:ASN1EncodeError'
    except Exception as e:
        return 'raise:' + type(e).__name__


def classify_der_exc(e: BaseException) -> str:
    if isinstance(e, asn1.ASN1DecodeError):
        return 'err decode'
    if isinstance(e, asn1.ASN1EncodeError):
        return 'err encode'
    if isinstance(e, UnicodeDecodeError):
        return 'err unicode'
    return 'exc:' + type(e).__name__


def impl_der_decode(data: bytes) -> str:
    try:
        return 'ok ' + render(asn1.der_decode(data))
    except Exception as e:
        return classify_der_exc(e)


def impl_der_partial(data: bytes) -> str:
    try:
        v, n = asn1.der_decode_partial(data)
        return 'ok %d %s' % (n, render(v))
    except Exception as e:
        return classify_der_exc(e)


def mutate(rng: Any, data: bytes) -> bytes:
    """one structured mutation of a byte string"""
    if not data:
        return bytes([rng.getrandbits(8)])
    b = bytearray(data)
    r = rng.random()
    if r < 0.25:
        i = rng.randrange(len(b))
        b[i] ^= 1 << rng.randrange(8)
    elif r < 0.4:
        del b[rng.randrange(len(b)):]
    elif r < 0.5:
        b += bytes(rng.getrandbits(8) for _ in range(rng.randint(1, 4)))
    elif r < 0.65:
        i = rng.randrange(min(len(b), 6))
        b[i] = rng.choice([0x80, 0x81, 0x82, 0x84, 0xff, 0x1f, 0x3f, 0x7f, 0x00, 0x30, 0x31, 0xa0, 0xbf])
    elif r < 0.75:
        i = rng.randrange(len(b))
        del b[i]
    elif r < 0.85:
        i = rng.randrange(len(b) + 1)
        b[i:i] = bytes([rng.choice([0x00, 0x80, 0xff, 0x81, rng.getrandbits(8)])])
    else:
        # re-encode the first length in a non-minimal long form when it is short form
        if len(b) >= 2 and b[1] < 0x80 and (b[0] & 0x1f) != 0x1f:
            k = rng.choice([1, 2, 3])
            b[1:2] = bytes([0x80 | k]) + int(b[1]).to_bytes(k, 'big')
        else:
            b[0] ^= 0x20
    return bytes(b)


# ---------------------------------------------------------------------------
# wire primitives (packet.py)


def opt_hex(f: Any, *args: Any) -> str:
    try:
        return 'ok ' + hx(f(*args))
    except (OverflowError, ValueError):
        return 'overflow'


def impl_get(method: str, data: bytes, show: Any) -> str:
    p = pkt.SSHPacket(data)
    try:
        v = getattr(p, method)()
    except pkt.PacketDecodeError:
        return 'incomplete'
    return 'ok %s %s' % (show(v), hx(p.get_remaining_payload()))


def wire_cases(rng: Any, n: int) -> List[Tuple[str, str, str]]:
    """(name, driver line, implementation result)"""
    out: List[Tuple[str, str, str]] = []
    for i in range(n):
        v = gen_int(rng)
        out.append(('MPInt', 'mpint %d' % v, opt_hex(pkt.MPInt, v)))
        out.append(('bit_length', 'bitlen %d' % v, str(v.bit_length())))
        ln = rng.choice([0, 1, 2, 4, 8, (abs(v).bit_length() + 7) // 8, (abs(v).bit_length() + 8) // 8])
        out.append(('to_bytes_signed', 'tobytess %d %d' % (ln, v),
                    opt_hex(lambda: v.to_bytes(ln, 'big', signed=True))))
        u = abs(v)
        out.append(('to_bytes', 'tobytes %d %d' % (ln, u), opt_hex(lambda: u.to_bytes(ln, 'big'))))
        n32 = rng.choice([0, 1, 255, 256, 2 ** 31, 2 ** 32 - 1, 2 ** 32, 2 ** 32 + 1, 2 ** 64 - 1, 2 ** 64,
                          rng.getrandbits(32), rng.getrandbits(40)])
        out.append(('UInt32', 'u32 %d' % n32, opt_hex(pkt.UInt32, n32)))
        out.append(('UInt64', 'u64 %d' % n32, opt_hex(pkt.UInt64, n32)))
        s = gen_bytes(rng)
        out.append(('String', 'str ' + hx(s), opt_hex(pkt.String, s)))
        # decoders: well-formed concatenations, then malformed ones
        tail = gen_bytes(rng, 6)
        good = pkt.MPInt(v) + tail
        for name, method, data, show in [
                ('get_mpint', 'getmpint', good, str),
                ('get_string', 'getstr', pkt.String(s) + tail, hx),
                ('get_uint32', 'getu32', pkt.UInt32(n32 % 2 ** 32) + tail, str),
                ('get_uint64', 'getu64', pkt.UInt64(n32 % 2 ** 64) + tail, str),
                ('get_boolean', 'getbool', tail, lambda b: '1' if b else '0'),
                ('get_byte', 'getbyte', tail, str),
                ('get_namelist', 'getnames', pkt.NameList([b'a', b'', b'bc'][:rng.randint(0, 3)]) + tail,
                 lambda l: '%d[%s]' % (len(l), ','.join(hx(x) for x in l)))]:
            pm = {'getmpint': 'get_mpint', 'getstr': 'get_string', 'getu32': 'get_uint32', 'getu64': 'get_uint64',
                  'getbool': 'get_boolean', 'getbyte': 'get_byte', 'getnames': 'get_namelist'}[method]
            out.append((name, '%s %s' % (method, hx(data)), impl_get(pm, data, show)))
            bad = mutate(rng, data)
            out.append((name + ':malformed', '%s %s' % (method, hx(bad)), impl_get(pm, bad, show)))
        raw = gen_bytes(rng, 10)
        out.append(('from_bytes_signed', 'frombytess ' + hx(raw), str(int.from_bytes(raw, 'big', signed=True))))
        out.append(('from_bytes', 'frombytes ' + hx(raw), str(int.from_bytes(raw, 'big'))))
    return out


# ---------------------------------------------------------------------------
# base64 (binascii as used by misc.wrap_base64 / public_key._parse_*)


B64 = b'ABCDEFGHIJKLMNOPQRSTUVWXYZabcdefghijklmnopqrstuvwxyz0123456789+/'


def impl_a2b(data: bytes) -> str:
    try:
        return 'ok ' + hx(binascii.a2b_base64(data))
    except binascii.Error as e:
        return 'err'


def gen_b64_text(rng: Any) -> bytes:
    r = rng.random()
    raw = gen_bytes(rng, 60)
    txt = binascii.b2a_base64(raw)[:-1]
    if r < 0.35:
        w = rng.choice([1, 2, 3, 4, 5, 63, 64, 70, 76])
        return b'\n'.join(txt[i:i + w] for i in range(0, len(txt), w)) + rng.choice([b'', b'\n', b'\r\n'])
    if r < 0.7:
        return mutate(rng, txt)
    alphabet = B64 + b'====\n\r -_:.\x00\xff'
    return bytes(rng.choice(alphabet) for _ in range(rng.randint(0, 24)))
