"""C18 translator: asyncssh/config.py (current tree) -> lean/AsyncsshModel/Gen/C18.lean.

Dumps, from the live module objects of `vlib.REPO`:
  * `_handlers` of SSHClientConfig / SSHServerConfig as (lower name, option name, setter kind),
  * `_conditionals`, `_no_split`, `_percent_expand`,
  * the source strings of the three regular expressions, and the alternatives of
    `_unsafe_user_pattern` decomposed (with CPython's own regex parser) into the five shapes of
    `Config.UserPat`.
Raises `Untranslatable` on anything it does not understand.
"""

from __future__ import annotations

import importlib
import os
import re
from typing import Any, Dict, List, Tuple

import vlib


class Untranslatable(Exception):
    pass


KIND_OF_HANDLER = {
    '_match_host': 'matchHost',
    '_match': 'matchBlock',
    '_include': 'includeFile',
    '_set_bool': 'setBool',
    '_set_bool_or_str': 'setBoolOrStr',
    '_set_int': 'setInt',
    '_set_string': 'setString',
    '_append_string': 'appendString',
    '_set_string_list': 'setStringList',
    '_append_string_list': 'appendStringList',
    '_set_address_family': 'setAddressFamily',
    '_set_canonicalize_host': 'setCanonicalizeHost',
    '_set_rekey_limits': 'setRekeyLimits',
    '_set_hostname': 'setHostname',
    '_set_request_tty': 'setRequestTty',
}


def lean_bytes(s: str) -> str:
    b = s.encode('utf-8')
    return '[' + ', '.join(str(x) for x in b) + ']'


def lean_string(s: str) -> str:
    out = []
    for ch in s:
        if ch == '\\':
            out.append('\\\\')
        elif ch == '"':
            out.append('\\"')
        elif ch == '\n':
            out.append('\\n')
        elif 32 <= ord(ch) < 127:
            out.append(ch)
        else:
            raise Untranslatable(f'non-printable character in regex source: {ch!r}')
    return '"' + ''.join(out) + '"'


def _lits(items: List[Tuple[Any, Any]]) -> bytes:
    import re._constants as C  # type: ignore
    out = bytearray()
    for op, arg in items:
        if op is not C.LITERAL or arg > 127:
            raise Untranslatable(f'expected an ASCII literal, got {op} {arg}')
        out.append(arg)
    return bytes(out)


def decompose_unsafe_user(pattern: 're.Pattern[str]') -> List[Tuple[str, Any]]:
    """alternatives of the regex as (shape, data) — see Config.UserPat"""
    import re._parser as P  # type: ignore
    import re._constants as C  # type: ignore
    if pattern.flags & ~re.UNICODE:
        raise Untranslatable(f'unexpected regex flags {pattern.flags}')
    parsed = list(P.parse(pattern.pattern))
    if len(parsed) == 1 and parsed[0][0] is C.BRANCH:
        seqs = [list(s) for s in parsed[0][1][1]]
    else:
        seqs = [parsed]
    alts: List[Tuple[str, Any]] = []
    for seq in seqs:
        if not seq:
            raise Untranslatable('empty alternative (matches every user name)')
        if seq[0] == (C.AT, C.AT_BEGINNING):
            body = seq[1:]
            if body and body[-1] == (C.AT, C.AT_END):
                alts.append(('exact', _lits(body[:-1])))
            elif body and body[0][0] is C.IN:
                ranges = []
                for op, arg in body[0][1]:
                    if op is C.RANGE:
                        ranges.append((arg[0], arg[1]))
                    elif op is C.LITERAL:
                        ranges.append((arg, arg))
                    else:
                        raise Untranslatable(f'character class item {op}')
                if any(hi > 127 for _lo, hi in ranges):
                    raise Untranslatable('non-ASCII class')
                alts.append(('prefixClassLit', (ranges, _lits(body[1:]))))
            else:
                if not body:
                    raise Untranslatable('bare ^ alternative')
                alts.append(('prefixLit', _lits(body)))
        elif len(seq) == 1 and seq[0][0] is C.IN:
            cs = []
            for op, arg in seq[0][1]:
                if op is not C.LITERAL or arg > 127:
                    raise Untranslatable(f'character set item {op} {arg}')
                cs.append(arg)
            alts.append(('containsAny', cs))
        elif len(seq) == 1 and seq[0][0] is C.LITERAL:
            alts.append(('containsAny', [seq[0][1]]))
        else:
            idx = [i for i, (op, _a) in enumerate(seq) if op is C.MIN_REPEAT]
            if len(idx) != 1:
                raise Untranslatable(f'unrecognised alternative {seq}')
            i = idx[0]
            lo, hi, sub = seq[i][1]
            if lo != 0 or hi is not C.MAXREPEAT or list(sub) != [(C.ANY, None)]:
                raise Untranslatable(f'unrecognised repeat {seq[i]}')
            o, c = _lits(seq[:i]), _lits(seq[i + 1:])
            if not o or not c:
                raise Untranslatable('open-ended span')
            alts.append(('containsSpan', (o, c)))
    return alts


def lean_alt(alt: Tuple[str, Any]) -> str:
    shape, data = alt
    bl = lambda b: '[' + ', '.join(str(x) for x in b) + ']'  # noqa: E731
    if shape == 'exact':
        return f'.exact {bl(data)}'
    if shape == 'prefixLit':
        return f'.prefixLit {bl(data)}'
    if shape == 'prefixClassLit':
        ranges, lit = data
        return '.prefixClassLit [' + ', '.join(f'({lo}, {hi})' for lo, hi in ranges) + f'] {bl(lit)}'
    if shape == 'containsAny':
        return f'.containsAny {bl(data)}'
    if shape == 'containsSpan':
        return f'.containsSpan {bl(data[0])} {bl(data[1])}'
    raise Untranslatable(shape)


def table_of(cls: Any) -> Dict[str, Any]:
    handlers = []
    for lname, (oname, fn) in cls._handlers.items():
        kind = KIND_OF_HANDLER.get(getattr(fn, '__name__', ''))
        if kind is None:
            raise Untranslatable(f'unknown handler {fn!r} for option {oname}')
        if lname != oname.lower():
            raise Untranslatable(f'handler key {lname!r} is not the lower-cased option {oname!r}')
        handlers.append((lname, oname, kind))
    return {
        'handlers': handlers,
        'conditionals': sorted(cls._conditionals),
        'no_split': sorted(cls._no_split),
        'percent_expand': sorted(cls._percent_expand),
    }


def extract() -> Dict[str, Any]:
    cfg = importlib.import_module('asyncssh.config')
    if not os.path.realpath(cfg.__file__).startswith(os.path.realpath(vlib.REPO)):
        raise vlib.Infra(f'asyncssh.config imported from {cfg.__file__}, not from {vlib.REPO}')
    return {
        'client': table_of(cfg.SSHClientConfig),
        'server': table_of(cfg.SSHServerConfig),
        'token_src': cfg._token_pattern.pattern,
        'env_src': cfg._env_pattern.pattern,
        'unsafe_src': cfg._unsafe_user_pattern.pattern,
        'regex_flags': [cfg._token_pattern.flags, cfg._env_pattern.flags, cfg._unsafe_user_pattern.flags],
        'unsafe_alts': decompose_unsafe_user(cfg._unsafe_user_pattern),
    }


def lean_table(name: str, server: bool, t: Dict[str, Any]) -> str:
    rows = ',\n    '.join(f'({lean_bytes(l)}, ({lean_bytes(o)}, Kind.{k}))   -- {o}' if False else
                          f'({lean_bytes(l)}, ({lean_bytes(o)}, Kind.{k}))' for l, o, k in t['handlers'])
    names = '\n'.join(f'--   {o}: {k}' for _l, o, k in t['handlers'])
    lst = lambda xs: '[' + ', '.join(lean_bytes(x) for x in xs) + ']'  # noqa: E731
    return (f'/- {name}: option ↦ setter kind\n{names} -/\n'
            f'def {name} : Table :=\n'
            f'  {{ server := {"true" if server else "false"},\n'
            f'    handlers := [\n    {rows}],\n'
            f'    conditionals := {lst(t["conditionals"])},   -- {t["conditionals"]}\n'
            f'    noSplit := {lst(t["no_split"])},   -- {t["no_split"]}\n'
            f'    percentExpand := {lst(t["percent_expand"])},   -- {t["percent_expand"]}\n'
            f'    unsafeUserAlts := unsafeUserAlts }}\n')


def render(x: Dict[str, Any]) -> str:
    if any(f & ~re.UNICODE for f in x['regex_flags']):
        raise Untranslatable(f'regex flags {x["regex_flags"]}')
    alts = ',\n    '.join(lean_alt(a) for a in x['unsafe_alts'])
    return (
        'import AsyncsshModel.Model.Config\n'
        '/- GENERATED on every run by harness/props/_c18_translate.py from asyncssh/config.py of the checked tree.\n'
        '   Do not edit: option tables, conditional / no-split / percent-expand sets, regex sources. -/\n'
        'namespace AsyncsshModel.Gen.C18\n'
        'open AsyncsshModel.Config\n\n'
        f'/-- `_token_pattern.pattern` -/\ndef tokenPatternSrc : String := {lean_string(x["token_src"])}\n'
        f'/-- `_env_pattern.pattern` -/\ndef envPatternSrc : String := {lean_string(x["env_src"])}\n'
        f'/-- `_unsafe_user_pattern.pattern` -/\ndef unsafeUserPatternSrc : String := {lean_string(x["unsafe_src"])}\n\n'
        '/-- the alternatives of `_unsafe_user_pattern`, decomposed by CPython\'s regex parser -/\n'
        f'def unsafeUserAlts : List UserPat := [\n    {alts}]\n\n'
        + lean_table('clientTable', False, x['client']) + '\n'
        + lean_table('serverTable', True, x['server']) + '\n'
        'end AsyncsshModel.Gen.C18\n')


def translate() -> Dict[str, Any]:
    x = extract()
    content = render(x)
    changed = vlib.write_if_changed(vlib.module_path('AsyncsshModel.Gen.C18'), content)
    pins = {q: vlib.ast_pin('asyncssh/config.py', q) for q in (
        'SSHConfig.parse', 'SSHConfig._match', 'SSHConfig._include', 'SSHConfig._expand_val',
        'SSHConfig._expand_token', 'SSHConfig._expand_env', 'SSHClientConfig._match_val',
        'SSHClientConfig._set_tokens', 'SSHClientConfig._match_host', 'SSHClientConfig._set_hostname',
        'SSHServerConfig._match_val', 'SSHServerConfig._set_tokens', 'SSHConfig.load')}
    return {'gen_file_changed': changed,
            'client_options': len(x['client']['handlers']), 'server_options': len(x['server']['handlers']),
            'unsafe_user_alternatives': [a[0] for a in x['unsafe_alts']],
            'regex_sources': [x['token_src'], x['env_src'], x['unsafe_src']],
            'ast_pins': pins}
