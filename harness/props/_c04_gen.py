"""C04 case generators: structured mostly-valid stream (scenario + random distractor lines) and a malformed stream.

A case is a JSON-serialisable dict (see _c04_lib.run_case).  `intent` records, by construction, the facts the
oracle's independent predicate needs (is the server key listed for this host, revoked, ...).
"""
from __future__ import annotations

import random
from typing import Any, Dict, List, Optional, Tuple

from props import _c04_lib as L

HOSTS = ['host.example.com', 'srv1', 'gw.lab.example', 'ns-1.example.org', 'memhost', '10.20.30.40']
ALIASES = ['alias.example.net', 'srv-alias', 'cluster-a']
ADDRS = ['10.20.30.40', '192.168.7.9', '127.0.0.2', '2001:db8::5', '::1']
PORTS = [22, 22, 22, 2222, 22022, 443]
KEXES = ['curve25519-sha256', 'ecdh-sha2-nistp256', 'diffie-hellman-group14-sha256', 'mlkem768x25519-sha256',
         'diffie-hellman-group-exchange-sha256', 'rsa2048-sha256']
SCRIPTS = ['A/', 'N/', 'U/', 'O/', '/A', '/U', '/O', 'AU/', 'NA/']

SCENARIOS = [
    # (name, weight)
    ('plain-trusted', 10), ('plain-untrusted', 8), ('plain-revoked', 6), ('plain-only-revoked', 2),
    ('plain-unlisted-host', 5),
    ('cert-ok', 10), ('cert-expired', 5), ('cert-notyet', 5), ('cert-wrong-principal', 5),
    ('cert-empty-principals', 3), ('cert-user-type', 5), ('cert-revoked-ca', 5), ('cert-untrusted-ca', 5),
    ('cert-badsig', 3), ('cert-tampered', 2), ('cert-subject-revoked', 3), ('cert-ca-listed-as-plain', 2),
    ('garbage-blob', 2), ('liar-plain', 6), ('liar-cert', 4), ('kh-none', 3), ('two-creds', 5),
    ('explicit-algs', 4), ('callback', 5),
]


def pick_weighted(rng: random.Random, items: List[Tuple[str, int]]) -> str:
    tot = sum(w for _, w in items)
    x = rng.randrange(tot)
    for n, w in items:
        if x < w:
            return n
        x -= w
    return items[-1][0]


def base_case(rng: random.Random) -> Dict[str, Any]:
    host = rng.choice(HOSTS)
    alias = rng.choice(ALIASES) if rng.random() < 0.3 else ''
    addr = rng.choice(ADDRS)
    if host[0].isdigit():
        # a host given as an IP literal is its own peer address (IP-literal pattern elements are compared with the
        # peer address only: pattern.py CIDRHostPattern - C17's subject)
        addr = host
    return {
        'host': host, 'alias': alias, 'addr': addr, 'port': rng.choice(PORTS),
        'cb_key': False, 'cb_ca': False, 'now4': 4 * 1_700_000_000 + rng.randrange(4), 'algopt': None,
        'kex': 'curve25519-sha256', 'script': '-', 'chunk': rng.random() < 0.3, 'seed': rng.randrange(1 << 30),
        'creds': [], 'kh': {'form': 'bytes', 'text': ''}, 'intent': {},
    }


def window(rng: random.Random) -> Tuple[int, int]:
    r = rng.random()
    if r < 0.1:
        return 0, 0xffffffffffffffff
    if r < 0.2:
        after = rng.randrange(1, 1 << 31)
        return after, after + 1
    after = rng.randrange(1_000_000, 2_000_000_000)
    return after, after + rng.randrange(1, 1_000_000)


def now_for(rng: random.Random, after: int, before: int, where: str) -> int:
    """now in quarter seconds relative to the window: 'in', 'before', 'after' or a boundary probe."""
    cap = 1 << 40
    b4 = min(before, cap) * 4
    a4 = after * 4
    if where == 'in':
        if before - after <= 1 or rng.random() < 0.5:
            return rng.choice([a4, a4 + 1, b4 - 1]) if b4 - 1 >= a4 else a4
        return rng.randrange(a4, b4)
    if where == 'early':
        return max(0, a4 - rng.choice([1, 2, 4, 4000]))
    if where == 'late':
        return b4 + rng.choice([0, 1, 3, 4, 4000])
    return a4


def add_lines(rng: random.Random, case: Dict[str, Any], lines: List[str], marker: str, key: str, match: bool,
              styles: Optional[List[str]] = None) -> str:
    lh, lp = L.lookup_args(case)
    pats = (L.matching_patterns if match else L.nonmatching_patterns)(lh, case['addr'], case['port'], rng)
    if styles:
        pats = [p for p in pats if p[0] in styles] or pats
    style, field = rng.choice(pats)
    lines.append(L.kh_line(marker, field, key))
    return style


def distractors(rng: random.Random, case: Dict[str, Any], lines: List[str], avoid: List[str]) -> None:
    """Lines that must not change the decision: entries for other hosts / non-matching patterns (any key, any
    marker), damaged lines, comments, blank lines; matching lines only for keys outside `avoid`."""
    pool = [n for n, _ in L.KEY_SPECS]
    for _ in range(rng.randrange(0, 5)):
        r = rng.random()
        if r < 0.45:
            add_lines(rng, case, lines, rng.choice(['', '', '@cert-authority', '@revoked']), rng.choice(pool), False)
        elif r < 0.65:
            others = [k for k in pool if k not in avoid]
            add_lines(rng, case, lines, rng.choice(['', '@cert-authority', '@revoked']), rng.choice(others), True)
        elif r < 0.85:
            lh, _lp = L.lookup_args(case)
            alg, b64 = L.damaged_key_field(rng.choice(pool), rng)
            lines.append('%s%s %s %s' % (rng.choice(['', '', '@revoked ', '@cert-authority ']),
                                         rng.choice([lh, '*', case['addr']]), alg, b64))
        else:
            lines.append(rng.choice(['# comment', '', '   ', '#@revoked * ssh-ed25519 AAAA']))
    rng.shuffle(lines)


def gen_case(rng: random.Random, scenario: Optional[str] = None, thorough: bool = False) -> Dict[str, Any]:
    case = base_case(rng)
    sc = scenario or pick_weighted(rng, SCENARIOS)
    case['scenario'] = sc
    ed = L.key_names('ssh-ed25519')
    sk = rng.choice(ed + ['p0', 'q0'] + (['r0'] if rng.random() < 0.15 else []))
    others = [k for k in ed if k != sk]
    ca = rng.choice(others + (['p1'] if rng.random() < 0.2 else []))
    wrong = rng.choice([k for k in others if k != ca])
    lines: List[str] = []
    lh, _lp = L.lookup_args(case)
    intent: Dict[str, Any] = {'server_key': sk, 'ca': None, 'listed': False, 'key_revoked': False,
                              'ca_listed': False, 'ca_revoked': False, 'liar': False, 'cert': None}
    avoid = [sk, ca]

    def cert_spec(ctype: int = 2, principals: Optional[List[str]] = None, where: str = 'in',
                  kind: str = 'cert', use_ca: Optional[str] = None, path: Optional[str] = None) -> Dict[str, Any]:
        after, before = window(rng)
        case['now4'] = now_for(rng, after, before, where)
        pr = [lh] if principals is None else principals
        if principals is None and rng.random() < 0.4:
            pr = rng.sample(['other.example.com', 'x'], rng.randrange(0, 3)) + [lh]
            rng.shuffle(pr)
        spec = {'kind': kind, 'key': sk, 'ca': use_ca or ca, 'type': ctype, 'after': after, 'before': before,
                'principals': pr, 'path': path or rng.choice(['std', 'forged']), 'signer': sk}
        intent['cert'] = {'type': ctype, 'after': after, 'before': before, 'principals': pr}
        intent['ca'] = use_ca or ca
        return spec

    if sc == 'plain-trusted':
        intent['style'] = add_lines(rng, case, lines, '', sk, True)
        intent['listed'] = True
        case['creds'] = [{'kind': 'key', 'key': sk, 'path': rng.choice(['std', 'forged']), 'signer': sk}]
    elif sc == 'plain-untrusted':
        if rng.random() < 0.3:
            add_lines(rng, case, lines, '@cert-authority', sk, True)   # the key is trusted as a CA only
        else:
            add_lines(rng, case, lines, '', wrong, True)
        case['creds'] = [{'kind': 'key', 'key': sk, 'path': 'std', 'signer': sk}]
    elif sc == 'plain-unlisted-host':
        intent['style'] = add_lines(rng, case, lines, '', sk, False)
        case['creds'] = [{'kind': 'key', 'key': sk, 'path': 'std', 'signer': sk}]
    elif sc == 'plain-revoked':
        add_lines(rng, case, lines, '', sk, True)
        intent['style'] = add_lines(rng, case, lines, '@revoked', sk, True)
        intent['listed'] = intent['key_revoked'] = True
        case['creds'] = [{'kind': 'key', 'key': sk, 'path': 'std', 'signer': sk}]
    elif sc == 'plain-only-revoked':
        add_lines(rng, case, lines, '@revoked', sk, True)
        intent['key_revoked'] = True
        case['creds'] = [{'kind': 'key', 'key': sk, 'path': 'std', 'signer': sk}]
    elif sc.startswith('cert-') or sc == 'liar-cert':
        ca_marker_lines = True
        if sc == 'cert-ok':
            spec = cert_spec()
        elif sc == 'cert-expired':
            spec = cert_spec(where='late')
        elif sc == 'cert-notyet':
            spec = cert_spec(where='early')
        elif sc == 'cert-wrong-principal':
            spec = cert_spec(principals=rng.choice([['other.example.com'], [lh + '.evil'], [lh.upper() + 'x'],
                                                    [case['addr']], ['*']]))
        elif sc == 'cert-empty-principals':
            spec = cert_spec(principals=[])
        elif sc == 'cert-user-type':
            spec = cert_spec(ctype=1, path='forged')
        elif sc == 'cert-revoked-ca':
            spec = cert_spec()
            add_lines(rng, case, lines, '@revoked', ca, True)
            intent['ca_revoked'] = True
        elif sc == 'cert-untrusted-ca':
            spec = cert_spec()
            ca_marker_lines = False
            add_lines(rng, case, lines, '@cert-authority', wrong, True)
            if rng.random() < 0.5:
                add_lines(rng, case, lines, '@cert-authority', ca, False)      # CA trusted for another host only
        elif sc == 'cert-badsig':
            spec = cert_spec(kind='badsig-cert', path='forged')
        elif sc == 'cert-tampered':
            spec = cert_spec(kind='tampered-cert', path='forged', where='late')
        elif sc == 'cert-subject-revoked':
            spec = cert_spec(path='forged')
            add_lines(rng, case, lines, '@revoked', sk, True)
            intent['key_revoked'] = True
        elif sc == 'cert-ca-listed-as-plain':
            spec = cert_spec()
            ca_marker_lines = False
            add_lines(rng, case, lines, '', ca, True)          # CA key listed as an ordinary host key only
        else:   # liar-cert
            spec = cert_spec(path='forged')
            spec['signer'] = rng.choice([wrong, 'x', '~' + sk, ca])
            intent['liar'] = True
        if ca_marker_lines:
            intent['style'] = add_lines(rng, case, lines, '@cert-authority', spec['ca'], True)
            intent['ca_listed'] = True
        case['creds'] = [spec]
    elif sc == 'garbage-blob':
        add_lines(rng, case, lines, '', sk, True)
        case['creds'] = [{'kind': 'garbage', 'key': sk, 'path': 'forged', 'signer': sk}]
    elif sc == 'liar-plain':
        add_lines(rng, case, lines, '', sk, True)
        intent['listed'] = intent['liar'] = True
        same_type = [k for k, a in L.KEY_SPECS if a == dict(L.KEY_SPECS)[sk] and k != sk]
        signer = rng.choice((same_type or [wrong]) + ['x', 'xx', '~' + sk, wrong])
        case['creds'] = [{'kind': 'key', 'key': sk, 'path': 'forged', 'signer': signer}]
    elif sc == 'kh-none':
        case['kh']['form'] = 'none'
        if rng.random() < 0.5:
            case['creds'] = [{'kind': 'key', 'key': sk, 'path': 'std', 'signer': sk}]
        else:
            case['creds'] = [cert_spec(ctype=rng.choice([1, 2]), where=rng.choice(['in', 'late', 'early']),
                                       principals=rng.choice([None, ['zzz']]), path='forged')]
    elif sc == 'two-creds':
        # an ed25519 credential and an ECDSA plain key; which is used depends on the client's algorithm list
        k2 = rng.choice(['p0', 'p1', 'q0'])
        sk = rng.choice(ed)
        intent['server_key'] = sk
        first = {'kind': 'key', 'key': sk, 'path': 'std', 'signer': sk} if rng.random() < 0.5 else cert_spec(path='std')
        first['key'] = sk
        case['creds'] = [first, {'kind': 'key', 'key': k2, 'path': 'std', 'signer': k2}]
        rng.shuffle(case['creds'])
        for k, m in ((sk, ''), (k2, ''), (ca, '@cert-authority')):
            if rng.random() < 0.6:
                add_lines(rng, case, lines, m, k, True)
        if rng.random() < 0.3:
            add_lines(rng, case, lines, '@revoked', rng.choice([sk, k2, ca]), True)
        avoid = [sk, k2, ca]
        intent['composite'] = True
    elif sc == 'explicit-algs':
        add_lines(rng, case, lines, '', sk, True)
        intent['listed'] = True
        alg = L.keys()[sk].algorithm.decode()
        case['algopt'] = rng.choice(['default', [alg], ['ssh-ed25519', 'ecdsa-sha2-nistp256'],
                                     ['ssh-ed25519-cert-v01@openssh.com', alg, alg], ['ssh-ed448']])
        case['creds'] = [{'kind': 'key', 'key': sk, 'path': 'std', 'signer': sk}]
        intent['composite'] = True
    elif sc == 'callback':
        case['cb_key'], case['cb_ca'] = rng.random() < 0.6, rng.random() < 0.6
        if rng.random() < 0.5:
            case['creds'] = [{'kind': 'key', 'key': sk, 'path': 'std', 'signer': sk}]
            if rng.random() < 0.3:
                add_lines(rng, case, lines, '@revoked', sk, True)
                intent['key_revoked'] = True
        else:
            case['creds'] = [cert_spec(where=rng.choice(['in', 'in', 'late']), path='forged')]
            if rng.random() < 0.3:
                add_lines(rng, case, lines, '@revoked', ca, True)
                intent['ca_revoked'] = True
        intent['composite'] = True
    if case['kh']['form'] != 'none':
        distractors(rng, case, lines, avoid)
        r = rng.random()
        case['kh']['form'] = 'bytes' if r < 0.64 else 'file' if r < 0.72 else 'object' if r < 0.80 else \
            'callable' if r < 0.87 else 'tuple' if r < 0.90 else 'tuplepriv' if r < 0.91 else \
            'tuplerevpriv' if r < 0.93 else \
            'homefile' if r < 0.98 else 'nohome'
        case['kh']['text'] = ''.join(l + rng.choice(['\n', '\n', '\r\n']) for l in lines)
    # handshake variations
    r = rng.random()
    if r < (0.35 if thorough else 0.12):
        case['kex'] = rng.choice(KEXES[1:4] + (KEXES[4:] if thorough or rng.random() < 0.25 else []))
    if rng.random() < 0.1:
        case['script'] = rng.choice(SCRIPTS)
        if case['kex'] not in ('curve25519-sha256', 'ecdh-sha2-nistp256', 'diffie-hellman-group14-sha256'):
            case['kex'] = 'curve25519-sha256'
        intent['scripted'] = True
    case['intent'] = intent
    if case['kh']['form'] == 'nohome':
        # no known_hosts anywhere: nothing is trusted
        intent['listed'] = intent['ca_listed'] = False
        intent['key_revoked'] = intent['ca_revoked'] = False
    return case


def gen_rekey(rng: random.Random) -> Dict[str, Any]:
    """A trusted host certificate (or key) and a second key exchange after the clock moved: inside the window the
    session goes on without a second SERVICE_REQUEST; past valid_before the re-exchange fails with a host-key error."""
    case = gen_case(rng, rng.choice(['cert-ok', 'cert-ok', 'plain-trusted']))
    case['script'], case['kex'] = '-', 'curve25519-sha256'
    case['intent'].pop('scripted', None)
    case['scenario'] = 'rekey:' + case['scenario']
    spec = case['creds'][0]
    if spec['kind'] == 'cert':
        b4 = min(spec['before'], 1 << 40) * 4
        case['rekey_now4'] = rng.choice([case['now4'], b4 - 1, b4, b4 + 1, b4 + 4000])
    else:
        case['rekey_now4'] = case['now4'] + 4 * rng.randrange(1, 10 ** 6)
    return case


def gen_malformed(rng: random.Random) -> Dict[str, Any]:
    """known_hosts files made mostly of junk around (maybe) one good line; server honest."""
    case = base_case(rng)
    case['scenario'] = 'malformed-file'
    sk = rng.choice(L.key_names('ssh-ed25519'))
    lines: List[str] = []
    good = rng.random() < 0.5
    lh, _ = L.lookup_args(case)
    for _ in range(rng.randrange(1, 6)):
        alg, b64 = L.damaged_key_field(rng.choice([sk, 'e5', 'p0']), rng)
        lines.append('%s%s %s %s' % (rng.choice(['', '@revoked ', '@cert-authority ', '@what ']),
                                     rng.choice([lh, '*', '|1|AAAA|BBBB', '|1|notbase64|x', '[%s]:x' % lh, '!', ',']),
                                     alg, b64))
    lines += rng.sample(['\x00\x01garbage', '|1|', '@revoked', '@cert-authority *', 'a b', '# ' + 'x' * 300, '\t',
                         '@bogus-marker * ssh-ed25519 AAAA', 'onlyhost'],
                        rng.randrange(0, 4))
    if good:
        add_lines(rng, case, lines, '', sk, True)
    rng.shuffle(lines)
    case['kh'] = {'form': rng.choice(['bytes', 'bytes', 'file']), 'text': '\n'.join(lines) + '\n'}
    case['creds'] = [{'kind': 'key', 'key': sk, 'path': 'std', 'signer': sk}]
    case['intent'] = {'server_key': sk, 'listed': good, 'key_revoked': False, 'liar': False, 'cert': None,
                      'ca': None, 'ca_listed': False, 'ca_revoked': False, 'malformed': True}
    return case
