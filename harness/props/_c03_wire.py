"""Independent SSH wire helpers for the C03 harness (no asyncssh code): field codecs, cleartext framing,
parsers for KEXINIT and the key-exchange messages, and a canonical form used to decide whether an in-flight
edit changed anything the two endpoints hash."""
from __future__ import annotations

from typing import Any, Dict, List, Optional, Tuple

MSG_DISCONNECT, MSG_IGNORE, MSG_KEXINIT, MSG_NEWKEYS = 1, 2, 20, 21


class Bad(Exception):
    pass


def u32(n: int) -> bytes:
    return n.to_bytes(4, 'big')


def sstr(b: bytes) -> bytes:
    return u32(len(b)) + b


def mpint(v: int) -> bytes:
    """canonical RFC 4251 mpint (written from the RFC text, not from packet.py)"""
    if v == 0:
        return u32(0)
    n = (v.bit_length() + 8) // 8 if v > 0 else ((-v - 1).bit_length() + 8) // 8
    return sstr(v.to_bytes(n, 'big', signed=True))


def mpint_padded(v: int, extra: int = 1) -> bytes:
    """a non-minimal encoding of the same integer (sign-extended by `extra` bytes)"""
    body = mpint(v)[4:]
    pad = b'\xff' if v < 0 else b'\0'
    return sstr(pad * extra + body)


class Reader:
    def __init__(self, data: bytes):
        self.d, self.i = data, 0

    def take(self, n: int) -> bytes:
        if self.i + n > len(self.d):
            raise Bad('short')
        r = self.d[self.i:self.i + n]
        self.i += n
        return r

    def u32(self) -> int:
        return int.from_bytes(self.take(4), 'big')

    def string(self) -> bytes:
        return self.take(self.u32())

    def mpint(self) -> int:
        return int.from_bytes(self.string(), 'big', signed=True)

    def namelist(self) -> List[bytes]:
        s = self.string()
        return s.split(b',') if s else []

    def end(self) -> None:
        if self.i != len(self.d):
            raise Bad('trailing')

    def rest(self) -> bytes:
        return self.d[self.i:]


def frame(payload: bytes, pad: Optional[bytes] = None) -> bytes:
    """cleartext binary packet (block size 8, no MAC)"""
    if pad is None:
        padlen = -(5 + len(payload)) % 8
        if padlen < 4:
            padlen += 8
        pad = b'\0' * padlen
    return u32(1 + len(payload) + len(pad)) + bytes([len(pad)]) + payload + pad


def unframe(data: bytes) -> Tuple[bytes, bytes]:
    """(payload, padding) of exactly one cleartext packet"""
    if len(data) < 5:
        raise Bad('short frame')
    n = int.from_bytes(data[:4], 'big')
    if len(data) != 4 + n or n < 1:
        raise Bad('not exactly one frame')
    padlen = data[4]
    if padlen > n - 1:
        raise Bad('padding')
    return data[5:4 + n - padlen], data[4 + n - padlen:]


KEXINIT_LISTS = ['kex', 'hostkey', 'enc_cs', 'enc_sc', 'mac_cs', 'mac_sc', 'cmp_cs', 'cmp_sc', 'lang_cs', 'lang_sc']


def parse_kexinit(payload: bytes) -> Dict[str, Any]:
    if not payload or payload[0] != MSG_KEXINIT:
        raise Bad('not kexinit')
    r = Reader(payload[1:])
    out: Dict[str, Any] = {'cookie': r.take(16)}
    for nm in KEXINIT_LISTS:
        out[nm] = r.namelist()
    out['follows'] = r.take(1)[0]
    out['reserved'] = r.u32()
    r.end()
    return out


def build_kexinit(k: Dict[str, Any]) -> bytes:
    out = bytes([MSG_KEXINIT]) + k['cookie']
    for nm in KEXINIT_LISTS:
        out += sstr(b','.join(k[nm]))
    return out + bytes([k['follows']]) + u32(k['reserved'])


# message layouts of the key-exchange methods: form -> {msg number: (name, sender, [(field, kind)])}
LAYOUT: Dict[str, Dict[int, Tuple[str, str, List[Tuple[str, str]]]]] = {
    'dh': {30: ('init', 'c', [('e', 'mpint')]),
           31: ('reply', 's', [('hostkey', 'string'), ('f', 'mpint'), ('sig', 'string')])},
    'gex': {34: ('request', 'c', [('min', 'u32'), ('n', 'u32'), ('max', 'u32')]),
            30: ('request_old', 'c', [('n', 'u32')]),
            31: ('group', 's', [('p', 'mpint'), ('g', 'mpint')]),
            32: ('init', 'c', [('e', 'mpint')]),
            33: ('reply', 's', [('hostkey', 'string'), ('f', 'mpint'), ('sig', 'string')])},
    'ecdh': {30: ('init', 'c', [('qc', 'string')]),
             31: ('reply', 's', [('hostkey', 'string'), ('qs', 'string'), ('sig', 'string')])},
    'rsa': {30: ('pubkey', 's', [('hostkey', 'string'), ('trans', 'string')]),
            31: ('secret', 'c', [('enck', 'string')]),
            32: ('done', 's', [('sig', 'string')])},
}
LAYOUT['hybrid'] = LAYOUT['ecdh']


def parse_kexmsg(form: str, payload: bytes) -> Tuple[str, Dict[str, Any]]:
    if not payload or payload[0] not in LAYOUT[form]:
        raise Bad('unknown kex message')
    name, _sender, fields = LAYOUT[form][payload[0]]
    r = Reader(payload[1:])
    out: Dict[str, Any] = {}
    for fname, kind in fields:
        out[fname] = {'u32': r.u32, 'string': r.string, 'mpint': r.mpint}[kind]()
    r.end()
    return name, out


def build_kexmsg(form: str, msgno: int, fields: Dict[str, Any], noncanonical: Optional[str] = None) -> bytes:
    _name, _sender, layout = LAYOUT[form][msgno]
    out = bytes([msgno])
    for fname, kind in layout:
        v = fields[fname]
        if kind == 'u32':
            out += u32(v)
        elif kind == 'string':
            out += sstr(v)
        else:
            out += mpint_padded(v) if noncanonical == fname else mpint(v)
    return out


def canonical(form: Optional[str], payload: bytes) -> Any:
    """what the receiving endpoint retains of a cleartext handshake payload; two payloads with the same
    canonical form are indistinguishable to the exchange hash"""
    if not payload:
        return ('empty',)
    t = payload[0]
    try:
        if t == MSG_KEXINIT:
            parse_kexinit(payload)
            return ('kexinit', payload)             # hashed verbatim
        if t == MSG_NEWKEYS:
            return ('newkeys', payload)
        if form and 30 <= t <= 49:
            name, f = parse_kexmsg(form, payload)
            if name in ('request', 'request_old'):
                return (name, payload)              # hashed verbatim
            return (name, tuple(sorted(f.items())))
    except Bad:
        pass
    return ('raw', payload)


def version_of_line(line: bytes) -> bytes:
    """the version string an endpoint retains for a received line (without LF): one trailing CR removed"""
    return line[:-1] if line.endswith(b'\r') else line
